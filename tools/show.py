#!/venv/bin/python
"""tools/show.py <replay.json> : re-execute the recorded history against the current tree and print the failing step"""
import json, sys, os
sys.path.insert(0, os.path.join(os.path.dirname(__file__), ".."))
from vlib import heap, common as C
r = json.load(open(sys.argv[1]))
g = r["replay"]["gen"]
mod = __import__("vlib." + r["replay"].get("engine", "heap"), fromlist=["x"])
h = mod.make_history(g["pid"], g["seed"], g["index"])
v, _ = mod.validate([h], nbatch=1)
pos, cl = v[0]
print("verdict:", pos, cl)
for p in h["prog"]:
    print("  ", p)
if pos:
    e = dict(h["steps"][pos - 1])
    e.pop("memd", None)
    reads = e.pop("reads", [])
    print(json.dumps(e)[:3000])
    for rd in reads:
        print("   read", json.dumps(rd)[:600])
