#!/bin/bash
# usage: tools/try_seeded.sh <seed-dir-name | path/to/patch.diff> <check id> [more check ids]
# Applies the patch to a scratch worktree of /repo HEAD (never to /repo), runs the quick checks against it
# (XOBJECTS_REPO), removes the worktree.  Evidence goes to a scratch directory, not to /verif/evidence.
set -u
cd "$(dirname "$0")/.."
name=$1; shift
patch=$name; [ -f "$patch" ] || patch="$PWD/seeded/$name/patch.diff"
patch=$(readlink -f "$patch")
wt=$(mktemp -d /tmp/seedwt_XXXXXX); rmdir "$wt"
git -C /repo worktree add -q --detach "$wt" HEAD || exit 2
trap 'git -C /repo worktree remove --force "$wt" 2>/dev/null; rm -rf "$wt" /tmp/seeded_evidence_$$' EXIT
git -C "$wt" apply "$patch" || { echo "patch does not apply"; exit 2; }
for id in "$@"; do
  echo "=== seeded $name -> check $id"
  XOBJECTS_REPO="$wt" VERIF_EVIDENCE_DIR=/tmp/seeded_evidence_$$ VERIF_OUT_DIR=/tmp/seeded_evidence_$$/out ./check "$id" --tier ${TIER:-quick} 2>&1 | grep -E "VIOLATION|KNOWN-FINDING|MACHINERY|^\[" | cut -c1-500 | head -n 12
  echo "rc=${PIPESTATUS[0]}"
done
