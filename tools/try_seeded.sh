#!/bin/bash
# usage: tools/try_seeded.sh <seed-dir-name> <check id> [more check ids]   -- applies seeded/<name>/patch.diff to /repo, runs the quick checks, reverts
set -u
cd "$(dirname "$0")/.."
name=$1; shift
if ! git -C /repo diff --quiet; then echo "/repo is dirty"; exit 2; fi
git -C /repo apply "$PWD/seeded/$name/patch.diff" || exit 2
for id in "$@"; do
  echo "=== seeded $name -> check $id"
  VERIF_EVIDENCE_DIR=/tmp/seeded_evidence ./check "$id" --tier quick 2>&1 | tail -n 12
  echo "rc=${PIPESTATUS[0]}"
done
git -C /repo checkout -- .
git -C /repo status --short | head -3
