#!/bin/bash
# usage: tools/confirm_seed.sh <dir with patch.diff demo.py meta.json>
# Confirms an independently written seeded change in a fresh scratch worktree of /repo HEAD (removed afterwards):
# demo passes on the clean tree, the patch applies, the pinned test-suite passes with it, the demo fails with it.
d=$(readlink -f "$1"); wt=$(mktemp -d /tmp/confwt_XXXXXX); rmdir $wt
git -C /repo worktree add -q --detach $wt HEAD || exit 2
trap 'git -C /repo worktree remove --force $wt 2>/dev/null; rm -rf $wt' EXIT
log=$(mktemp)
{ echo "== demo on clean tree"; (cd $wt && PYTHONPATH=$wt timeout 600 /venv/bin/python $d/demo.py >$log.clean 2>&1); c=$?; echo "exit=$c"; tail -2 $log.clean
  echo "== patch applied"; git -C $wt apply $d/patch.diff && git -C $wt status --short
  echo "== tests with patch"; (cd $wt && PYTHONPATH=$wt /venv/bin/python -m pytest -q -p no:cacheprovider --timeout=900 tests 2>&1 | tail -1)
  (cd $wt && git clean -fdXq)
  echo "== demo on patched tree"; (cd $wt && PYTHONPATH=$wt timeout 600 /venv/bin/python $d/demo.py >$log.patched 2>&1); p=$?; echo "exit=$p"; tail -4 $log.patched | cut -c1-300; } > $log 2>&1
cat $log
python3 - "$d" "$log" <<'PY'
import json,sys
d,log=sys.argv[1],sys.argv[2]
m=json.load(open(d+"/meta.json"))
m["independently_confirmed"]={"how":"tools/confirm_seed.sh: fresh scratch worktree of /repo HEAD (removed afterwards): demo on the clean tree, git apply patch.diff, full pinned test command, demo on the patched tree","log":open(log).read()}
m["origin"]="written by an independent sub-agent that saw only the property text and its own worktree"
json.dump(m,open(d+"/meta.json","w"),indent=1)
PY
rm -f $log $log.clean $log.patched
