#!/bin/bash
# usage: tools/take_seed.sh <src dir with patch.diff demo.py meta.json> <seed name e.g. C05n> <check id> [more check ids]
# copies an independently written change into seeded/<name>, confirms it (tools/confirm_seed.sh) and runs the quick checks against it
set -u
cd "$(dirname "$0")/.."
src=$1; name=$2; shift 2
mkdir -p seeded/$name
cp $src/patch.diff $src/demo.py $src/meta.json seeded/$name/
tools/confirm_seed.sh seeded/$name > /tmp/take_$name.confirm 2>&1
tail -12 /tmp/take_$name.confirm
tools/try_seeded.sh $name "$@" 2>&1 | tee /tmp/take_$name.try | cut -c1-400
