#!/bin/bash
# runs every seeded change against the quick check of its property (scratch worktrees, ${PAR:-3} at a time), writes seeded/RESULTS.md
cd "$(dirname "$0")/.."
out=seeded/RESULTS.md
tmp=$(mktemp -d /tmp/matrix_XXXXXX)
one() {
  n=$1; d=seeded/$n; tmp=$2
  pid=$(echo $n | cut -c1-3)
  st=$(jq -r '.status // "active"' $d/meta.json | cut -c1-8)
  if [ "$st" != "active" ]; then echo "| $n | $pid | obsolete (see meta.json) | - | - |" > $tmp/$n.row; return; fi
  res=$(tools/try_seeded.sh $n $pid 2>&1)
  rc=$(echo "$res" | grep -o "rc=[0-9]*" | tail -1)
  key=$(echo "$res" | grep -o "key=[^ ]*" | head -1 | cut -c1-90)
  echo "| $n | $pid | active | $rc | \`$key\` |" > $tmp/$n.row
  echo "$n $rc $key"
}
export -f one
ls seeded | while read n; do [ -f seeded/$n/meta.json ] && echo $n; done | xargs -P ${PAR:-3} -I{} bash -c "one {} $tmp"
{ echo "| seeded | property | status | quick check exit | first violation key |"; echo "|---|---|---|---|---|"; cat $tmp/*.row; } > $out
rm -rf $tmp
