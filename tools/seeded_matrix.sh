#!/bin/bash
# runs every seeded change against the quick check of its property (scratch worktrees), writes seeded/RESULTS.md
cd "$(dirname "$0")/.."
out=seeded/RESULTS.md
echo "| seeded | property | status | quick check exit | first violation key |" > $out.tmp
echo "|---|---|---|---|---|" >> $out.tmp
for d in seeded/*/; do
  n=$(basename $d); [ -f $d/meta.json ] || continue
  pid=$(echo $n | cut -c1-3)
  st=$(jq -r '.status // "active"' $d/meta.json | cut -c1-8)
  if [ "$st" != "active" ]; then echo "| $n | $pid | obsolete (see meta.json) | - | - |" >> $out.tmp; continue; fi
  res=$(tools/try_seeded.sh $n $pid 2>&1)
  rc=$(echo "$res" | grep -o "rc=[0-9]*" | tail -1)
  key=$(echo "$res" | grep -o "key=[^ ]*" | head -1 | cut -c1-90)
  echo "| $n | $pid | active | $rc | \`$key\` |" >> $out.tmp
  echo "$n $rc $key"
done
mv $out.tmp $out
