#!/usr/bin/env python3
import json, os, sys
sys.path.insert(0, os.path.join(os.path.dirname(__file__), ".."))
from vlib.registry import CHECKS, NOT_YET, READY_D
root = os.path.join(os.path.dirname(__file__), "..")
rd = os.path.join(root, "registry.d")
if os.path.isdir(rd):
    for f in sorted(os.listdir(rd)):
        if f.endswith(".json") and f[:-5] in READY_D:
            CHECKS[f[:-5]] = json.load(open(os.path.join(rd, f)))
props = [json.loads(l) for l in open(os.path.join(root, "properties.jsonl"))]
checks, na = [], []
for p in props:
    i = p["id"]
    if i in CHECKS:
        c = CHECKS[i]
        checks.append(dict(property_id=i, quick_cmd=f"./check {i} --tier quick", thorough_cmd=f"./check {i} --tier thorough",
                           evidence_file=f"/verif/evidence/{i}.json", replay_cmd_template=f"./check {i} --replay {{path}}",
                           engine=c["engine"], level_claimed=dict(category=c["category"], text=c["text"], design_ref=c["design_ref"]),
                           level_note=c["note"], technique=c["technique"]))
    else:
        na.append(dict(property_id=i, reason=NOT_YET.get(i, "check not built yet (work in progress, see DESIGN.md section 8); not claimed until its check is quiet on the unchanged tree")))
engines = {}
for i, c in CHECKS.items():
    engines.setdefault(c["engine"], []).append(i)
m = dict(version=1, setup_cmd="./setup.sh",
         hooks=dict(guard="XOBJECTS_VERIF", enable="no source hooks: the harness wraps the library from outside (XOBJECTS_VERIF=1 is exported by ./check only for uniformity)",
                    baseline_off_cmd="cd /repo && /venv/bin/python -m pytest -ra -q -p no:cacheprovider --timeout=900 --continue-on-collection-errors",
                    source_commits=[], add_only=True),
         engines=[dict(name=e, path=f"vlib/{e}.py", serves_properties=ps, kind_free_text="TLA+ spec in spec/, TLC, python replay/trace harness") for e, ps in engines.items()],
         checks=checks, not_applicable=na,
         notes="All checks: exit 0 held / 1 violation / 2 machinery failure. Known findings: known_findings.json. fix: commits in /repo are listed in DESIGN.md 9.5 (31, the latest 1f25c94) and as 'fixed' entries of known_findings.json.")
json.dump(m, open(os.path.join(root, "MANIFEST.json"), "w"), indent=1)
import subprocess
r = subprocess.run(["python3-vt", "-c", "import json,jsonschema;jsonschema.validate(json.load(open('MANIFEST.json')),json.load(open('/root/.vp/MANIFEST.schema.json')));print('MANIFEST valid', len(json.load(open('MANIFEST.json'))['checks']), 'checks')"], cwd=root)
sys.exit(r.returncode)
