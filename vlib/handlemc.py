"""C06, model level: spec/XoHandle.tla (the per-handle cache of the offsets of dynamic parts) checked by TLC, every history
it enumerates replayed on the real library.

model -> code: for every reachable state TLC exports the history and, per handle, whether its cache cell agrees with the
bytes.  The harness executes the history with real handles (constructor, T._from_buffer view, copy-constructed T(h),
h._update(z) with a same-size z of another distribution) in two realisations of the abstract "object with dynamic parts"
(a struct with three dynamic fields, an array of three dynamically sized items) and compares, per live handle: the cached
offsets with those of a fresh view, the value read through the handle with the value the object must hold, and a write
through the handle with what a fresh view reads afterwards.  A handle the model calls coherent must be indistinguishable
from a view (C06); a handle the model calls stale (the known finding) is reported under the known key.
Vacuity self-tests: the variants "norefresh" (before fix 56692ae) and "inplace" (seeded change C06f) must violate
CoherentUnlessStale.
"""
import json, os, shutil
import numpy as np
from . import common as C

CFG = """SPECIFICATION Spec
CONSTANTS MaxLen = {L} MaxObj = {O} MaxHandles = {H} NLayouts = {N} Mode = "{mode}" Export = {export} Real = "{real}"
INVARIANT CoherentUnlessStale
INVARIANT StaleOnlyByCrossUpdate
INVARIANT Exported
CHECK_DEADLOCK FALSE
"""
TIERS = {"quick": dict(L=4, O=3, H=4, N=2), "thorough": dict(L=6, O=3, H=5, N=3)}
SAMPLE = {"quick": 10 ** 9, "thorough": 120000}      # histories replayed per realisation (all of them in the quick tier)
LAYOUTS = {1: (2, 1, 1), 2: (1, 2, 1), 3: (1, 1, 2)}
KNOWN_KEY = "handles:stale-after-update-through-another-handle"


def _tlc(tag, cfg, workers=4):
    wd = C.scratch("hdl")
    open(os.path.join(wd, tag + ".cfg"), "w").write(cfg)
    res = C.run_tlc("XoHandle", tag + ".cfg", workdir=wd, workers=workers, timeout=3000)
    shutil.rmtree(wd, ignore_errors=True)
    return res


class Real:
    """one realisation of the abstract object: how to build a value of a layout, read it, write into its last part"""

    def __init__(self, xo, kind):
        self.xo, self.kind = xo, kind
        if kind == "struct":
            self.T = type("XvHandleS", (xo.Struct,), {"a": xo.Float64[:], "b": xo.Float64[:], "c": xo.Float64[:]})
        else:
            self.T = xo.Float64[:][:]
        self.n = 0

    def value(self, l):
        parts = []
        for k in LAYOUTS[l]:
            parts.append([float(self.n + i + 1) for i in range(k)])
            self.n += k
        return parts

    def build(self, parts, buf):
        if self.kind == "struct":
            return self.T(a=parts[0], b=parts[1], c=parts[2], _buffer=buf)
        return self.T(parts, _buffer=buf)

    def read(self, h):
        if self.kind == "struct":
            return [[float(x) for x in h.a], [float(x) for x in h.b], [float(x) for x in h.c]]
        return [[float(x) for x in h[i]] for i in range(3)]

    def write_last(self, h, v):
        if self.kind == "struct":
            h.c[0] = v
        else:
            h[2][0] = v

    def offsets(self, h):
        if self.kind == "struct":
            return sorted((int(k), int(v)) for k, v in h._offsets.items())[1:]      # the first dynamic field's offset is static
        return [int(x) for x in np.asarray(h._offsets).ravel()]


def replay(xo, ctx, kind, model):
    """-> list of (key, desc) findings for the final state of the history"""
    buf, other = ctx.new_buffer(4096), ctx.new_buffer(4096)
    R = Real(xo, kind)
    objs, hs = [], []           # objs: [offset, value]; hs: [handle or None, obj index]
    for ev in model["hist"]:
        op = ev["op"]
        if op == "new":
            v = R.value(ev["l"])
            h = R.build(v, buf)
            objs.append([int(h._offset), v])
            hs.append([h, len(objs) - 1])
        elif op == "view":
            o = ev["o"] - 1
            hs.append([R.T._from_buffer(buf, objs[o][0]), o])
        elif op == "copynew":
            src, o = hs[ev["h"] - 1]
            h = R.T(src, _buffer=buf)
            objs.append([int(h._offset), [list(p) for p in objs[o][1]]])
            hs.append([h, len(objs) - 1])
        elif op == "update":
            h, o = hs[ev["h"] - 1]
            v = R.value(ev["l"])
            z = R.build(v, other)
            h._update(z)
            objs[o][1] = v
        elif op == "drop":
            hs[ev["h"] - 1][0] = None
    out = []
    prog = "; ".join(json.dumps(e, sort_keys=True) for e in model["hist"])
    for i, (h, o) in enumerate(hs):
        m = model["hs"][i]
        if h is None or not m["live"]:
            continue
        view = R.T._from_buffer(buf, objs[o][0])
        problems = []
        try:
            if R.offsets(h) != R.offsets(view):
                problems.append(f"cached offsets {R.offsets(h)} vs view {R.offsets(view)}")
        except Exception as ex:     # noqa
            problems.append(f"offset cache unreadable: {type(ex).__name__}")
        try:
            got = R.read(h)
            if got != objs[o][1]:
                problems.append(f"reads {got}, object holds {objs[o][1]}")
        except Exception as ex:     # noqa
            problems.append(f"read raised {type(ex).__name__}")
        if not problems and m["coherent"]:
            # a write through the handle is seen through a view, and nothing else changes
            try:
                R.write_last(h, -7.5)
                objs[o][1][2][0] = -7.5
                for k, (off, val) in enumerate(objs):
                    seen = R.read(R.T._from_buffer(buf, off))
                    if seen != val:
                        problems.append(f"after a write through the handle object {k + 1} reads {seen} through a view, expected {val}")
            except Exception as ex:     # noqa
                problems.append(f"write raised {type(ex).__name__}")
        if problems and m["coherent"]:
            out.append((f"handles:{kind}:{m['kind']}-handle-differs-from-view", f"[{kind}] history {prog}: handle {i + 1} ({m['kind']}): " + "; ".join(problems)))
        elif problems and m["stale"]:
            out.append((KNOWN_KEY, f"[{kind}] history {prog}: handle {i + 1} ({m['kind']}): " + "; ".join(problems)))
        elif problems:
            out.append((f"handles:{kind}:model-incoherent-unmarked", f"[{kind}] history {prog}: handle {i + 1}: " + "; ".join(problems)))
        elif not m["coherent"]:
            out.append(("drift", ""))
    return out


def model_level(run, only=None):
    """only(key, model) -> bool: which findings the calling property claims (None = all)"""
    t = TIERS[run.tier]
    # vacuity: both broken variants must be rejected by the model checker
    for mode, real in (("norefresh", "struct"), ("inplace", "struct"), ("norefresh", "array")):
        res = _tlc("self_" + mode, CFG.format(mode=mode, real=real, export="FALSE", **dict(t, L=4)))
        if not any("CoherentUnlessStale" in v for v in res["violated"]):
            raise C.MachineryError(f"self test: XoHandle with Mode={mode} Real={real} should violate CoherentUnlessStale\n" + res["out"][-1500:])
    xo = C.use_repo()
    ctx = xo.ContextCpu()
    n = drift = nm = states = 0
    for kind in ("struct", "array"):
        res = _tlc("fixed_" + kind, CFG.format(mode="fixed", real=kind, export="TRUE", **t), workers=1)
        if not res["ok"]:
            raise C.MachineryError(f"XoHandle (as implemented on the fixed tree, {kind}) violates its invariants:\n" + res["out"][-2500:])
        run.add_tlc(res)
        states += res["distinct"]
        lines = [ln for ln in res["out"].splitlines() if ln.startswith('"{')]
        nm += len(lines)
        if len(lines) > SAMPLE[run.tier]:
            import random
            lines = random.Random(f"{run.seed}:handles:{kind}").sample(lines, SAMPLE[run.tier])
        for ln in lines:
            m = json.loads(json.loads(ln))
            n += 1
            try:
                fs = replay(xo, ctx, kind, m)
            except Exception as ex:     # noqa: an operation of the history that the library refuses or crashes on
                fs = [(f"handles:{kind}:operation-raised:{type(ex).__name__}", f"[{kind}] history {m['hist']}: {type(ex).__name__}: {str(ex)[:200]}")]
            for key, desc in fs:
                if key == "drift":
                    drift += 1
                    continue
                if only is not None and not only(key, m):
                    continue
                run.report(key, desc, dict(engine="handles", kind=kind, model=m))
    res = dict(distinct=states)
    models = range(nm)
    run.notes["handle_model_replayed"] = n
    run.notes["handle_model"] = dict(states=res["distinct"], histories=len(models), replays=n, bounds=t,
                                     self_tests_rejected=["norefresh", "inplace"], model_pessimistic=drift)
    run.cov["traces_validated_against_impl"] += n


def replay_one(run, rp):
    xo = C.use_repo()
    for key, desc in replay(xo, xo.ContextCpu(), rp["kind"], rp["model"]):
        if key != "drift":
            run.report(key, desc, rp)
