"""Engine for C17: kernel calls deliver every argument and the return value faithfully.

model level : TLC checks the contract XoKernelCall.tla (decision table (declared parameter, actual value) -> delivered
              location / value / refusal, over all histories of Allocate / Grow within the bounds): every delivered
              location is in the CURRENT storage generation at the object's offset (first byte / first element),
              malformed calls are refused, calls change nothing.  A deliberately wrong variant of the table (location
              resolved when the object was created) must be rejected by TLC (vacuity self-test).
spec -> code: TLC exports every reachable history with EVERY call case of its final state and the outcome the contract
              prescribes (XoKernelCallGen).  Worker processes rebuild each history on the real library (real buffers,
              real objects at the model's offsets, real grow()) and perform every call on ONE compiled probe module per
              context (serial and OpenMP) built through the real ctx.add_kernels.  Probe kernels return the raw address
              they received; the harness projects it to (buffer, generation, offset) with the base addresses of all
              storages that ever existed (kept alive) and compares with TLC's location.  Scalars are compared
              bit-exactly at the type extremes (Aux: TLC supplies the cases, the harness the bit patterns).
code -> spec: random deep histories (allocator placement, automatic growth, many objects, slices of every stride) are
              recorded as traces of small integers and validated by TLC against the contract (XoKernelCallTrace).
"""
import collections, ctypes, json, os, random, shutil, struct, subprocess, sys, time
from concurrent.futures import ThreadPoolExecutor
from . import common as C

PROPERTIES = ["C17"]

SC = ["Int8", "UInt8", "Int16", "UInt16", "Int32", "UInt32", "Int64", "UInt64", "Float32", "Float64"]
NUMKINDS = ("sarr", "darr", "d2arr")
REFKINDS = ("struct", "dstruct", "uref")
SIZE = {"struct": 16, "dstruct": 56, "uref": 32, "sarr": 24, "darr": 40, "d2arr": 72}   # = Size(k) of the spec
INITCAP, GROWBY = 64, 64
NPFORMS = ["full", "tail1", "tail2", "step", "rev", "2d", "2dF"]


# ----------------------------------------------------------------------------- scalar payloads (Aux)
def _np():
    import numpy as np
    return np


def scalar_patterns(T):
    """bit patterns (little endian bytes) that stress the declared C type; never python floats through JSON"""
    np = _np()
    dt = np.dtype(T.lower())
    w = dt.itemsize
    if dt.kind == "i":
        vals = [-(1 << (8 * w - 1)), (1 << (8 * w - 1)) - 1, 0, 1, -1, -2, 0x55 - 0x80]
        return [("int", int(v).to_bytes(w, "little", signed=True)) for v in vals]
    if dt.kind == "u":
        vals = [(1 << (8 * w)) - 1, 0, 1, 1 << (8 * w - 1), (1 << (8 * w - 1)) - 1, (1 << (8 * w)) - 2]
        return [("int", int(v).to_bytes(w, "little", signed=False)) for v in vals]
    if w == 8:
        pats = [0x7FEFFFFFFFFFFFFF, 0xFFEFFFFFFFFFFFFF, 0x0010000000000000, 0x0000000000000001, 0x8000000000000001,
                0x000FFFFFFFFFFFFF, 0x7FF0000000000000, 0xFFF0000000000000, 0x8000000000000000, 0x0000000000000000,
                0x7FF8000000001234, 0x3FF0000000000000, 0x400921FB54442D18, 0x3FB999999999999A]
    else:
        pats = [0x7F7FFFFF, 0xFF7FFFFF, 0x00800000, 0x00000001, 0x80000001, 0x007FFFFF, 0x7F800000, 0xFF800000,
                0x80000000, 0x00000000, 0x7FC01234, 0x3F800000, 0x40490FDB, 0x3DCCCCCD]
    return [("float", int(p).to_bytes(w, "little")) for p in pats]


def scalar_value(T, raw, form):
    """the python-side value for the bit pattern `raw` of type T, in one of several equivalent forms"""
    np = _np()
    dt = np.dtype(T.lower())
    v = np.frombuffer(raw, dtype=dt)[0]
    if form == "py":
        return v.item()
    if form == "np":
        return v
    if form == "wide":               # another numpy type that represents the value exactly
        if dt.kind == "f":
            return np.float64(v)
        if dt.kind == "i":
            return np.int64(v)
        return np.uint64(v)
    if form == "pyfloat":            # an integer value given as a python float (only where exact)
        return float(int(v))
    raise KeyError(form)


def scalar_forms(T, raw):
    np = _np()
    dt = np.dtype(T.lower())
    forms = ["py", "np", "wide"]
    if dt.kind in "iu" and abs(int(np.frombuffer(raw, dtype=dt)[0])) <= (1 << 31):
        forms.append("pyfloat")
    return forms


# ----------------------------------------------------------------------------- the probe module
_CLS = None


def classes():
    """the xobjects classes of the probe module (created once per process)"""
    global _CLS
    if _CLS is None:
        xo = C.use_repo()

        class KcS(xo.Struct):
            a = xo.Int64
            b = xo.Float64

        class KcD(xo.Struct):
            a = xo.Int64
            v = xo.Float64[:]

        class KcU(xo.UnionRef):
            _reftypes = [KcS, KcD]

        cls = {"struct": KcS, "dstruct": KcD, "uref": KcU}
        for T in SC:
            at = getattr(xo, T)
            cls["sarr_" + T] = at[3]
            cls["darr_" + T] = at[:]
            cls["d2arr_" + T] = at[:, :]
        _CLS = cls
    return _CLS


def cls_key(kind, et):
    return kind if kind in REFKINDS else kind + "_" + et


class Probe:
    """ONE compiled module per context, built through the real ctx.add_kernels"""

    def __init__(self, omp, workdir):
        xo = C.use_repo()
        np = _np()
        self.xo, self.omp = xo, omp
        self.ctx = xo.ContextCpu(omp_num_threads=omp)
        self.cls = classes()
        src = ["#include <string.h>\n#include <stdint.h>\n"
               "static int64_t kc_ncalls = 0; static uint8_t kc_out[256]; static int64_t kc_addr[4];\n"
               "int64_t kc_count(void){return kc_ncalls;}\n"
               "int64_t kc_outp(void){return (int64_t)(uintptr_t)kc_out;}\n"
               "int64_t kc_addrp(void){return (int64_t)(uintptr_t)kc_addr;}\n"
               "#define CL(n) ((n)<0||(n)>64?0:(n))\n"]
        A, K = xo.Arg, xo.Kernel
        ks = {"kc_count": K(args=[], ret=A(xo.Int64)), "kc_outp": K(args=[], ret=A(xo.Int64)),
              "kc_addrp": K(args=[], ret=A(xo.Int64))}
        for T in SC:
            at = getattr(xo, T)
            c = at._c_type
            src.append(f"{c} sv_{T}({c} v){{ kc_ncalls++; memcpy(kc_out, &v, sizeof(v)); return v; }}\n")
            ks[f"sv_{T}"] = K(args=[A(at, name="v")], ret=A(at))
            src.append(f"int64_t pp_{T}({c}* p, int64_t n){{ kc_ncalls++; memcpy(kc_out, p, CL(n)); return (int64_t)(uintptr_t)p; }}\n")
            ks[f"pp_{T}"] = K(args=[A(at, pointer=True, name="p"), A(xo.Int64, name="n")], ret=A(xo.Int64))
        for n, cl in self.cls.items():
            src.append(f"int64_t xa_{n}({cl._c_type} obj, int64_t n){{ kc_ncalls++; memcpy(kc_out, (char*)obj, CL(n)); "
                       f"return (int64_t)(uintptr_t)obj; }}\n")
            ks[f"xa_{n}"] = K(args=[A(cl, name="obj"), A(xo.Int64, name="n")], ret=A(xo.Int64))
        pk = {k: (self.cls[k], False) for k in REFKINDS}
        for T in SC:
            pk["ptr_" + T] = (getattr(xo, T), True)
        for x, (tx, px) in pk.items():
            for y, (ty, py) in pk.items():
                cx, cy = tx._c_type + ("*" if px else ""), ty._c_type + ("*" if py else "")
                src.append(f"int64_t pair_{x}_{y}({cx} x, {cy} y, int64_t nx, int64_t ny){{ kc_ncalls++; "
                           f"memcpy(kc_out, (char*)x, CL(nx)); memcpy(kc_out+64, (char*)y, CL(ny)); "
                           f"kc_addr[0]=(int64_t)(uintptr_t)x; kc_addr[1]=(int64_t)(uintptr_t)y; return kc_addr[0]; }}\n")
                ks[f"pair_{x}_{y}"] = K(args=[A(tx, pointer=px, name="x"), A(ty, pointer=py, name="y"),
                                              A(xo.Int64, name="nx"), A(xo.Int64, name="ny")], ret=A(xo.Int64))
        # all ten scalar types in one signature; every value is written at its own 8-byte slot
        margs = ", ".join(f"{getattr(xo, T)._c_type} a{i}" for i, T in enumerate(SC))
        mbody = " ".join(f"memcpy(kc_out+{8 * i}, &a{i}, sizeof(a{i}));" for i in range(len(SC)))
        src.append(f"int64_t mix({margs}){{ kc_ncalls++; memset(kc_out, 0, 80); {mbody} return kc_ncalls; }}\n")
        ks["mix"] = K(args=[A(getattr(xo, T), name=f"a{i}") for i, T in enumerate(SC)], ret=A(xo.Int64))
        # generated accessors of the reference kinds (used only after the address has been validated)
        for k in REFKINDS:
            ks.update(self.cls[k]._gen_kernels())
        cwd = os.getcwd()
        os.chdir(workdir)
        t0 = time.time()
        try:
            self.ctx._compile_kernels_info = False
            self.ctx.add_kernels(sources=["".join(src)], kernels=ks, extra_compile_args=("-O0", "-Wno-unused-function"))
        finally:
            os.chdir(cwd)
        self.compile_s = time.time() - t0
        self.K = self.ctx.kernels
        self.nkernels = len(ks)
        self.out = np.ctypeslib.as_array((ctypes.c_uint8 * 256).from_address(int(self.K.kc_outp())))
        self.addr = np.ctypeslib.as_array((ctypes.c_int64 * 4).from_address(int(self.K.kc_addrp())))
        if self.omp and not self.ctx.openmp_enabled:
            raise C.MachineryError("OpenMP context reports openmp disabled")

    def count(self):
        return int(self.K.kc_count())


# ----------------------------------------------------------------------------- the world: real buffers, objects, storages
class World:
    """real buffers and objects of one history; remembers every native storage that ever existed"""

    def __init__(self, probe, caps=None):
        self.p = probe
        self.bufs, self.gen, self.cur = {}, {}, {}
        self.store = []         # (b, g, base, cap, keepalive) of every storage, oldest first
        self.objs = []          # dict(obj, kind, et, b, off, vals, tok)
        self.nps = {}           # registry id -> (base address, nbytes, keepalive)
        self.ntok = 0
        for b, c in (caps or {}).items():
            self.buffer(b, c)

    @staticmethod
    def base_of(storage):
        return int(storage.__array_interface__["data"][0])

    def buffer(self, b, capacity=INITCAP):
        if b not in self.bufs:
            buf = self.p.ctx.new_buffer(capacity=capacity)
            self.bufs[b], self.gen[b] = buf, 0
            self._register(b)
        return self.bufs[b]

    def _register(self, b):
        st = self.bufs[b].buffer
        self.cur[b] = st
        self.store.append((b, self.gen[b], self.base_of(st), int(self.bufs[b].capacity), st))

    def moved(self, b):
        return self.bufs[b].buffer is not self.cur[b]

    def new_generation(self, b):
        self.gen[b] += 1
        self._register(b)

    def grow(self, b, n):
        self.buffer(b).grow(n)
        self.new_generation(b)

    def values(self, et, n, tok):
        np = _np()
        dt = np.dtype(et.lower())
        if dt.kind == "f":
            return np.array([tok + 0.25 * (i + 1) for i in range(n)], dtype=dt)
        return np.array([(tok * 7 + i * 3 + 1) % 120 for i in range(n)], dtype=dt)

    def create(self, b, kind, et, off=None, length=3):
        """create an object; off=None -> the allocator places it (and may grow the buffer)"""
        np = _np()
        buf = self.buffer(b)
        self.ntok += 1
        tok = self.ntok
        kw = dict(_buffer=buf)
        cls = self.p.cls[cls_key(kind, et)]
        vals = None
        if kind == "struct":
            o = cls(a=tok, b=tok + 0.5, **({"_offset": off} if off is not None else {}), **kw)
        elif kind == "dstruct":
            o = cls(a=tok, v=[tok + 0.5, tok + 1.5, tok + 2.5], **({"_offset": off} if off is not None else {}), **kw)
        elif kind == "uref":
            if off is not None:     # the referent lives in the second half of the reserved cell
                t = self.p.cls["struct"](a=tok, b=tok + 0.5, _buffer=buf, _offset=off + 16)
                o = cls(t, _buffer=buf, _offset=off)
            else:
                cands = [x for x in self.objs if x["b"] == b and x["kind"] in ("struct", "dstruct")]
                o = cls(cands[-1]["obj"] if cands else None, _buffer=buf)
        else:
            if kind == "d2arr":
                vals = self.values(et, 2 * length, tok)
                init = vals.reshape(2, length)
            elif kind == "sarr":
                vals = self.values(et, 3, tok)
                init = vals
            else:
                vals = self.values(et, length, tok)
                init = vals
            o = cls(init, **({"_offset": off} if off is not None else {}), **kw)
        rec = dict(obj=o, kind=kind, et=et, b=b, off=int(o._offset), size=int(o._size), vals=vals, tok=tok)
        self.objs.append(rec)
        return rec

    def np_arg(self, et, form, tok=1, spec=None, nid=None):
        """a NumPy argument; returns (array, registry id, byte offset of its first element in the base array, first value)"""
        np = _np()
        dt = np.dtype(et.lower())
        if form in ("2d", "2dF"):
            vals = self.values(et, 12, tok)
            base = vals.reshape(3, 4).copy() if form == "2d" else np.asfortranarray(vals.reshape(4, 3).T)
            arr = base[1:, 2:]
            first = 6 if form == "2d" else 7
            mem = base.ravel(order="K")
        elif form == "custom":              # random walks: (ndim, order, start indices, steps)
            nd, order, n0, n1, s0, s1, st0, st1 = spec
            if nd == 1:
                vals = self.values(et, n0, tok)
                base = vals.copy()
                arr = base[s0::st0]
                first = s0
            else:
                vals = self.values(et, n0 * n1, tok)
                base = vals.reshape(n0, n1).copy() if order == "C" else np.asfortranarray(vals.reshape(n1, n0).T)
                arr = base[s0::st0, s1::st1]
                first = s0 * n1 + s1 if order == "C" else s1 * n0 + s0
            mem = base.ravel(order="K")
        else:
            vals = self.values(et, 6, tok)
            base = vals.copy()
            arr = {"full": base, "tail1": base[1:], "tail2": base[2:], "step": base[1::2], "rev": base[::-1]}[form]
            first = {"full": 0, "tail1": 1, "tail2": 2, "step": 1, "rev": 5}[form]
            mem = base
        nid = nid or len(self.nps) + 1
        self.nps[nid] = (int(base.__array_interface__["data"][0]), base.nbytes, base)
        return arr, nid, first * dt.itemsize, mem[first:first + 1].tobytes()

    def locate(self, addr):
        """raw address -> [space, buffer, generation, byte offset]; current storages first, then every older one"""
        for b, buf in self.bufs.items():
            base = self.base_of(buf.buffer)
            if base <= addr < base + int(buf.capacity):
                g = self.gen[b] if buf.buffer is self.cur[b] else self.gen[b] + 1000   # storage replaced behind our back
                return ["buf", b, g, addr - base]
        for b, g, base, cap, _ in reversed(self.store):
            if base <= addr < base + cap:
                return ["buf", b, g, addr - base]
        for i, (base, nb, _) in self.nps.items():
            if base <= addr < base + nb:
                return ["np", i, 0, addr - base]
        return ["?", 0, 0, 0]

    def room(self, addr):
        """bytes that can be read at addr without leaving a storage we keep alive (0 = unknown address)"""
        for b, g, base, cap, _ in reversed(self.store):
            if base <= addr < base + cap:
                return base + cap - addr
        for base, nb, _ in self.nps.values():
            if base <= addr < base + nb:
                return base + nb - addr
        return 0

    def snapshot(self):
        return [(b, id(buf.buffer), int(buf.capacity), bytes(buf.buffer)) for b, buf in sorted(self.bufs.items())]


# ----------------------------------------------------------------------------- performing one call case
class Caller:
    def __init__(self, probe, counter=0):
        self.p = probe
        self.n = counter           # rotates scalar payloads, argument order, malformed-call variants
        self.stats = collections.Counter()

    def build(self, w, case, tmap):
        """kernel name, keyword arguments (in declaration order), per-position bookkeeping"""
        shape, ps, as_ = case[0], case[1], case[2]
        R = lambda t: (tmap or {}).get(t, t)
        pos = []
        if all(p[0] == "sc" for p in ps):
            kw = {}
            for j, (p, a) in enumerate(zip(ps, as_)):
                T = R(p[2])
                pats = scalar_patterns(T)
                kind, raw = pats[(self.n + j) % len(pats)]
                forms = scalar_forms(T, raw)
                form = forms[(self.n // len(pats) + j) % len(forms)]
                kw["v" if len(ps) == 1 else f"a{j}"] = scalar_value(T, raw, form)
                pos.append(dict(d="sc", T=T, raw=raw, form=form, desc=f"sc/{T}"))
            name = f"sv_{R(ps[0][2])}" if len(ps) == 1 else "mix"
            if len(ps) > 1 and [R(p[2]) for p in ps] != SC:
                raise C.MachineryError("mix case does not list the ten scalar types in order")
            return name, kw, pos
        names = ["p" if ps[0][0] == "ptr" else "obj"] if len(ps) == 1 else ["x", "y"]
        kw, parts = {}, []
        if tmap is not None and any(a[0] == "np" and a[3] for a in as_):
            w.nps.clear()              # generator mode: the model numbers the NumPy arrays of ONE call from 1
        for j, (p, a) in enumerate(zip(ps, as_)):
            T = R(p[2])
            if a[0] == "np":
                arr, nid, first, fbytes = w.np_arg(R(a[1]), a[2], tok=self.n % 50 + 1 + j, spec=a[5] if len(a) > 5 else None,
                                                   nid=(a[3] or None) if tmap is not None else None)
                kw[names[j]] = arr
                nb = len(fbytes)
                pos.append(dict(d=p[0], npid=nid, first=first, expect=fbytes, nbytes=nb, desc=f"ptr/np-{a[2]}"))
            else:
                rec = w.objs[a[3] - 1]
                kw[names[j]] = rec["obj"]
                if p[0] == "ptr":
                    fb = rec["vals"][:1].tobytes()
                    pos.append(dict(d="ptr", rec=rec, expect=fb, nbytes=len(fb), desc=f"ptr/{rec['kind']}"))
                else:
                    pos.append(dict(d="xo", rec=rec, expect=None, nbytes=8, desc=f"xo/{rec['kind']}"))
            parts.append(("ptr_" + T) if p[0] == "ptr" else (p[1] if p[1] in REFKINDS else None))
        if len(ps) == 1:
            name = f"pp_{R(ps[0][2])}" if ps[0][0] == "ptr" else "xa_" + cls_key(ps[0][1], R(ps[0][2]))
            kw["n"] = 0
        else:
            if None in parts:
                raise C.MachineryError("no pair probe for an array-class parameter")
            name = f"pair_{parts[0]}_{parts[1]}"
            kw["nx"], kw["ny"] = 0, 0
        return name, kw, pos

    def malform(self, shape, name, kw):
        """the call in one of the malformed shapes (variants rotate with the counter)"""
        keys = list(kw)
        var = self.n % 2
        if shape == "positional":
            if var == 0 or len(keys) == 1:
                return (tuple(kw[k] for k in keys), {})
            return ((kw[keys[0]],), {k: kw[k] for k in keys[1:]})
        if shape == "missing":
            drop = keys[0] if var == 0 else keys[-1]
            return ((), {k: v for k, v in kw.items() if k != drop})
        if shape == "extra":
            extra = "bogus" if var == 0 else keys[0] + "_"
            return ((), dict(kw, **{extra: kw[keys[0]]}))
        if shape == "unknown":
            ren = keys[0] if var == 0 else keys[-1]
            return ((), {(k + "_" if k == ren else k): v for k, v in kw.items()})
        raise KeyError(shape)

    def perform(self, w, case, tmap, _diag=False):
        """returns the observation: dict(status, exc, del, exact, ret, bytes, unchanged, called, pos)"""
        np = _np()
        if not _diag:
            self.n += 1
        shape = case[0]
        name, kw, pos = self.build(w, case, tmap)
        kern = getattr(self.p.K, name)
        before, c0 = w.snapshot(), self.p.count()
        npb = [bytes(np.ascontiguousarray(v)) if isinstance(v, np.ndarray) else None for v in kw.values()]
        if shape == "kw":
            args, kwargs = (), ({k: kw[k] for k in reversed(list(kw))} if self.n % 2 else kw)
        else:
            args, kwargs = self.malform(shape, name, kw)
        obs = dict(status="ok", exc="", exact=1, ret=1, bytes=1, unchanged=1, called=0, pos=pos, kernel=name)
        obs["del"] = []
        try:
            self.p.out[:] = 0xEE
            r = kern(*args, **kwargs)
        except Exception as ex:          # noqa: any exception is a refusal
            obs["status"], obs["exc"] = "refused", type(ex).__name__
        obs["called"] = int(self.p.count() != c0)
        after = w.snapshot()
        npa = [bytes(np.ascontiguousarray(v)) if isinstance(v, np.ndarray) else None for v in kw.values()]
        obs["unchanged"] = int(before == after and npb == npa)
        if obs["status"] != "ok":
            if shape == "kw" and len(pos) == 2 and not _diag:
                # which position is refused on its own?  (classification of the failure, not part of the verdict)
                alone = [self.perform(w, ["kw", [case[1][j]], [case[2][j]]], tmap, _diag=True)["status"] != "ok" for j in (0, 1)]
                obs["culprit"] = [pos[j]["desc"] for j in (0, 1) if alone[j]]
            return obs
        if pos[0]["d"] == "sc":
            for j, q in enumerate(pos):
                got = bytes(self.p.out[8 * j: 8 * j + len(q["raw"])]) if len(pos) > 1 else bytes(self.p.out[:len(q["raw"])])
                if not same_scalar(q["T"], q["raw"], got):
                    obs["exact"] = 0
                    obs["bad"] = dict(T=q["T"], sent=q["raw"].hex(), form=q["form"], got=got.hex())
                obs["del"].append(["-", 0, 0, 0])
            if len(pos) == 1:
                q = pos[0]
                try:
                    rb = np.array([r], dtype=np.dtype(q["T"].lower())).tobytes()
                except Exception:        # noqa
                    rb = b""
                if not same_scalar(q["T"], q["raw"], rb):
                    obs["ret"] = 0
                    obs["bad"] = dict(T=q["T"], sent=q["raw"].hex(), form=q["form"], returned=repr(r))
            return obs
        addrs = [int(r)] if len(pos) == 1 else [int(self.p.addr[0]), int(self.p.addr[1])]
        if len(pos) == 2 and int(r) != addrs[0]:
            obs["ret"] = 0
        obs["del"] = [w.locate(a) for a in addrs]
        obs["addrs"] = addrs
        # second phase: let the kernel READ through the pointers, only where that is known to be safe
        if all(w.room(a) >= q["nbytes"] for a, q in zip(addrs, pos)):
            nk = ["n"] if len(pos) == 1 else ["nx", "ny"]
            kw2 = dict(kw)
            for k, q in zip(nk, pos):
                kw2[k] = q["nbytes"]
            try:
                r2 = kern(**kw2)
                if int(r2) != int(r):
                    obs["ret"] = 0
                for j, (a, q) in enumerate(zip(addrs, pos)):
                    got = bytes(self.p.out[64 * j: 64 * j + q["nbytes"]])
                    if q["expect"] is not None:
                        want = q["expect"]
                    else:                   # what python sees at the object's first bytes
                        rec = q["rec"]
                        want = bytes(rec["obj"]._buffer.to_bytearray(rec["obj"]._offset, q["nbytes"]))
                    if got != want:
                        obs["bytes"] = 0
                        obs["bad"] = dict(pos=j, got=got.hex(), want=want.hex())
            except Exception as ex:       # noqa: the same call was served a moment ago
                obs["bytes"] = 0
                obs["bad"] = dict(second_call_raised=type(ex).__name__)
            self.stats["read_back"] += 1
        return obs

    def accessor_checks(self, w):
        """generated accessors on validated objects: value written from python == value the C API reads (return path)"""
        bad = []
        for rec in w.objs:
            if rec["kind"] in ("struct", "dstruct"):
                nm = ("KcS" if rec["kind"] == "struct" else "KcD") + "_get_a"
                try:
                    if int(getattr(self.p.K, nm)(obj=rec["obj"])) != rec["tok"]:
                        bad.append(nm)
                except Exception as ex:   # noqa
                    bad.append(nm + ":" + type(ex).__name__)
                self.stats["accessor_calls"] += 1
        return bad


def same_scalar(T, sent, got):
    """bit-exact, except that a NaN only has to come back as a NaN (payload bits are not a 'value')"""
    np = _np()
    if sent == got:
        return True
    dt = np.dtype(T.lower())
    if dt.kind == "f" and len(got) == len(sent):
        a, b = np.frombuffer(sent, dtype=dt)[0], np.frombuffer(got, dtype=dt)[0]
        return bool(np.isnan(a) and np.isnan(b))
    return False


# ----------------------------------------------------------------------------- verdict of one call (mirrors XoKernelCallTrace!CallClause)
def classify(case, exp_status, exp_why, exp_del, obs, w=None):
    """None, or (key, detail).  exp_del in BYTES."""
    pos = obs["pos"]
    d0 = "+".join(q["desc"] for q in pos)
    if exp_status == "refused":
        if obs["status"] == "ok":
            return f"call:accepted-must-refuse:{exp_why}:{d0}", "the call was served"
        if obs["called"]:
            return f"call:refused-but-kernel-ran:{exp_why}:{d0}", f"raised {obs['exc']} after the kernel had run"
        if not obs["unchanged"]:
            return f"call:refused-but-state-changed:{exp_why}:{d0}", f"raised {obs['exc']} but buffers/arguments changed"
        return None
    if obs["status"] != "ok":
        who = obs["culprit"][0] if obs.get("culprit") else d0     # pair calls: the position that is refused on its own
        return f"call:refused-must-deliver:{who}", f"raised {obs['exc']}" + (f" (refused on their own: {obs['culprit']})" if obs.get("culprit") else "")
    for j, (x, o) in enumerate(zip(exp_del, obs["del"])):
        if x[0] == "-":
            continue
        q = pos[j]
        if o[0] != x[0] or o[1] != x[1]:
            cl = "address-nowhere" if o[0] == "?" else "wrong-buffer"
        elif o[2] != x[2]:
            cl = "stale-generation"
        elif o[3] != x[3]:
            rec = q.get("rec")
            cl = "first-byte-not-first-element" if (q["d"] == "ptr" and rec is not None and o[3] == rec["off"] and x[3] != rec["off"]) \
                else "wrong-offset"
        else:
            continue
        return f"call:{cl}:{q['desc']}", f"argument {j}: expected {x} received {o}"
    if not obs["exact"]:
        return f"call:scalar-not-exact:{obs['bad']['T']}", json.dumps(obs["bad"])
    if not obs["ret"]:
        return f"call:return-changed:{d0}", json.dumps(obs.get("bad", {}))
    if not obs["bytes"]:
        return f"call:bytes-differ:{d0}", json.dumps(obs.get("bad", {}))
    return None


# ----------------------------------------------------------------------------- spec -> code: replay of TLC-exported states
PAIRS = [(a, b) for a in SC for b in SC if a != b]


def judge(probe, caller, w, rec, sidx, case, tmap, res, where):
    """perform one TLC-exported call case in the world w and compare with the outcome TLC prescribes"""
    shape, ps, as_, st, why, dl = case
    isz = lambda j: _np().dtype(tmap.get(ps[j][2], ps[j][2]).lower()).itemsize
    exp_del = [[x[0], x[1], x[2], x[3] * (isz(j) if x[0] == "np" else 1)] for j, x in enumerate(dl)]
    if rec.get("_ncase") is not None and where.startswith("(final"):
        caller.n = rec["_ncase"]            # --replay: the same payloads / argument order / malformed variant as in the run
    ncase = caller.n
    obs = caller.perform(w, case, tmap)
    res["calls"] += 1
    if st == "ok" and any(x[0] == "buf" and x[2] > 0 for x in dl):
        res["served_after_growth"] += 1
    res["by_class"][f"{shape}:{st}:{'+'.join(q['desc'] for q in obs['pos'])}"] += 1
    v = classify(case, st, why, exp_del, obs, w)
    if v:
        key, detail = v
        ent = res["viol"].setdefault(key, dict(count=0))
        ent["count"] += 1
        if "desc" not in ent:
            ent["desc"] = (f"ctx={'omp' if probe.omp else 'serial'} history={rec['hist']} {where} types={tmap} kernel={obs['kernel']} "
                           f"case={case[:3]} contract={st}{'/' + why if why else ''}{exp_del} observed={obs['status']}"
                           f"{'/' + obs['exc'] if obs['exc'] else ''}{obs['del']} :: {detail}")
            ent["replay"] = dict(mode="gen", omp=probe.omp, sidx=sidx, warm=rec.get("_warm"),
                                 state=dict(icap=rec.get("icap", INITCAP), growby=rec.get("growby", GROWBY), hist=rec["hist"], cases=[case],
                                            _warm=rec.get("_warm"), _n0=rec.get("_n0run"), _ncase=ncase if where.startswith("(final") else None))
    elif len(res["samples"]) < 1 and st == "ok" and any(x[0] == "buf" and x[2] > 0 for x in dl) and len(ps) == 2:
        res["samples"].append(dict(history=rec["hist"], types=tmap, kernel=obs["kernel"], delivered=obs["del"], contract=exp_del))


def replay_state(probe, caller, rec, sidx, res, index=None):
    """rebuild the history of one exported state on the real library and perform every call case of its final state.

    Every history is replayed twice: COLD (calls only in the final state: the first call an object / buffer / kernel sees
    comes after all growth) and WARM (before every history step, the calls TLC exported for THAT prefix state which are
    served and involve objects are performed and judged too, so that calls, allocations and growth interleave)."""
    abstract = any(h[3] in ("A", "B") for h in rec["hist"]) or any(p[2] in ("A", "B") for c in rec["cases"] for p in c[1])
    tmap = dict(zip("AB", PAIRS[sidx % len(PAIRS)])) if abstract else {}
    icap, growby = rec.get("icap", INITCAP), rec.get("growby", GROWBY)
    cases = sorted(rec["cases"], key=lambda c: json.dumps(c))
    modes = [False, True] if (index is not None and len(rec["hist"]) >= 2) else [bool(rec.get("_warm"))]
    for warm in modes:
        rec["_warm"] = rec.get("_warm") if index is None else ([] if warm else None)
        if index is None and rec.get("_n0") is not None:
            caller.n = rec["_n0"]
        rec["_n0run"] = caller.n
        w = World(probe)
        try:
            for i, (op, b, k, et, off) in enumerate(rec["hist"]):
                if warm and i > 0:
                    pre = index.get(json.dumps(rec["hist"][:i])) if index is not None else rec["_warm"][i]
                    if index is not None:
                        rec["_warm"].append(pre)
                    for case in pre or []:
                        judge(probe, caller, w, rec, sidx, case, tmap, res, f"(before step {i + 1})")
                        res["interleaved_calls"] += 1
                elif warm and index is not None:
                    rec["_warm"].append([])
                w.buffer(b, icap)
                if op == "alloc":
                    r = w.create(b, k, tmap.get(et, et), off=off, length=2 if k == "d2arr" else 3)
                    if r["off"] != off or r["size"] > SIZE[k]:
                        raise C.MachineryError(f"object of kind {k} placed at {r['off']} size {r['size']} (model: {off}, {SIZE[k]})")
                else:
                    w.grow(b, growby)
                res["steps"] += 1
        except C.MachineryError:
            raise
        except Exception as ex:     # noqa: constructing objects / growing is other properties' business
            res["abandoned_precondition"][f"history:{type(ex).__name__}"] += 1
            continue
        for b in w.bufs:
            if w.moved(b):
                raise C.MachineryError("storage replaced outside grow()")
        res["histories"] += 1
        for case in cases:
            judge(probe, caller, w, rec, sidx, case, tmap, res, "(final state, warm)" if warm else "(final state)")
        if not res["viol"]:
            for nm in caller.accessor_checks(w):
                res["other_property"][f"accessor:{nm}"] += 1


def load_index(path):
    """history -> the served call cases with object arguments of the state it leads to (for the interleaved replay)"""
    index = {}
    for line in open(path):
        if line.startswith('"{'):
            rec = json.loads(json.loads(line))
            index[json.dumps(rec["hist"])] = sorted((c for c in rec["cases"] if c[0] == "kw" and c[3] == "ok" and any(a[0] == "obj" for a in c[2])),
                                                    key=lambda c: json.dumps(c))
    return index


def new_result():
    return dict(viol={}, calls=0, histories=0, steps=0, served_after_growth=0, interleaved_calls=0, by_class=collections.Counter(), samples=[],
                abandoned_precondition=collections.Counter(), other_property=collections.Counter())


# ----------------------------------------------------------------------------- code -> spec: random deep histories
def random_walk(probe, caller, rng, nsteps, widx):
    """a deep random history on the real library; returns the trace (small ints and strings only)"""
    nb = rng.choice([1, 1, 2, 3])
    caps = {b: rng.choice([16, 24, 64, 64, 200, 1000]) for b in range(1, nb + 1)}
    w = World(probe, caps)
    ev, meta = [], []
    tr = dict(caps=[caps[b] for b in range(1, nb + 1)], ev=ev)

    def sync():
        for b in w.bufs:
            if w.moved(b):
                w.new_generation(b)
                ev.append(["grow", b, int(w.bufs[b].capacity)])
                meta.append(None)

    def pick_np(et):
        if rng.random() < 0.6:
            n0 = rng.randint(1, 9)
            s0 = rng.randrange(n0)
            spec = (1, "C", n0, 1, s0, 0, rng.choice([1, 1, 2, 3, -1, -2]), 1)
        else:
            n0, n1 = rng.randint(1, 4), rng.randint(1, 5)
            spec = (2, rng.choice("CF"), n0, n1, rng.randrange(n0), rng.randrange(n1), rng.choice([1, 2, -1]), rng.choice([1, 2, -1]))
        return ["np", et, "custom", 0, 0, list(spec)]

    def entry():
        """(param, arg) for one position"""
        nums = [i for i, o in enumerate(w.objs) if o["kind"] in NUMKINDS]
        refs = [i for i, o in enumerate(w.objs) if o["kind"] in REFKINDS]
        x = rng.random()
        if x < 0.35 and refs:
            i = rng.choice(refs)
            return ["xo", w.objs[i]["kind"], "-"], ["obj", "-", w.objs[i]["kind"], i + 1, 0]
        if x < 0.75 and nums:
            i = rng.choice(nums)
            o = w.objs[i]
            t = o["et"] if rng.random() < 0.75 else rng.choice(SC)
            return ["ptr", "-", t], ["obj", o["et"], o["kind"], i + 1, 0]
        t = rng.choice(SC)
        u = t if rng.random() < 0.75 else rng.choice(SC)
        return ["ptr", "-", t], pick_np(u)

    for _ in range(nsteps):
        x = rng.random()
        try:
            if x < 0.33 or not w.objs:
                b = rng.randint(1, nb)
                kind = rng.choice(["struct", "dstruct", "uref", "sarr", "darr", "darr", "d2arr"])
                et = rng.choice(SC) if kind in NUMKINDS else "-"
                if rng.random() < 0.35:
                    # CPU buffers hand out storage byte by byte (alignment 1): after a small raw allocation the next object - and the data of
                    # an array in it - starts at an address that is not a multiple of its item size
                    w.buffer(b).allocate(rng.choice([1, 2, 3, 5, 12]))
                r = w.create(b, kind, et, length=rng.randint(1, 6))
                sync()                        # growth caused by the allocation comes BEFORE the object exists in the model
                ev.append(["alloc", b, kind, et, r["off"], r["size"]])
                meta.append(None)
            elif x < 0.43:
                b = rng.randint(1, nb)
                w.bufs[b].grow(rng.choice([1, 8, 64, 500]))
                sync()
            else:
                y = rng.random()
                if y < 0.12:
                    t = rng.choice(SC)
                    ps, as_ = [["sc", "-", t]], [["scalar", t, "-", 0, 0]]
                elif y < 0.17:
                    ps, as_ = [["sc", "-", t] for t in SC], [["scalar", t, "-", 0, 0] for t in SC]
                elif y < 0.65:
                    p, a = entry()
                    if p[0] == "xo" and a[2] in NUMKINDS:
                        p[2] = a[1]
                    ps, as_ = [p], [a]
                else:
                    (p1, a1), (p2, a2) = entry(), entry()
                    ps, as_ = [p1, p2], [a1, a2]
                # an array object may also be passed as an xobject of its own class (one-parameter probes only)
                if len(ps) == 1 and ps[0][0] == "ptr" and as_[0][0] == "obj" and rng.random() < 0.3:
                    o = w.objs[as_[0][3] - 1]
                    ps = [["xo", o["kind"], o["et"]]]
                shape = "kw" if rng.random() < 0.8 else rng.choice(["positional", "missing", "extra", "unknown"])
                case = [shape, ps, as_]
                obs = caller.perform(w, case, None)
                # np arguments: the trace carries the registry id and the byte offset of the first element
                k = 0
                las = []
                for a, q in zip(as_, obs["pos"]):
                    if a[0] == "np":
                        las.append(["np", a[1], "custom", q["npid"], q["first"]])
                    else:
                        las.append(a[:5])
                ev.append(["call", shape, ps, las, obs["status"], obs["del"], obs["exact"], obs["ret"], obs["bytes"],
                           obs["unchanged"], obs["called"]])
                meta.append(dict(desc="+".join(q["desc"] for q in obs["pos"]), kernel=obs["kernel"], exc=obs["exc"],
                                 bad=obs.get("bad"), case=case, culprit=obs.get("culprit")))
                sync()
        except C.MachineryError:
            raise
        except Exception as ex:   # noqa: object construction / growth failing is not this property's business
            tr["abandoned"] = f"{type(ex).__name__}"
            break
    tr["meta"] = meta
    tr["src"] = f"walk:{'omp' if probe.omp else 'serial'}:{widx}"
    tr["omp"], tr["widx"], tr["steps"] = probe.omp, widx, nsteps
    return tr


# ----------------------------------------------------------------------------- worker process
def worker(jobpath):
    job = json.load(open(jobpath))
    res = new_result()
    res["traces"] = []
    try:
        probe = Probe(job["omp"], job["tmp"])
    except C.MachineryError:
        raise
    except Exception as ex:   # noqa
        res["compile_failed"] = f"{type(ex).__name__}: {str(ex)[:300]}"
        json.dump(res, open(job["out"], "w"), default=str)
        return
    res["compile_s"] = round(probe.compile_s, 1)
    res["nkernels"] = probe.nkernels
    caller = Caller(probe, counter=job["seed"] * 7 + job["shard"])
    t0 = time.time()
    for path in job.get("files", []):
        idx = -1
        index = load_index(path)
        for line in open(path):
            if not line.startswith('"{'):
                continue
            idx += 1
            if idx % job["nshards"] != job["shard"]:
                continue
            rec = json.loads(json.loads(line))
            replay_state(probe, caller, rec, idx + job["seed"], res, index)
    res["t_replay"] = round(time.time() - t0, 1)
    t0 = time.time()
    for widx in job.get("walks", []):
        rng = random.Random(job["seed"] * 100003 + widx * 2 + (1 if job["omp"] else 0))
        res["traces"].append(random_walk(probe, caller, rng, job["walk_steps"], widx))
    res["t_walks"] = round(time.time() - t0, 1)
    for one in job.get("single", []):
        if one["mode"] == "gen":
            replay_state(probe, caller, one["state"], one["sidx"], res)
    res["stats"] = dict(caller.stats)
    json.dump(res, open(job["out"], "w"), default=str)


def run_workers(run, jobs):
    procs = []
    for i, job in enumerate(jobs):
        job["tmp"] = os.path.join(run.tmp, f"w{i}")
        os.makedirs(job["tmp"], exist_ok=True)
        job["out"] = os.path.join(job["tmp"], "result.json")
        jp = os.path.join(job["tmp"], "job.json")
        json.dump(job, open(jp, "w"))
        procs.append((job, subprocess.Popen([sys.executable, "-m", "vlib.kernelcall", "--worker", jp], cwd=C.VERIF,
                                            env=C.child_env(), stdout=subprocess.PIPE, stderr=subprocess.STDOUT, text=True)))
    results = []
    for job, p in procs:
        out, _ = p.communicate(timeout=3000)
        if p.returncode != 0 or not os.path.exists(job["out"]):
            tail = out[-1500:]
            if p.returncode is not None and p.returncode < 0:
                raise C.MachineryError(f"probe worker (omp={job['omp']}) died with signal {-p.returncode}: a kernel dereferenced an "
                                       f"address the harness had validated, or the interpreter crashed\n{tail}")
            raise C.MachineryError(f"probe worker failed rc={p.returncode}\n{tail}")
        results.append((job, json.load(open(job["out"]))))
    return results


# ----------------------------------------------------------------------------- TLC runs
def consts(**kw):
    def lit(v):
        if isinstance(v, bool):
            return "TRUE" if v else "FALSE"
        if isinstance(v, (set, frozenset, list, tuple)):
            return "{" + ", ".join(lit(x) for x in v) + "}"
        if isinstance(v, str):
            return '"' + v + '"'
        return str(v)
    return "CONSTANTS\n" + "\n".join(f"  {k} = {lit(v)}" for k, v in kw.items()) + "\n"


ALLK = ["struct", "dstruct", "uref", "sarr", "darr"]
BASE = dict(Bufs=[1, 2], ObjKinds=ALLK, ObjElems=["A"], ElemTypes=["A", "B"], NpForms=NPFORMS, InitTops=[0, 8],
            InitCap=INITCAP, GrowBy=GROWBY, MaxGen=2, MaxObjs=3, MaxHist=3, WithMix=False, CacheAtCreation=False)
TABLE = dict(Bufs=[1], ObjKinds=list(NUMKINDS), ObjElems=SC, ElemTypes=SC, NpForms=["full", "tail2"], InitTops=[8],
             InitCap=128, GrowBy=GROWBY, MaxGen=1, MaxObjs=1, MaxHist=2, WithMix=True, CacheAtCreation=False)
TIERS = {
    "quick": dict(
        mc=dict(BASE, NpForms=["full", "tail1"]),
        gen=[("hist", dict(BASE)), ("table", dict(TABLE))],
        shards=3, walks=120, walk_steps=60),
    "thorough": dict(
        mc=dict(BASE, NpForms=["full", "tail1"], MaxHist=4),
        gen=[("hist", dict(BASE, MaxHist=4)),
             ("deep", dict(BASE, Bufs=[1, 2], ObjKinds=["struct", "darr"], InitTops=[8], NpForms=["full", "tail1"], MaxGen=3, MaxObjs=3, MaxHist=5)),
             ("table", dict(TABLE, NpForms=NPFORMS, MaxHist=3))],
        shards=7, walks=3000, walk_steps=120),
}
# the invariants that quantify over ALL call cases of a state are checked once per history in the generator runs (GEN_CFG);
# the run with the Call action checks what the last call delivered, and that calls change nothing
MC_CFG = """SPECIFICATION Spec
{c}INVARIANT LastCurrent
INVARIANT Placement
PROPERTY CallChangesNothing
CHECK_DEADLOCK FALSE
"""
GEN_CFG = """SPECIFICATION GSpec
{c}INVARIANT Export
INVARIANT DeliveredCurrent
INVARIANT ElementVsByte
INVARIANT RefusedExactly
INVARIANT Placement
CHECK_DEADLOCK FALSE
"""


def tlc_model_check(run, tier):
    """contract invariants over all histories + the vacuity self-tests"""
    out = {}

    def one(job):
        tag, cfg, workers = job
        wd = C.scratch("kcmc")
        open(os.path.join(wd, tag + ".cfg"), "w").write(cfg)
        res = C.run_tlc("XoKernelCall", tag + ".cfg", workdir=wd, workers=workers, timeout=3000, jvm=("-Xmx4g",))
        shutil.rmtree(wd, ignore_errors=True)
        return tag, res

    small = dict(TIERS[tier]["mc"], MaxHist=3, NpForms=["full"])
    jobs = [("contract", MC_CFG.format(c=consts(**TIERS[tier]["mc"])), max(2, C.NCPU // 3)),
            ("selftest_cached", MC_CFG.format(c=consts(**dict(small, CacheAtCreation=True))), 2),
            ("selftest_stale_reachable", "SPECIFICATION Spec\n" + consts(**small) + "INVARIANT NoStale\nCHECK_DEADLOCK FALSE\n", 2)]
    with ThreadPoolExecutor(max_workers=3) as ex:
        for tag, res in ex.map(one, jobs):
            out[tag] = dict(states=res["distinct"], generated=res["generated"], wall=round(res["wall"], 1),
                            violated=[v[:80] for v in res["violated"]])
            if tag == "contract":
                run.add_tlc(res)
                if not res["ok"]:
                    raise C.MachineryError("the contract specification violates its own invariants:\n" + res["out"][-3000:])
            elif tag == "selftest_cached":
                if not any("DeliveredCurrent" in v or "LastCurrent" in v for v in res["violated"]):
                    raise C.MachineryError("vacuity self-test: TLC accepted a table that resolves locations at creation time:\n" + res["out"][-2000:])
            else:
                if not any("NoStale" in v for v in res["violated"]):
                    raise C.MachineryError("vacuity self-test: no history with an object older than its buffer's storage is reachable")
    run.notes["model_checking"] = out


def tlc_export(run, tier):
    files = []

    def one(g):
        tag, kw = g
        wd = os.path.join(run.tmp, "gen_" + tag)
        os.makedirs(wd, exist_ok=True)
        open(os.path.join(wd, "gen.cfg"), "w").write(GEN_CFG.format(c=consts(**kw)))
        res = C.run_tlc("XoKernelCallGen", "gen.cfg", workdir=wd, workers=1, timeout=3000, jvm=("-Xmx4g",))
        if not res["ok"]:
            raise C.MachineryError(f"XoKernelCallGen ({tag}) failed:\n" + res["out"][-3000:])
        path = os.path.join(wd, "export.txt")
        n = ncases = 0
        with open(path, "w") as f:
            for line in res["out"].splitlines():
                if line.startswith('"{'):
                    f.write(line + "\n")
                    n += 1
        res["out"] = ""
        return tag, path, n, res

    with ThreadPoolExecutor(max_workers=4) as ex:
        for tag, path, n, res in ex.map(one, TIERS[tier]["gen"]):
            run.add_tlc(res)
            run.notes.setdefault("export", {})[tag] = dict(states=n, tlc_wall=round(res["wall"], 1))
            files.append(path)
    return files


def validate_traces(run, traces):
    """TLC validates the recorded real executions against the contract; returns one verdict string per trace"""
    if not traces:
        return []
    nbatch = min(C.NCPU, max(1, len(traces) // 60))
    size = (len(traces) + nbatch - 1) // nbatch
    batches = [traces[i:i + size] for i in range(0, len(traces), size)]
    verdicts = [None] * len(traces)

    def one(bi):
        wd = C.scratch("kctr")
        path = os.path.join(wd, "trace.json")
        json.dump([dict(caps=t["caps"], ev=t["ev"]) for t in batches[bi]], open(path, "w"))
        cfg = "SPECIFICATION TraceSpec\n" + consts(**dict(BASE, Bufs=[1])) + "CHECK_DEADLOCK FALSE\n"
        open(os.path.join(wd, "tr.cfg"), "w").write(cfg)
        res = C.run_tlc("XoKernelCallTrace", "tr.cfg", workdir=wd, workers=1, timeout=3000, env={"TRACE_FILE": path}, jvm=("-Xmx2g",))
        vs = C.tlc_tuples(res["out"], "VERDICT")
        if res["rc"] != 0 or len(vs) != len(batches[bi]):
            raise C.MachineryError(f"trace validation batch {bi}: rc={res['rc']} verdicts={len(vs)}/{len(batches[bi])}\n" + res["out"][-3000:])
        shutil.rmtree(wd, ignore_errors=True)
        return bi, vs, res

    with ThreadPoolExecutor(max_workers=C.NCPU) as ex:
        for bi, vs, res in ex.map(one, range(len(batches))):
            for v in vs:
                verdicts[bi * size + v[1] - 1] = v[2]
            run.cov["states"] += res["distinct"]
            run.cov["transitions"] += res["generated"]
    return verdicts


def report_trace_verdicts(run, traces, verdicts, seed):
    n = collections.Counter()
    for t, v in zip(traces, verdicts):
        n["events"] += len(t["ev"])
        n["calls"] += sum(1 for e in t["ev"] if e[0] == "call")
        n["grow_events"] += sum(1 for e in t["ev"] if e[0] == "grow")
        n["alloc_events"] += sum(1 for e in t["ev"] if e[0] == "alloc")
        if t.get("abandoned"):
            n["abandoned_precondition:" + t["abandoned"]] += 1
        for one in (v.split("|") if v else []):
            pos, j, clause = one.split(":", 2)
            pos, j = int(pos), int(j)
            e, m = t["ev"][pos - 1], t["meta"][pos - 1]
            if clause.startswith("precondition"):
                n["abandoned_" + clause] += 1
                continue
            if clause.startswith("harness"):
                raise C.MachineryError(f"trace {t['src']} event {pos}: {clause}: {e}")
            descs = m["desc"].split("+")
            if clause.split(":")[0] in ("wrong-buffer", "stale-generation", "wrong-offset", "first-byte-not-first-element", "address-nowhere"):
                key = f"call:{clause}:{descs[j - 1]}"
            elif clause == "scalar-not-exact":
                key = f"call:{clause}:{(m.get('bad') or {}).get('T', '?')}"
            elif clause == "refused-must-deliver" and m.get("culprit"):
                key = f"call:{clause}:{m['culprit'][0]}"
            else:
                key = f"call:{clause}:{m['desc']}"
            desc = (f"{t['src']} event {pos}: kernel={m['kernel']} case={m['case']} observed={e[4]}{'/' + m['exc'] if m['exc'] else ''} "
                    f"{e[5]} {m.get('bad') or ''}")
            run.report(key, desc, dict(mode="walk", src=t["src"], seed=seed, omp=t["omp"], widx=t["widx"], steps=t["steps"],
                                       failing_event=pos, recorded_events=t["ev"][:pos]))
    return n


# ----------------------------------------------------------------------------- the check
def check(pid, argv=None):
    run = C.Run(pid, argv)
    tier = run.tier
    T = TIERS[tier]
    run.assumptions += [
        "XoKernelCall.tla transcribes C17 and docs/architecture/contexts.rst (scalar by value; T* takes np.array and xo arrays; Class takes the xobject)",
        "raw addresses are projected with numpy's __array_interface__ data pointer of buffer.buffer (trusted); every storage that ever existed is kept alive so stale addresses are recognised",
        "NaN arguments must arrive as NaN (payload bits are reported, not demanded); all other scalars bit-exact; values not representable in the declared type are not tried",
        "combinations the property is silent about (object of another class, python list as pointer, 0-d arrays, BufferByteArray storage) are not judged",
    ]
    if run.replay:
        rp = json.load(open(run.replay))["replay"]
        if rp.get("engine") == "kernelredecl":
            from . import kernelredecl
            kernelredecl.replay_one(run, rp)
            run.cov["traces_validated_against_impl"] = 1
            run.finish()
        if rp["mode"] == "gen":
            results = run_workers(run, [dict(omp=rp["omp"], seed=run.seed, shard=0, nshards=1, single=[rp])])
            merge_results(run, results)
        else:       # re-execute the same random history on the library, let TLC judge the new recording
            results = run_workers(run, [dict(omp=rp["omp"], seed=rp["seed"], shard=0, nshards=1, walks=[rp["widx"]], walk_steps=rp["steps"])])
            traces = merge_results(run, results)
            verdicts = validate_traces(run, traces)
            n = report_trace_verdicts(run, traces, verdicts, rp["seed"])
            run.cov["traces_validated_against_impl"] += n["calls"]
        run.finish()
    t1 = time.time()
    with ThreadPoolExecutor(max_workers=2) as ex:
        fmc = ex.submit(tlc_model_check, run, tier)
        fex = ex.submit(tlc_export, run, tier)
        files = fex.result()
        fmc.result()
    run.notes["t_tlc"] = round(time.time() - t1, 1)
    t1 = time.time()
    jobs = []
    for omp in (0, 2):
        walks = list(range(T["walks"]))
        for s in range(T["shards"]):
            jobs.append(dict(omp=omp, seed=run.seed, shard=s, nshards=T["shards"], files=files,
                             walks=walks[s::T["shards"]], walk_steps=T["walk_steps"]))
    results = run_workers(run, jobs)
    run.notes["t_workers"] = round(time.time() - t1, 1)
    traces = merge_results(run, results)
    t1 = time.time()
    verdicts = validate_traces(run, traces)
    run.notes["t_validate"] = round(time.time() - t1, 1)
    n = report_trace_verdicts(run, traces, verdicts, run.seed)
    run.notes["code_to_spec"] = dict(n)
    t1 = time.time()
    from . import kernelredecl
    kernelredecl.run_all(run)          # which declaration a call uses (spec/XoKernelRedecl.tla)
    run.notes["t_redeclared"] = round(time.time() - t1, 1)
    run.cov["traces_validated_against_impl"] += n["calls"]
    run.cov["exhaustive"] = False
    run.finish()


def merge_results(run, results):
    traces = []
    tot = collections.Counter()
    byc = collections.Counter()
    ctxs = {}
    for job, r in results:
        name = "omp2" if job["omp"] else "serial"
        if r.get("compile_failed"):
            if job["omp"]:
                ctxs[name] = "SKIPPED: probe module does not compile with OpenMP here: " + r["compile_failed"]
                continue
            raise C.MachineryError("probe module does not compile: " + r["compile_failed"])
        c = ctxs.setdefault(name, collections.Counter())
        c["calls"] += r["calls"]
        c["histories"] += r["histories"]
        c["served_after_growth"] += r.get("served_after_growth", 0)
        c["interleaved_calls"] += r.get("interleaved_calls", 0)
        c["compile_s_max"] = max(c["compile_s_max"], r.get("compile_s", 0))
        c["nkernels"] = r.get("nkernels", 0)
        for k, v in r["by_class"].items():
            byc[k] += v
        for k in ("abandoned_precondition", "other_property", "stats"):
            for kk, v in r.get(k, {}).items():
                tot[f"{k}:{kk}"] += v
        tot["history_steps"] += r["steps"]
        for key, ent in r["viol"].items():
            st = None
            for _ in range(ent["count"]):
                st = run.report(key, ent["desc"], ent["replay"])
        for s in r["samples"]:
            run.sample(s)
        traces += r.get("traces", [])
        run.cov["traces_validated_against_impl"] += r["calls"]
    run.notes["contexts"] = {k: (dict(v) if not isinstance(v, str) else v) for k, v in ctxs.items()}
    run.notes["replay_totals"] = dict(tot)
    # per class of (shape, contract outcome, parameter/argument kinds): vacuity control
    agg = collections.Counter()
    for k, v in byc.items():
        agg[k] += v
    run.notes["calls_by_class"] = dict(sorted(agg.items()))
    need = ["kw:ok:ptr/darr", "kw:ok:ptr/sarr", "kw:ok:xo/struct", "kw:ok:xo/uref", "kw:refused:ptr/darr", "extra:refused:xo/struct"]
    if results and any("files" in j for j, _ in results):
        for nd in need:
            if not any(k.startswith(nd) for k in agg):
                raise C.MachineryError(f"vacuity: no replayed call of class {nd}")
        if not all(isinstance(c, str) or c["served_after_growth"] > 0 for c in ctxs.values()):
            raise C.MachineryError("vacuity: no served call on an object whose buffer had grown")
    return traces


if __name__ == "__main__":
    if len(sys.argv) == 3 and sys.argv[1] == "--worker":
        C.main_guard(lambda: worker(sys.argv[2]))
