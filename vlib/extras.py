"""Specification growth beyond the listed properties (DESIGN.md 7a, EXTRAS.md): no property id, not in MANIFEST.json.

    cd /verif && /venv/bin/python -m vlib.extras [--tier quick|thorough] [--only linked,registry,ctxstring,hybridmeta,kernels]

exit 0 = everything explored conforms, 1 = the real code deviates from the specification (one line
`EXTRA-DEVIATION area=<name> key=<stable key> :: <description>` per class of deviation), 2 = machinery failure.
Writes evidence/extras.json (per area: TLC state counts, behaviours replayed, deviations, vacuity self-tests).

Every area follows the same scheme:
  (i)   a TLA+ module (spec/XoLinked, XoContextReg, XoContextStr, XoHybridMeta, XoKernelDict) states the state and the transitions
        AS IMPLEMENTED plus, where the code base itself makes a statement (docstring, comment, error message, test), the DOCUMENTED
        outcome; every exported step/case carries both;
  (ii)  TLC checks the contract invariants on a bounded instance and exports every behaviour/case as JSON;
  (iii) every exported behaviour is replayed on the real library (imported from /repo's working tree) and the projected state is
        compared after each step.  Verdict per step/case:
          real == as-implemented and the documented outcome (if any) agrees      -> conforms
          real == as-implemented but contradicts the documented outcome         -> EXTRA-DEVIATION kind=documented
          real != as-implemented but satisfies the documented outcome           -> conforms (counted as `doc_gap_closed`)
          real != as-implemented and nothing documented accepts it              -> EXTRA-DEVIATION kind=as-implemented
  (iv)  vacuity self-tests: deliberately wrong variants of each model must be rejected by TLC (invariant violated) or by the replay.
"""
import argparse, collections, gc, json, os, pickle, shutil, sys, time, traceback
from concurrent.futures import ThreadPoolExecutor
from . import common as C

JVM = ("-XX:ParallelGCThreads=1", "-Xmx1500m", "-XX:TieredStopAtLevel=1")
# deviations of the pinned tree that EXTRAS.md describes (the exit code is 1 all the same; the tag only tells a reader what is new)
DESCRIBED = {
    ("linked", "readonly:content-changed-without-bypass:E:iadd"), ("linked", "readonly:content-changed-without-bypass:E:ufunc"),
    ("linked", "readonly:content-changed-without-bypass:E:fill"), ("linked", "readonly:content-changed-without-bypass:E:view"),
    ("registry", "pickle:destroys-the-registry-of-the-pickled-context:XContext.__getstate__"),
    ("ctxstring", "'ContextCupy':no-option:unusable-context-returned"),
    ("hybridmeta", "multiple-bases-with-fields-accepted"),
    ("kernels", "docstring:tuple-keys-and-dispatch:call"), ("kernels", "docstring:tuple-keys-and-dispatch:setn"), ("kernels", "docstring:tuple-keys-and-dispatch:index"),
}
AREAS = ["linked", "registry", "ctxstring", "hybridmeta", "kernels"]


# ======================================================================================================== infrastructure
class Ctx:
    """what one run of the extras collects"""

    def __init__(self, tier):
        self.tier = tier
        self.areas = collections.OrderedDict()
        self.devs = collections.OrderedDict()          # (area, key) -> dict(kind, desc, count, input)
        self.t0 = time.time()

    def area(self, name):
        return self.areas.setdefault(name, dict(tlc=collections.OrderedDict(), tlc_states=0, tlc_generated=0, behaviours_replayed=0,
                                                steps_compared=0, counts=collections.Counter(), vacuity=collections.OrderedDict(),
                                                deviations=[], notes=[], wall_s=0.0))

    def deviation(self, area, key, kind, desc, inp=None):
        d = self.devs.get((area, key))
        if d is None:
            self.devs[(area, key)] = dict(area=area, key=key, kind=kind, desc=desc, count=1, input=inp)
        else:
            d["count"] += 1
            if len(desc) < len(d["desc"]):          # keep the shortest witness
                d["desc"], d["input"] = desc, inp


def replay_vacuity(cx, area, noticed, what="a corrupted expected state"):
    """the replay must notice a corrupted expectation - unless the real code already deviates in this area (then the run exits 1 anyway and the
    corrupted expectation may coincide with the deviating behaviour)"""
    a = cx.area(area)
    if noticed:
        a["vacuity"]["replay:corrupted-expectation"] = "rejected by the replay"
    elif any(d["kind"] == "as-implemented" for (ar, _), d in cx.devs.items() if ar == area):
        a["vacuity"]["replay:corrupted-expectation"] = "inconclusive: the real code already deviates from the as-implemented model in this area"
    else:
        raise C.MachineryError(f"{area}: the replay did not notice {what}")


def parse_export(out, initial=None):
    """generator over the JSON lines TLC printed; `initial`: the projected initial state, used to fill in the pre-state of every step
    (= post-state of the step before)"""
    for ln in out.splitlines():
        if not ln.startswith('"{'):
            continue
        h = json.loads(json.loads(ln))
        if initial is not None:
            prev = initial
            for rec in h["trace"]:
                rec["pre"] = prev
                prev = rec["post"]
        yield h


def collect(a, tlc, initial=None):
    """book-keeping common to the areas: TLC counters per job, vacuity jobs; returns a generator over all exported behaviours"""
    outs = []
    for tag, res in tlc.items():
        a["tlc"][tag] = dict(distinct=res["distinct"], generated=res["generated"], wall=round(res["wall"], 1))
        if ":wrong:" in tag or ":doc:" in tag:
            a["vacuity"][tag] = "rejected by TLC: " + (res["violated"][0].strip() if res["violated"] else "?")
            continue
        a["tlc_states"] += res["distinct"]
        a["tlc_generated"] += res["generated"]
        outs.append((tag, res))

    def gen():
        for tag, res in outs:
            for h in parse_export(res["out"], initial):
                h["_tag"] = tag
                yield h
            res["out"] = ""          # free the text
    return gen()


def run_jobs(jobs):
    """jobs: [dict(area, tag, module, cfg, expect)] with expect = "ok" | "violates:<Invariant>"; all TLC processes run side by side.
    Returns {tag: res}."""
    def one(job):
        wd = C.scratch("xtr")
        try:
            open(os.path.join(wd, "x.cfg"), "w").write(job["cfg"])
            res = C.run_tlc(job["module"], "x.cfg", workdir=wd, workers=1, timeout=job.get("timeout", 1500), jvm=JVM, env=job.get("env"))
        finally:
            shutil.rmtree(wd, ignore_errors=True)
        return job, res

    out = {}
    with ThreadPoolExecutor(max_workers=min(len(jobs), max(2, C.NCPU - 2))) as ex:
        for job, res in ex.map(one, jobs):
            exp = job["expect"]
            if exp == "ok":
                if not res["ok"]:
                    raise C.MachineryError(f"TLC rejects the model {job['module']} [{job['tag']}] (its own invariants do not hold, or TLC broke):\n"
                                           + res["out"][-3000:])
            else:
                inv = exp.split(":", 1)[1]
                hit = [ln.strip() for ln in res["out"].splitlines() if inv in ln and ("is violated" in ln or "is equal to FALSE" in ln)]
                res["violated"] = hit or res["violated"]
                if not hit:
                    raise C.MachineryError(f"vacuity self-test failed: TLC did not report a violation of {inv} for {job['module']} [{job['tag']}]\n"
                                           + res["out"][-3000:])
            out[job["tag"]] = res
    return out


def guarded(cx, area, what, fn, default):
    """the harness reads attributes and calls helpers outside `outcome_of`.  An exception raised there from INSIDE the library (innermost frame in
    the repository) is behaviour the model does not have - a deviation; an exception raised by the harness's own code is a machinery failure."""
    try:
        return fn()
    except C.MachineryError:
        raise
    except Exception as ex:          # noqa
        frames = traceback.extract_tb(ex.__traceback__)
        if frames and os.path.realpath(frames[-1].filename).startswith(os.path.realpath(C.REPO) + os.sep):
            cx.deviation(area, f"library-raised-where-the-model-has-no-exception:{type(ex).__name__}", "as-implemented",
                         f"{what}: {type(ex).__name__}: {ex} (raised at {frames[-1].filename}:{frames[-1].lineno})", None)
            return default
        raise


def outcome_of(fn):
    """run fn(); returns ("ok", value) or (exception class name, exception)"""
    try:
        return "ok", fn()
    except C.MachineryError:
        raise
    except Exception as ex:          # noqa: the exception class is the observation
        return type(ex).__name__, ex


# ======================================================================================================== area 1: linked arrays
LINKED_CFG = """SPECIFICATION Spec
CONSTANTS N = {N} MaxLen = {L} Modes = {modes} Wrong = "{wrong}" Export = {export}
INVARIANT TypeOK
INVARIANT ReadonlyRefuses
INVARIANT ForwardedExactlyOnce
INVARIANT BypassLands
INVARIANT NoneModeLands
INVARIANT ForwardWritesNothingItself
INVARIANT FrameCondition
INVARIANT FlagStable
{extra}INVARIANT Exported
CHECK_DEADLOCK FALSE
"""
LINKED_TIERS = {"quick": [dict(N=2, L=3, modes=("none", "readonly", "fwd"))],
                "thorough": [dict(N=3, L=3, modes=("none", "readonly", "fwd")), dict(N=2, L=4, modes=("none", "readonly"))]}
LINKED_N = {}


def linked_jobs(tier):
    jobs = []
    for t in LINKED_TIERS[tier]:
        for m in t["modes"]:
            modes = '{"none", "bogus"}' if m == "none" else '{"%s"}' % m
            tag = f"linked:{m}:N{t['N']}L{t['L']}"
            LINKED_N[tag] = t["N"]
            jobs.append(dict(area="linked", tag=tag, module="XoLinked", expect="ok",
                             cfg=LINKED_CFG.format(N=t["N"], L=t["L"], modes=modes, wrong="", export="TRUE", extra="")))
    small = dict(N=2, L=2, modes='{"none", "readonly", "fwd"}', export="FALSE")
    for wrong, inv in (("readonly-lands", "ReadonlyRefuses"), ("forward-twice", "ForwardedExactlyOnce"), ("bypass-ignored", "BypassLands")):
        jobs.append(dict(area="linked", tag="linked:wrong:" + wrong, module="XoLinked", expect="violates:" + inv,
                         cfg=LINKED_CFG.format(wrong=wrong, extra="", **small)))
    # the documented statement ("This array is read only") checked on the as-implemented transitions: TLC has to find the counterexample
    jobs.append(dict(area="linked", tag="linked:doc:ReadonlyMeansReadonly", module="XoLinked", expect="violates:ReadonlyMeansReadonly",
                     cfg=LINKED_CFG.format(wrong="", extra="INVARIANT ReadonlyMeansReadonly\n", **small)))
    return jobs


def linked_replay_one(h, xo, np, N):
    """replays one exported history; returns list of (kind, key, desc) findings and the number of steps compared"""
    from xobjects.context_cpu import LinkedArrayCpu
    cfg = h["cfg"]
    mode = {"none": None, "readonly": "readonly", "fwd": "setitem_from_container", "bogus": "bogus"}[cfg["mode"]]
    if cfg["shape"] == "1d":
        base = np.arange(1, N + 1, dtype=np.int64)
    elif cfg["shape"] == "2d":
        base = np.zeros((2, 2), dtype=np.int64)
    else:
        base = np.arange(1, 2 * N + 1, dtype=np.int64)[::2]

    class Cont:
        def __init__(self):
            self.log = []

        def cb(self, idx, val):
            self.log.append((idx, val))
            if cfg["beh"] == "apply":
                base[idx] = val
            elif cfg["beh"] == "bypass":
                with xo.BypassLinked(self):
                    self.L[idx] = val

    cont = Cont() if cfg["cont"] == "obj" else None
    name = {"none": None, "missing": "no_such_method", "ok": "cb"}[cfg["cbn"]]
    created, L = outcome_of(lambda: LinkedArrayCpu.from_array(base, mode=mode, container=cont, container_setitem_name=name))
    ident = f"mode={cfg['mode']}:cont={cfg['cont']}:cbn={cfg['cbn']}:beh={cfg['beh']}:start={cfg['start']}"
    if created != h["created"]:
        return [("as-implemented", f"from_array:{cfg['mode']}:{cfg['shape']}:outcome",
                 f"from_array(shape={cfg['shape']}, mode={mode!r}): model says {h['created']}, real {created} {L if created != 'ok' else ''}")], 1
    if created != "ok":
        return [], 1
    if not (np.shares_memory(L, base) and list(L) == list(base) and type(L) is LinkedArrayCpu):
        return [("as-implemented", "from_array:view", "from_array does not return a LinkedArrayCpu view sharing the memory of its argument")], 1
    if cont is not None:
        cont.L = L
    stack, found, nsteps = [], [], 0
    if cfg["start"] == "entered":
        stack.append(xo.BypassLinked(cont))
        stack[-1].__enter__()
    for step, rec in enumerate(h["trace"], start=1):
        cmd = rec["cmd"]
        pre = [int(v) for v in base]
        sent = None
        if cmd["k"] == "W":
            ix = cmd["x"]
            idx = {"i1": 0, "iN": -1, "all": slice(None), "allvec": slice(None)}.get(ix)
            if ix == "mask":
                idx = L < 10
            val = np.array([10 * step + p for p in range(1, N + 1)], dtype=np.int64) if ix == "allvec" else np.int64(10 * step)
            sent = (idx, val)
            out, _ = outcome_of(lambda: L.__setitem__(idx, val))
        elif cmd["k"] == "E":
            r = cmd["x"]
            if r == "iadd":
                out, _ = outcome_of(lambda: L.__iadd__(step))
            elif r == "ufunc":
                out, _ = outcome_of(lambda: np.add(L, step, out=L))
            elif r == "fill":
                out, _ = outcome_of(lambda: L.fill(10 * step))
            else:
                out, _ = outcome_of(lambda: L[0:1].__setitem__(0, 10 * step))
        elif cmd["k"] == "enter":
            bl = xo.BypassLinked(cont)
            stack.append(bl)
            out, _ = outcome_of(bl.__enter__)
        elif cmd["k"] == "exit":
            bl = stack.pop()
            out, _ = outcome_of(lambda: bl.__exit__(None, None, None))
        elif cmd["k"] == "setfalse":
            cont._flag_bypass_linked = False
            out = "ok"
        else:
            raise C.MachineryError(f"unknown linked command {cmd}")
        nsteps += 1
        arr = [int(v) for v in base]
        if cont is None or not hasattr(cont, "_flag_bypass_linked"):
            flag = "absent"
        else:
            flag = "true" if cont._flag_bypass_linked is True else "false" if cont._flag_bypass_linked is False else repr(cont._flag_bypass_linked)
        nfwd = len(cont.log) if cont is not None else 0
        diffs = []
        if arr != rec["arr"]:
            diffs.append("content")
        if flag != rec["flag"]:
            diffs.append("flag")
        if nfwd != rec["nfwd"]:
            diffs.append("forward-count")
        elif nfwd > rec["prefwd"]:
            # forwarded: exactly the objects that were passed to __setitem__, and the model's (index tag, step)
            if sent is None or cont.log[-1][0] is not sent[0] or cont.log[-1][1] is not sent[1] or rec["lastfwd"] != [cmd["x"], step]:
                diffs.append("forwarded-arguments")
        if out != rec["out"]:
            diffs.append("outcome")
        what = f"{cmd['k']}:{cmd['x']}" if cmd["x"] else cmd["k"]
        desc = (f"linked array ({ident}, flag before={rec['preflag']}) step {step} {what}: content {pre} -> real {arr} / model {rec['arr']}; "
                f"flag real {flag} / model {rec['flag']}; forwards real {nfwd} / model {rec['nfwd']}; outcome real {out} / model {rec['out']}")
        if not diffs:
            if rec["docviol"]:
                found.append(("documented", f"readonly:content-changed-without-bypass:{what}",
                              f"a mode='readonly' linked array (error message: 'This array is read only') was modified without BypassLinked by "
                              f"{ROUTE_TEXT.get(cmd['x'], what)}: content {pre} -> {arr}, no exception"))
            continue
        if rec["docviol"] and arr == pre:
            found.append(("doc-gap-closed", what, desc))
            break
        expected = (cmd["x"] if cmd["k"] == "E" else "") if cmd["k"] != "W" else \
            ("refused-" + rec["out"] if rec["out"] != "ok" else "forwarded" if rec["nfwd"] > rec["prefwd"] else "landed-bypassed" if rec["preflag"] == "true" else "landed")
        found.append(("as-implemented", f"{cmd['k']}:mode={cfg['mode']}:model={expected}:differs={'+'.join(diffs)}", desc))
        break
    return found, nsteps


ROUTE_TEXT = {"iadd": "`L += k` (in-place operator)", "ufunc": "`np.add(L, k, out=L)`", "fill": "`L.fill(v)`",
              "view": "`L[0:1][0] = v` (element assignment through a slice of L; slices of a linked array have mode None)"}


def area_linked(cx, tlc):
    xo = C.use_repo()
    import numpy as np
    a = cx.area("linked")
    t1 = time.time()
    bad = None
    for h in collect(a, tlc):
        N = LINKED_N[h["_tag"]]
        found, n = guarded(cx, "linked", f"history {h['cfg']} {[r['cmd'] for r in h['trace']]}", lambda: linked_replay_one(h, xo, np, N), ([], 0))
        a["behaviours_replayed"] += 1
        a["steps_compared"] += n
        a["counts"]["mode:" + h["cfg"]["mode"]] += 1
        for i, rec in enumerate(h["trace"]):
            a["counts"]["step:" + rec["cmd"]["k"] + (":" + rec["out"] if rec["out"] != "ok" else "")] += 1
            if rec["nfwd"] > rec["prefwd"]:
                a["counts"]["forwarded"] += 1
            if bad is None and h["cfg"]["mode"] == "readonly" and rec["cmd"]["k"] == "W" and rec["out"] == "ValueError":
                # replay-level vacuity: a corrupted export must be noticed (the model says the readonly write landed)
                bad = json.loads(json.dumps(h))
                bad["trace"][i]["out"] = "ok"
                bad["trace"][i]["arr"] = [99] * N
        for kind, key, desc in found:
            if kind == "doc-gap-closed":
                a["counts"]["doc_gap_closed"] += 1
            else:
                cx.deviation("linked", key, kind, desc, dict(cfg=h["cfg"], commands=[r["cmd"] for r in h["trace"]]))
    if not a["behaviours_replayed"]:
        raise C.MachineryError("linked: TLC exported no history")
    if bad is None:
        raise C.MachineryError("linked: no refused write among the exported histories (vacuous export)")
    f, _ = linked_replay_one(bad, xo, np, LINKED_N[bad["_tag"]])
    replay_vacuity(cx, "linked", any(k == "as-implemented" for k, _, _ in f))
    need = ["step:W", "step:W:ValueError", "step:W:TypeError", "step:W:AttributeError", "step:E", "step:enter", "step:exit", "step:exit:AttributeError",
            "forwarded", "mode:bogus"]
    miss = [k for k in need if not a["counts"][k]]
    if miss:
        raise C.MachineryError(f"linked: vacuous run, never exercised {miss}")
    a["wall_s"] = round(time.time() - t1, 1)


# ======================================================================================================== area 2a: buffer registry
REG_CFG = """SPECIFICATION Spec
CONSTANTS MaxLen = {L} K1 = "{k1}" K2 = "{k2}" Wrong = "{wrong}" Export = {export}
INVARIANT NoLeak
INVARIANT LiveAreListed
INVARIANT AllocCounts
INVARIANT AllocMonotone
INVARIANT Independent
{extra}INVARIANT Exported
CHECK_DEADLOCK FALSE
"""
REG_TIERS = {"quick": [("cpu", "base", 4), ("base", "cpu", 3), ("cpu", "cpu", 3)], "thorough": [("cpu", "base", 4), ("base", "cpu", 4), ("cpu", "cpu", 4), ("base", "base", 4)]}


def registry_jobs(tier):
    jobs = []
    for k1, k2, L in REG_TIERS[tier]:
        jobs.append(dict(area="registry", tag=f"registry:{k1}+{k2}", module="XoContextReg", expect="ok",
                         cfg=REG_CFG.format(L=L, k1=k1, k2=k2, wrong="", export="TRUE", extra="")))
    for wrong, inv in (("strong-registry", "NoLeak"), ("shared-registry", "NoLeak")):
        jobs.append(dict(area="registry", tag="registry:wrong:" + wrong, module="XoContextReg", expect="violates:" + inv,
                         cfg=REG_CFG.format(L=3, k1="cpu", k2="cpu", wrong=wrong, export="FALSE", extra="")))
    jobs.append(dict(area="registry", tag="registry:doc:PickleIsPure", module="XoContextReg", expect="violates:PickleIsPure",
                     cfg=REG_CFG.format(L=2, k1="cpu", k2="base", wrong="", export="FALSE", extra="INVARIANT PickleIsPure\n")))
    return jobs


BaseKindContext = None


def _base_kind_context(xo):
    """a context class that inherits XContext.__getstate__/__setstate__ unchanged, as ContextCupy and ContextPyopencl do"""
    global BaseKindContext
    if BaseKindContext is None:
        from xobjects.context import XContext
        from xobjects.context_cpu import BufferNumpy

        def _no(self, *a, **k):
            raise NotImplementedError

        ns = {n: _no for n in XContext.__abstractmethods__}
        ns["nplike_lib"] = property(_no)
        ns["_make_buffer"] = lambda self, capacity: BufferNumpy(capacity=capacity, context=self)
        cls = type("BaseKindContext", (XContext,), ns)
        cls.__module__ = __name__
        cls.__qualname__ = "BaseKindContext"
        for n in ("__getstate__", "__setstate__", "new_buffer", "buffers", "__init__"):
            if n in cls.__dict__:
                raise C.MachineryError("harness: BaseKindContext must inherit " + n)
        BaseKindContext = cls
        sys.modules[__name__].BaseKindContext = cls
    return BaseKindContext


def registry_replay_one(h, xo):
    import weakref
    from xobjects.context_cpu import BufferNumpy
    Base = _base_kind_context(xo)
    ctxs = [xo.ContextCpu() if k == "cpu" else Base() for k in h["kinds"]]
    held, wr = {}, {}
    nb, nsteps = 0, 0

    def view():
        alloc = [c._allocations for c in ctxs]
        listed, ok = [], []
        for c in ctxs:
            ok.append(hasattr(c, "_buffers"))
            st, bl = outcome_of(lambda: c.buffers)
            if st != "ok":
                listed.append([0] if st == "AttributeError" else [st])
                continue
            ids = []
            while bl:
                b = bl.pop()
                who = [i for i, w in wr.items() if w() is b]
                ids.append(who[0] if who else -1)
                b = None
            if sorted(ids) != sorted(set(ids)):
                ids.append(-2)                   # listed twice
            listed.append(sorted(ids))
        return dict(alloc=alloc, listed=listed, ok=ok)

    for step, rec in enumerate(h["trace"], start=1):
        cmd = rec["cmd"]
        ctx = ctxs[cmd["c"] - 1]
        extra, note = [], ""
        if cmd["k"] == "new":
            if cmd["x"] == "object":
                out, o = outcome_of(lambda: xo.Int64[:](2, _context=ctx))
                buf, want_cap = (o._buffer, o._size) if out == "ok" else (None, None)
            else:
                args = {"default": (), "zero": (0,), "small": (16,)}[cmd["x"]]
                out, o = outcome_of(lambda: ctx.new_buffer(*args))
                buf, want_cap = o, {"default": 1048576, "zero": 0, "small": 16}[cmd["x"]]
            if out == "ok":
                nb += 1
                held[nb] = [o]
                wr[nb] = weakref.ref(buf)
                if buf.capacity != want_cap or buf.context is not ctx or type(buf) is not BufferNumpy:
                    note = f"buffer made with capacity {buf.capacity} (wanted {want_cap}), context is ctx: {buf.context is ctx}, {type(buf).__name__}"
            del o, buf
        elif cmd["k"] == "direct":
            buf = BufferNumpy(capacity=16, context=ctx)
            nb += 1
            held[nb] = [buf]
            wr[nb] = weakref.ref(buf)
            out = "ok"
            del buf
        elif cmd["k"] == "hold":
            held[cmd["b"]].append(wr[cmd["b"]]())
            out = "ok"
        elif cmd["k"] == "drop":
            held[cmd["b"]].pop()
            if not held[cmd["b"]]:
                gc.collect()
            out = "ok"
        elif cmd["k"] == "pickle":
            out, clone = outcome_of(lambda: pickle.loads(pickle.dumps(ctx)))
            if out == "ok":
                extra = [clone._allocations, len(clone.buffers)]
                if type(clone) is not type(ctx):
                    note = "the clone is of another class"
            del clone
        else:
            raise C.MachineryError(f"unknown registry command {cmd}")
        nsteps += 1
        v = view()
        diffs = [k for k in ("alloc", "listed", "ok") if v[k] != rec["post"][k]]
        if out != rec["out"]:
            diffs.append("outcome")
        if out == "ok" and rec["out"] == "ok" and extra != rec["extra"]:
            diffs.append("clone")
        if note:
            diffs.append("buffer")
        kind = h["kinds"][cmd["c"] - 1]
        desc = (f"context registry (contexts {h['kinds']}) step {step} {cmd['k']}({kind} context {cmd['c']}{', ' + cmd['x'] if cmd['x'] else ''}"
                f"{', buffer ' + str(cmd['b']) if cmd['b'] else ''}): real {v} outcome {out} clone {extra} {note} / model {rec['post']} outcome {rec['out']} clone {rec['extra']}")
        if not diffs:
            if rec["docviol"]:
                return [("documented", "pickle:destroys-the-registry-of-the-pickled-context:XContext.__getstate__",
                         "pickling a context whose class inherits XContext.__getstate__ (ContextCupy, ContextPyopencl; here a minimal XContext subclass) "
                         "removes `_buffers` from the LIVE context (`state = self.__dict__; del state['_buffers']` - no copy, unlike ContextCpu): after "
                         f"`pickle.dumps(ctx)` `ctx.buffers` and `ctx.new_buffer()` raise AttributeError and a second `pickle.dumps(ctx)` raises KeyError; "
                         f"commands {[r['cmd'] for r in h['trace'][:step]]}: buffers listed before {rec['pre']['listed']}, after {v['listed']} ([0] = AttributeError)")], nsteps
            continue
        if rec["docviol"] and v == rec["pre"] and out == "ok":
            return [("doc-gap-closed", "pickle", desc)], nsteps
        return [("as-implemented", f"{cmd['k']}:{kind}:differs={'+'.join(diffs)}", desc)], nsteps
    return [], nsteps


def area_registry(cx, tlc):
    xo = C.use_repo()
    a = cx.area("registry")
    t1 = time.time()
    gc.collect()
    gc.freeze()                   # the replay calls gc.collect() whenever a last reference is dropped: keep those collections small
    try:
        bad = None
        for h in collect(a, tlc, dict(alloc=[0, 0], listed=[[], []], ok=[True, True])):
            found, n = guarded(cx, "registry", f"history {h['kinds']} {[r['cmd'] for r in h['trace']]}", lambda: registry_replay_one(h, xo), ([], 0))
            a["behaviours_replayed"] += 1
            a["steps_compared"] += n
            for i, rec in enumerate(h["trace"]):
                a["counts"]["step:" + rec["cmd"]["k"] + (":" + rec["out"] if rec["out"] != "ok" else "")] += 1
                if bad is None and rec["cmd"]["k"] == "drop" and rec["post"]["listed"] != rec["pre"]["listed"]:
                    # replay-level vacuity: the model claims a dropped buffer is still listed
                    bad = json.loads(json.dumps(h))
                    bad["trace"][i]["post"]["listed"] = rec["pre"]["listed"]
            for kind, key, desc in found:
                if kind == "doc-gap-closed":
                    a["counts"]["doc_gap_closed"] += 1
                else:
                    cx.deviation("registry", key, kind, desc, dict(kinds=h["kinds"], commands=[r["cmd"] for r in h["trace"]]))
        if not a["behaviours_replayed"]:
            raise C.MachineryError("registry: TLC exported no history")
        if bad is None:
            raise C.MachineryError("registry: no history in which dropping the last reference removes a buffer from the list (vacuous export)")
        f, _ = registry_replay_one(bad, xo)
        replay_vacuity(cx, "registry", any(k == "as-implemented" for k, _, _ in f))
    finally:
        gc.unfreeze()
    # the same statement on a class the library ships: without its back end ContextCupy() can still be constructed (see area ctxstring)
    if xo.ContextCupy not in xo.context.available:
        st, c = outcome_of(lambda: xo.ContextCupy())
        if st == "ok":
            before, _ = outcome_of(lambda: c.buffers)
            pickle.dumps(c)
            after, _ = outcome_of(lambda: c.buffers)
            a["notes"].append(f"xo.ContextCupy() (back end not installed): ctx.buffers before pickle.dumps(ctx): {before}; after: {after}")
    need = ["step:new", "step:new:AttributeError", "step:direct", "step:hold", "step:drop", "step:pickle", "step:pickle:KeyError"]
    miss = [k for k in need if not a["counts"][k]]
    if miss:
        raise C.MachineryError(f"registry: vacuous run, never exercised {miss}")
    a["wall_s"] = round(time.time() - t1, 1)


# ======================================================================================================== area 2b: context strings
STR_CFG = """SPECIFICATION Spec
CONSTANTS Cupy = {cupy} Opencl = {opencl} Wrong = "{wrong}" Export = {export}
INVARIANT DocumentedExamples
INVARIANT UnknownNameIsValueError
INVARIANT CpuStrRoundTrip
INVARIANT SerialIffNoThreads
INVARIANT OneOrError
{extra}INVARIANT Exported
CHECK_DEADLOCK FALSE
"""


def _backends():
    xo = C.use_repo()
    return xo.ContextCupy in xo.context.available, xo.ContextPyopencl in xo.context.available


def ctxstring_jobs(tier):
    cupy, opencl = _backends()
    b = dict(cupy=str(cupy).upper(), opencl=str(opencl).upper())
    jobs = [dict(area="ctxstring", tag="ctxstring:cases", module="XoContextStr", expect="ok", cfg=STR_CFG.format(wrong="", export="TRUE", extra="", **b)),
            dict(area="ctxstring", tag="ctxstring:wrong:auto-is-error", module="XoContextStr", expect="violates:DocumentedExamples",
                 cfg=STR_CFG.format(wrong="auto-is-error", export="FALSE", extra="", **b)),
            # a wrong transcription that TLC's invariants cannot see (unspecified territory): the replay has to reject it
            dict(area="ctxstring", tag="ctxstring:wrong:all-options-used", module="XoContextStr", expect="ok",
                 cfg=STR_CFG.format(wrong="all-options-used", export="TRUE", extra="", **b))]
    if not (cupy and opencl):
        jobs.append(dict(area="ctxstring", tag="ctxstring:doc:ImplMeetsDoc", module="XoContextStr", expect="violates:ImplMeetsDoc",
                         cfg=STR_CFG.format(wrong="", export="FALSE", extra="INVARIANT ImplMeetsDoc\n", **b)))
    return jobs


def _join(item):
    return None if item["none"] else ":".join(",".join(p) for p in item["parts"])


def _describe_ctx(xo, c):
    tn = type(c).__name__
    if tn == "ContextCpu":
        return dict(t="cpu", omp=str(c.omp_num_threads), openmp=bool(c.openmp_enabled), prebuilt=bool(c.allow_prebuilt_kernels),
                    usable=outcome_of(lambda: c.new_buffer(8))[0] == "ok", str=str(c))
    t = {"ContextCupy": "cupy", "ContextPyopencl": "opencl"}.get(tn, tn)
    return dict(t=t, omp="", openmp=False, prebuilt=False, usable=outcome_of(lambda: c.new_buffer(8))[0] == "ok", str="")


def ctxstring_real(case, xo):
    from xobjects import context as X
    kind = case["kind"]
    ctxs, err = [], ""
    saved = {k: os.environ.get(k) for k in ("XOBJECTS_USER_CONTEXT", "XOBJECTS_TEST_CONTEXTS")}
    try:
        if kind == "parse":
            st, c = outcome_of(lambda: X.get_context_from_string(_join(case["items"][0])))
            ctxs, err = ([c], "") if st == "ok" else ([], st)
        elif kind == "user":
            os.environ.pop("XOBJECTS_USER_CONTEXT", None)
            if case["env"] == "set":
                os.environ["XOBJECTS_USER_CONTEXT"] = _join(case["items"][0])
            st, c = outcome_of(lambda: xo.get_user_context())
            ctxs, err = ([c], "") if st == "ok" else ([], st)
        elif kind == "test":
            os.environ.pop("XOBJECTS_TEST_CONTEXTS", None)
            if case["env"] == "all":
                os.environ["XOBJECTS_TEST_CONTEXTS"] = "all"
            elif case["env"] == "set":
                os.environ["XOBJECTS_TEST_CONTEXTS"] = ";".join(_join(it) for it in case["items"])
            gen = X.get_test_contexts()
            while True:
                st, c = outcome_of(lambda: next(gen))
                if st == "StopIteration":
                    break
                if st != "ok":
                    err = st
                    break
                ctxs.append(c)
        else:
            v = case["env"]
            st, c = outcome_of(lambda: xo.ContextCpu() if v == "default" else xo.ContextCpu(omp_num_threads=(v if v == "auto" else int(v))))
            ctxs, err = ([c], "") if st == "ok" else ([], st)
    finally:
        for k, v in saved.items():
            if v is None:
                os.environ.pop(k, None)
            else:
                os.environ[k] = v
    return dict(ctxs=[_describe_ctx(xo, c) for c in ctxs], err=err)


def ctxstring_class(case):
    """stable classification of a case (what is asked, not which sample)"""
    if case["kind"] == "ctor":
        return "ctor:" + case["env"]
    if case["kind"] == "test":
        return "test:" + case["env"]
    it = case["items"][0]
    if it["none"]:
        return case["kind"] + ":none"
    parts = it["parts"]
    name = parts[0][0] if len(parts[0]) == 1 else "name-with-comma"
    opt = "no-option" if len(parts) == 1 else ("option=" + repr(parts[1][0]) + ("+more" if len(parts[1]) > 1 else ""))
    return f"{case['kind']}:{name!r}:{opt}" + (":extra-colon" if len(parts) > 2 else "")


def ctxstring_judge(rec, real):
    """-> (kind, what) or None"""
    doc = rec["doc"]
    doc_ok = real == doc["r"] if doc["k"] == "is" else (not real["ctxs"] and real["err"] != "") if doc["k"] == "anyerror" else True
    if real == rec["res"]:
        return None if doc_ok else ("documented", "")
    if doc["k"] != "unspecified" and doc_ok:
        return ("doc-gap-closed", "")
    return ("as-implemented", "")


def area_ctxstring(cx, tlc):
    xo = C.use_repo()
    a = cx.area("ctxstring")
    t1 = time.time()
    cupy, opencl = _backends()
    a["notes"].append(f"back ends importable here: cupy={cupy} pyopencl={opencl} (the model's constants are bound to this)")
    recs, wrongrecs = [], []
    for tag, res in tlc.items():
        a["tlc"][tag] = dict(distinct=res["distinct"], generated=res["generated"], wall=round(res["wall"], 1))
        if tag.endswith("wrong:all-options-used"):
            wrongrecs = parse_export(res["out"])
            continue
        if ":wrong:" in tag or ":doc:" in tag:
            a["vacuity"][tag] = "rejected by TLC: " + (res["violated"][0].strip() if res["violated"] else "?")
            continue
        a["tlc_states"] += res["distinct"]
        a["tlc_generated"] += res["generated"]
        recs += parse_export(res["out"])
    if not recs:
        raise C.MachineryError("ctxstring: TLC exported no case")
    reals = {}
    for rec in recs:
        case = rec["case"]
        real = guarded(cx, "ctxstring", f"case {case}", lambda: ctxstring_real(case, xo), None)
        if real is None:
            continue
        reals[json.dumps(case, sort_keys=True)] = real
        a["behaviours_replayed"] += 1
        a["steps_compared"] += 1
        a["counts"]["kind:" + case["kind"]] += 1
        a["counts"]["outcome:" + (real["err"] or "+".join(c["t"] for c in real["ctxs"]) or "none")] += 1
        a["counts"]["doc:" + rec["doc"]["k"]] += 1
        j = ctxstring_judge(rec, real)
        if j is None:
            continue
        inp = repr([_join(it) for it in case["items"]]) if case["items"] else case["env"]
        if j[0] == "doc-gap-closed":
            a["counts"]["doc_gap_closed"] += 1
        elif j[0] == "documented":
            what = ("a context object is returned for a back end that is not installed" if real["ctxs"] and not real["ctxs"][0]["usable"]
                    else "outcome contradicts the documented one")
            cx.deviation("ctxstring", ctxstring_class(case).split(":", 1)[1] + ":" + ("unusable-context-returned" if real["ctxs"] else "outcome"), "documented",
                         f"{case['kind']} {inp} (env {case['env']}): {what}: real {real}; documented {rec['doc']} (the back end's own message: "
                         f"'cupy is not installed. ContextCupy is not available!'; get_test_contexts skips classes not in `available`); the other spellings "
                         f"('ContextCupy:0', 'ContextPyopencl') raise NameError", dict(case=case))
        else:
            cx.deviation("ctxstring", ctxstring_class(case) + ":differs", "as-implemented",
                         f"{case['kind']} {inp} (env {case['env']}): real {real} / model {rec['res']} (documented: {rec['doc']})", dict(case=case))
    # vacuity: the deliberately wrong transcription must be contradicted by the real function on at least one case
    hit = 0
    for rec in wrongrecs:
        real = reals.get(json.dumps(rec["case"], sort_keys=True))
        if real is not None and ctxstring_judge(rec, real) not in (None,) and ctxstring_judge(rec, real)[0] == "as-implemented":
            hit += 1
    replay_vacuity(cx, "ctxstring", hit > 0, "the wrong transcription (all-options-used)")
    a["vacuity"]["ctxstring:wrong:all-options-used"] = f"contradicted by the real function on {hit} cases"
    need = ["kind:parse", "kind:user", "kind:test", "kind:ctor", "outcome:ValueError", "outcome:NameError", "outcome:cpu", "doc:is", "doc:unspecified"]
    miss = [k for k in need if not a["counts"][k]]
    if miss:
        raise C.MachineryError(f"ctxstring: vacuous run, never exercised {miss}")
    a["wall_s"] = round(time.time() - t1, 1)


# ======================================================================================================== area 3: hybrid class construction
HM_CFG = """SPECIFICATION Spec
CONSTANTS Wrong = "{wrong}" Export = {export} Families = {fam}
INVARIANT AcceptedIffClean
INVARIANT TablesConsistent
INVARIANT InheritedStructIsShared
INVARIANT OnlyStructsLeft
{extra}INVARIANT Exported
CHECK_DEADLOCK FALSE
"""


def hybridmeta_jobs(tier):
    jobs = [dict(area="hybridmeta", tag="hybridmeta:" + f, module="XoHybridMeta", expect="ok",
                 cfg=HM_CFG.format(wrong="", export="TRUE", fam='{"%s"}' % f, extra="")) for f in ("rename", "bases", "deps")]
    jobs.append(dict(area="hybridmeta", tag="hybridmeta:wrong:rename-to-field-allowed", module="XoHybridMeta", expect="violates:AcceptedIffClean",
                     cfg=HM_CFG.format(wrong="rename-to-field-allowed", export="FALSE", fam='{"rename"}', extra="")))
    jobs.append(dict(area="hybridmeta", tag="hybridmeta:wrong:multi-base-checked", module="XoHybridMeta", expect="violates:InheritedStructIsShared",
                     cfg=HM_CFG.format(wrong="multi-base-checked", export="FALSE", fam='{"bases"}', extra="")))
    jobs.append(dict(area="hybridmeta", tag="hybridmeta:doc:ImplMeetsDoc", module="XoHybridMeta", expect="violates:ImplMeetsDoc",
                     cfg=HM_CFG.format(wrong="", export="FALSE", fam='{"bases"}', extra="INVARIANT ImplMeetsDoc\n")))
    return jobs


class _HMLib:
    """the library of base classes of XoHybridMeta.tla, built once from the real metaclass"""

    def __init__(self, xo):
        self.xo = xo
        M = type(xo.HybridClass)
        I = xo.Int64
        self.b = {
            "HF1": M("XMHF1", (xo.HybridClass,), {"_xofields": {"p": I}}),
            "HF2": M("XMHF2", (xo.HybridClass,), {"_xofields": {"q": I}}),
            "HE": M("XMHE", (xo.HybridClass,), {"_xofields": {}}),
            "HR": M("XMHR", (xo.HybridClass,), {"_xofields": {"a": I, "b": I}, "_rename": {"a": "x"}}),
            "MF1": type("XMMF1", (), {"_xofields": {"p": I}}),
            "MF2": type("XMMF2", (), {"_xofields": {"q": I}}),
            "ME": type("XMME", (), {"_xofields": {}}),
            "PL": type("XMPL", (), {}),
        }
        self.H = M("XMH", (xo.HybridClass,), {"_xofields": {"h": I}})
        self.S = type(xo.Struct)("XMS", (xo.Struct,), {"s": I})
        self.snapshot = self.frozen()

    def frozen(self):
        """what must never change when OTHER classes are defined: the tables and struct attributes of the library classes"""
        out = {}
        for k, c in list(self.b.items()) + [("H", self.H), ("root", self.xo.HybridClass)]:
            if hasattr(c, "_XoStruct"):
                st = c._XoStruct
                g = lambda n: getattr(c, n, "<missing attribute>")          # noqa: E731
                out[k] = (list(g("_xo_fnames")), list(g("_py_fnames")), list(g("_fields")), dict(g("_rename")) if isinstance(g("_rename"), dict) else g("_rename"),
                          dict(g("_inverse_rename")) if isinstance(g("_inverse_rename"), dict) else g("_inverse_rename"), id(st),
                          list(st._depends_on), dict(st._kernels), list(st._extra_c_sources), st._DressingClass is c)
        return out


def hybridmeta_real_class(case, lib, idx):
    xo = lib.xo
    from xobjects.hybrid_class import _FieldOfDressed
    M = type(xo.HybridClass)
    name = f"XM{idx}"
    data = {}
    if case["own"]["has"]:
        data["_xofields"] = {f: xo.Int64 for f in case["own"]["f"]}
    if case["ren"]["has"]:
        data["_rename"] = {k: v for k, v in case["ren"]["m"]}
        if len(data["_rename"]) != len(case["ren"]["m"]):
            raise C.MachineryError("harness: rename pairs with a repeated key")
    if case["cname"]:
        data["_cname"] = name + "Custom"
    bases = tuple(lib.b[b] for b in case["bases"]) + ((xo.HybridClass,) if case["root"] else ())
    st, cls = outcome_of(lambda: M(name, bases, data))
    empty = dict(k="err", e=st, struct="", ownstruct=False, xo=[], py=[], fields=[], ren=[], inv=[])
    if st != "ok":
        return empty, ""
    stc = cls._XoStruct
    own = "_XoStruct" in cls.__dict__
    if own:
        struct = "custom" if stc.__name__ == name + "Custom" else "own" if stc.__name__ == name + "Data" else "?" + stc.__name__
    else:
        struct = next((k for k, b in lib.b.items() if hasattr(b, "_XoStruct") and b._XoStruct is stc), "root" if stc is xo.HybridClass._XoStruct else "?")
    def tab(attr, pairs=False):
        v = getattr(cls, attr, None)
        if v is None:
            return "<missing attribute>"
        return [list(kv) for kv in v.items()] if pairs else list(v)
    real = dict(k="ok", e="", struct=struct, ownstruct=own, xo=tab("_xo_fnames"), py=tab("_py_fnames"), fields=tab("_fields"),
                ren=tab("_rename", True), inv=tab("_inverse_rename", True))
    if any(isinstance(v, str) and v.startswith("<missing") for v in real.values()):
        return real, "a name table is missing"
    # beyond the tables: the descriptors behind the python names, and a round trip through an instance
    note = ""
    if own:
        if stc._DressingClass is not cls:
            note = "_XoStruct._DressingClass is not the new class"
        if [f.name for f in stc._fields] != real["xo"]:
            note = "_xo_fnames differ from the struct's fields"
        for xn, pn in zip(real["xo"], real["fields"]):
            d = cls.__dict__.get(pn)
            if not isinstance(d, _FieldOfDressed) or d.name != xn:
                note = f"no field descriptor {pn!r} -> {xn!r}"
        if not note and isinstance(cls, M) and issubclass(cls, xo.HybridClass) and real["fields"]:
            vals = {pn: 100 + i for i, pn in enumerate(real["fields"])}
            st2, obj = outcome_of(lambda: cls(**vals))
            if st2 != "ok":
                note = f"instance creation with the python names fails: {st2} {obj}"
            elif any(getattr(obj, pn) != v for pn, v in vals.items()) or any(getattr(obj._xobject, xn) != vals[pn] for xn, pn in zip(real["xo"], real["fields"])):
                note = "values set through the python names do not read back through the python / xobject names"
    return real, note


def hybridmeta_real_deps(case, lib, idx):
    xo = lib.xo
    M = type(xo.HybridClass)
    name = f"XD{idx}"
    ent = {"H": lib.H, "S": lib.S, "F": xo.Float64, "This": xo.ThisClass}
    data = {}
    kern = None
    if case["dep"]["has"]:
        data["_depends_on"] = [ent[x] for x in case["dep"]["s"]]
    if case["kern"]["has"]:
        kern = xo.Kernel(args=[xo.Arg(ent[x], name=f"a{j}") for j, x in enumerate(case["kern"]["args"])],
                         ret=None if case["kern"]["ret"] == "none" else xo.Arg(ent[case["kern"]["ret"]]))
        data["_kernels"] = {"kx": kern}
    if case["extra"]:
        data["_extra_c_sources"] = ["/*xm*/"]
    prev = None
    if case["shared"]:
        prev = M(name + "Prev", (xo.HybridClass,), {"_xofields": {"v": xo.Int64}, "_kernels": {"kx": kern}})
    if case["path"] == "own":
        data["_xofields"] = {"a": xo.Int64}
        bases = (xo.HybridClass,)
    else:
        bases = (lib.b["HF1"],)
    st, cls = outcome_of(lambda: M(name, bases, data))
    if st != "ok":
        return dict(k="err", e=st), ""
    stc = cls._XoStruct

    def classify(t):
        if t is stc and case["path"] == "own":
            return "Self"
        if prev is not None and t is prev._XoStruct:
            return "PrevS"
        for k, v in (("H", lib.H), ("HS", lib.H._XoStruct), ("S", lib.S), ("F", xo.Float64), ("This", xo.ThisClass)):
            if t is v:
                return k
        return "?" + getattr(t, "__name__", repr(t))
    k = stc._kernels.get("kx")
    real = dict(k="ok", deps=[classify(t) for t in stc._depends_on], haskernel=k is not None, args=[classify(a.atype) for a in k.args] if k else [],
                ret="none" if (k is None or k.ret is None) else classify(k.ret.atype), extra="/*xm*/" in stc._extra_c_sources)
    note = ""
    if k is not None and k is not kern:
        note = "the struct's kernel description is not the object given in _kernels"
    return real, note


def area_hybridmeta(cx, tlc):
    xo = C.use_repo()
    a = cx.area("hybridmeta")
    t1 = time.time()
    recs = []
    for tag, res in tlc.items():
        a["tlc"][tag] = dict(distinct=res["distinct"], generated=res["generated"], wall=round(res["wall"], 1))
        if ":wrong:" in tag or ":doc:" in tag:
            a["vacuity"][tag] = "rejected by TLC: " + (res["violated"][0].strip() if res["violated"] else "?")
            continue
        a["tlc_states"] += res["distinct"]
        a["tlc_generated"] += res["generated"]
        recs += parse_export(res["out"])
    if not recs:
        raise C.MachineryError("hybridmeta: TLC exported no case")
    lib = _HMLib(xo)

    def show(case):
        if case["kind"] == "class":
            return (f"class X({', '.join(case['bases'] + (['xo.HybridClass'] if case['root'] else []))}): "
                    + (f"_xofields={case['own']['f']} " if case["own"]["has"] else "")
                    + (f"_rename={dict((k, v) for k, v in case['ren']['m'])} " if case["ren"]["has"] else "") + ("_cname=.. " if case["cname"] else ""))
        return (f"hybrid class ({case['path']} struct) _depends_on={case['dep']['s'] if case['dep']['has'] else 'absent'} "
                f"_kernels={('args ' + str(case['kern']['args']) + ' ret ' + case['kern']['ret']) if case['kern']['has'] else 'absent'}"
                f"{' (Kernel object already used by an earlier class)' if case['shared'] else ''} extra_sources={case['extra']}")

    def judge(rec, real, note):
        """-> (kind, differing fields) or None"""
        diffs = [k for k in rec["res"] if real.get(k) != rec["res"][k]] + (["instance"] if note else [])
        doc_ok = rec["doc"] == "unspecified" or (real["k"] == "err" and real.get("e") == rec["doc"])
        if not diffs:
            return None if doc_ok else ("documented", [])
        if rec["doc"] != "unspecified" and doc_ok:
            return ("doc-gap-closed", diffs)
        return ("as-implemented", diffs)

    for idx, rec in enumerate(recs):
        case = rec["case"]
        real, note = guarded(cx, "hybridmeta", show(case), lambda: (hybridmeta_real_class if case["kind"] == "class" else hybridmeta_real_deps)(case, lib, idx), (None, ""))
        if real is None:
            continue
        a["behaviours_replayed"] += 1
        a["steps_compared"] += 1
        a["counts"]["family:" + case["kind"]] += 1
        a["counts"]["outcome:" + (real.get("e") or ("own-struct" if real.get("ownstruct") else "inherited-struct" if case["kind"] == "class" else "deps-ok"))] += 1
        if case["kind"] == "class" and rec["doc"] != "unspecified":
            a["counts"]["doc:must-raise"] += 1
        j = judge(rec, real, note)
        if j is None:
            continue
        if j[0] == "doc-gap-closed":
            a["counts"]["doc_gap_closed"] += 1
        elif j[0] == "documented":
            filled = [b for b in case["bases"] if b in ("HF1", "HF2", "HR", "MF1", "MF2")]
            a["counts"]["multi-base:" + "+".join(sorted("hybrid" if b[0] == "H" else "mixin" for b in filled))] += 1
            cx.deviation("hybridmeta", "multiple-bases-with-fields-accepted", "documented",
                         f"{show(case)} where {filled} each have non-empty _xofields: the metaclass's own rule (error message 'Multiple bases have _xofields') "
                         f"asks for ValueError; real: accepted, the class silently uses the struct of {real['struct']} with fields {real['xo']} (the other base's "
                         f"fields are lost) - the check sits behind the early return 'use _XoStruct from base class', which every subclass of a hybrid class takes",
                         dict(case=case))
        else:
            cls_key = ("class:" + ("inherit" if not case["own"]["has"] else "own") + ":" + ("rename" if case["ren"]["has"] else "plain")) if case["kind"] == "class" \
                else "deps:" + case["path"] + (":shared" if case["shared"] else "")
            cx.deviation("hybridmeta", f"{cls_key}:differs={'+'.join(sorted(j[1]))}", "as-implemented",
                         f"{show(case)}: real {real} {note} / model {rec['res']} (documented: {rec['doc']})", dict(case=case))
    # defining all these classes must not have changed the library classes (the inherit path promises "no action")
    if lib.frozen() != lib.snapshot:
        cx.deviation("hybridmeta", "library-class-changed-by-defining-a-subclass", "as-implemented",
                     "after defining the enumerated classes a base class's tables / struct attributes differ from what they were", None)
    # replay-level vacuity: an expectation computed the way _fields is (in place) instead of remove/append must be noticed
    bad = next((json.loads(json.dumps(r)) for r in recs if r["case"]["kind"] == "class" and r["res"]["k"] == "ok" and r["res"]["py"] != r["res"]["fields"]), None)
    if bad is None:
        raise C.MachineryError("hybridmeta: no accepted case in which _py_fnames and _fields differ in order (vacuous export)")
    bad["res"]["py"] = bad["res"]["fields"]
    real, note = hybridmeta_real_class(bad["case"], lib, 10 ** 6)
    replay_vacuity(cx, "hybridmeta", judge(bad, real, note) is not None, "a corrupted expected table")
    need = ["family:class", "family:deps", "outcome:ValueError", "outcome:UnboundLocalError", "outcome:own-struct", "outcome:inherited-struct", "doc:must-raise"]
    miss = [k for k in need if not a["counts"][k]]
    if miss:
        raise C.MachineryError(f"hybridmeta: vacuous run, never exercised {miss}")
    a["wall_s"] = round(time.time() - t1, 1)


# ======================================================================================================== area 4: kernel table
KD_CFG = """SPECIFICATION Spec
CONSTANTS MaxLen = {L} Wrong = "{wrong}" Export = {export}
INVARIANT OnlyIfNeededIdempotent
INVARIANT CompileEstablishes
INVARIANT CallInvokesExactlyOne
INVARIANT SetNTouchesOnlyThatName
INVARIANT OtherContextKeepsItsKernels
{extra}INVARIANT Exported
CHECK_DEADLOCK FALSE
"""
KD_TIERS = {"quick": 3, "thorough": 4}


def kernels_jobs(tier):
    jobs = [dict(area="kernels", tag="kernels:histories", module="XoKernelDict", expect="ok",
                 cfg=KD_CFG.format(L=KD_TIERS[tier], wrong="", export="TRUE", extra=""))]
    for wrong, inv in (("setn-all", "SetNTouchesOnlyThatName"), ("always-compile", "OnlyIfNeededIdempotent"), ("positional-accepted", "CallInvokesExactlyOne")):
        jobs.append(dict(area="kernels", tag="kernels:wrong:" + wrong, module="XoKernelDict", expect="violates:" + inv,
                         cfg=KD_CFG.format(L=3, wrong=wrong, export="FALSE", extra="")))
    jobs.append(dict(area="kernels", tag="kernels:doc:TupleKeysAreDispatched", module="XoKernelDict", expect="violates:TupleKeysAreDispatched",
                     cfg=KD_CFG.format(L=2, wrong="", export="FALSE", extra="INVARIANT TupleKeysAreDispatched\n")))
    return jobs


_STUB = {}


def _stub_context(xo):
    """ContextCpu whose build_kernels makes real KernelCpu objects around a recording function instead of compiling.
    Everything else is the library's: Struct.compile_class_kernels, ContextCpu.add_kernels, KernelDict, KernelDispatcher, KernelCpu.__call__."""
    if "cls" not in _STUB:
        from xobjects.context_cpu import KernelCpu

        class StubContext(xo.ContextCpu):
            def build_kernels(self, kernel_descriptions, **kw):
                _STUB["builds"] += 1
                self._xv_builds = getattr(self, "_xv_builds", 0) + 1
                self._xv_seen.append(dict(names=list(kernel_descriptions), extra_classes=list(kw.get("extra_classes", ()))))
                out = {}
                for pyname, kernel in kernel_descriptions.items():
                    out[pyname] = _recording_kernel(KernelCpu, kernel, self, _STUB["builds"])
                    kernel.pyname = pyname
                return out
        _STUB["cls"] = StubContext
        _STUB["K"] = KernelCpu
    return _STUB["cls"]


def _recording_kernel(KernelCpu, description, context, gen):
    k = KernelCpu(function=None, description=description, ffi_interface=None, context=context)
    k._xv_gen, k._xv_calls = gen, 0

    def fn(*args):
        k._xv_calls += 1
    k.function = fn
    return k


def kernels_replay_one(h, xo):
    from xobjects.context import KernelDispatcher
    Stub = _stub_context(xo)
    _STUB["builds"] = 0
    ctxs = [Stub(), Stub()]
    for c in ctxs:
        c._xv_seen = []
    MS = type(xo.Struct)

    def mk(name, knames):
        return MS(name, (xo.Struct,), {"a": xo.Int64, "_kernels": {n: xo.Kernel(args=[xo.Arg(xo.Int64, name="n")]) for n in knames}})
    cls = {"S": mk("XKS", ["k1", "k2"]), "T": mk("XKT", ["k2", "k3"])}
    udesc = xo.Kernel(args=[xo.Arg(xo.Int64, name="n")])

    def owner(k):
        for cn, c in cls.items():
            if any(d is k.description for d in c._kernels.values()):
                return cn
        return "U" if k.description is udesc else "?"

    def view():
        tables = []
        for c in ctxs:
            tables.append([dict(key=key if isinstance(key, str) else f"({key[0]}, classes)", cls=owner(k), gen=k._xv_gen, calls=k._xv_calls, nt=k.description.n_threads)
                           for key, k in c.kernels.items()])
        return dict(tables=tables, builds=[getattr(c, "_xv_builds", 0) for c in ctxs])

    nsteps = 0
    for step, rec in enumerate(h["trace"], start=1):
        cmd = rec["cmd"]
        ctx = ctxs[cmd["c"] - 1]
        note = ""
        if cmd["k"] == "compile":
            before = len(ctx._xv_seen)
            out, _ = outcome_of(lambda: cls[cmd["x"]].compile_class_kernels(ctx, only_if_needed=(cmd["y"] == "only_if_needed")))
            for seen in ctx._xv_seen[before:]:
                if seen["names"] != list(cls[cmd["x"]]._kernels) or seen["extra_classes"][:1] != [cls[cmd["x"]]]:
                    note = f"add_kernels was asked for {seen}"
        elif cmd["k"] == "call":
            disp = getattr(ctx.kernels, cmd["x"])
            if type(disp) is not KernelDispatcher:
                note = "ctx.kernels.<name> is not a KernelDispatcher"
            out, _ = outcome_of((lambda: disp(n=3)) if cmd["y"] == "kw" else (lambda: disp(3)))
        elif cmd["k"] == "setn":
            out, _ = outcome_of(lambda: getattr(ctx.kernels, cmd["x"]).set_n_threads(step + 1))
        elif cmd["k"] == "del":
            out, _ = outcome_of(lambda: ctx.kernels.__delitem__(cmd["x"]))
        elif cmd["k"] == "addtuple":
            ctx.kernels[(cmd["x"], (cls["S"],))] = _recording_kernel(_STUB["K"], udesc, ctx, 0)
            out = "ok"
        elif cmd["k"] == "index":
            st, got = outcome_of(lambda: ctx.kernels[cmd["x"]])
            out = st if st != "ok" else "dispatcher" if isinstance(got, KernelDispatcher) else "kernel" if isinstance(got, _STUB["K"]) else type(got).__name__
        else:
            raise C.MachineryError(f"unknown kernels command {cmd}")
        nsteps += 1
        v = view()
        diffs = [k for k in ("tables", "builds") if v[k] != rec["post"][k]] + (["outcome"] if out != rec["out"] else []) + (["arguments"] if note else [])
        what = f"{cmd['k']}:{cmd['x']}" + (":" + cmd["y"] if cmd["y"] else "")
        desc = (f"kernel table, step {step} {what} on context {cmd['c']} after {[r['cmd'] for r in h['trace'][:step - 1]]}: real {v} outcome {out} {note} / "
                f"model {rec['post']} outcome {rec['out']}")
        if not diffs:
            if rec["docviol"]:
                return [("documented", "docstring:tuple-keys-and-dispatch:" + cmd["k"], KD_DOC[cmd["k"]].format(out=out, name=cmd["x"]))], nsteps
            continue
        if rec["docviol"]:
            return [("doc-gap-closed", what, desc)], nsteps         # any change here needs a look at the model; it is not judged automatically
        return [("as-implemented", f"{cmd['k']}{':' + cmd['y'] if cmd['y'] else ''}:differs={'+'.join(diffs)}", desc)], nsteps
    return [], nsteps


KD_DOC = {
    "call": "KernelDict's docstring: 'The keys are tuples of the form (kernel_name, kernel_classes) ... can be indexed by kernel name, in which case it returns a "
            "KernelDispatcher object, which dynamically dispatches the kernel call to the correct kernel based on the types of the arguments' (build_kernels is "
            "annotated -> Dict[Tuple[str, tuple], KernelType]).  Real: with `ctx.kernels[('{name}', (S,))] = kernel` stored, `ctx.kernels.{name}(n=3)` raises "
            "{out}: the dispatcher only looks up the plain string key, argument types are never consulted, and every context stores plain names",
    "setn": "KernelDict's docstring describes keys (kernel_name, kernel_classes); KernelDispatcher.set_n_threads loops over all entries 'of that name' with "
            "`if name == self._name`, which compares the whole KEY with the string: a kernel stored as ('{name}', (S,)) is never reached - "
            "`ctx.kernels.{name}.set_n_threads(n)` leaves its n_threads unchanged (outcome {out}, no error)",
    "index": "KernelDict's docstring: 'The dictionary can be indexed by kernel name, in which case it returns a KernelDispatcher object'.  Real: "
             "`ctx.kernels['{name}']` returns the {out} object itself (only attribute access `ctx.kernels.{name}` makes a dispatcher)",
}


def kernels_real_compile(xo, wd):
    """one real compilation through the same entry points: compile_kernels(only_if_needed=True) twice -> one cffi build"""
    class XRC(xo.Struct):
        x = xo.Float64
        y = xo.Float64
        _extra_c_sources = ["/*gpufun*/ double xrc_prod(XRC o){ return XRC_get_x(o) * XRC_get_y(o); }"]
        _kernels = {"xrc_prod": xo.Kernel(args=[xo.Arg(xo.ThisClass, name="o")], ret=xo.Arg(xo.Float64))}
    XRC._kernels["xrc_prod"].args[0].atype = XRC          # what MetaHybridClass does for a hybrid class; a plain Struct names itself
    ctx = xo.ContextCpu()
    ctx._compile_kernels_info = False
    n = [0]
    orig = ctx.compile_kernel

    def counting(*a, **k):
        n[0] += 1
        return orig(*a, **k)
    ctx.compile_kernel = counting
    o = XRC(x=3, y=4, _context=ctx)
    res = collections.OrderedDict()
    o.compile_kernels(only_if_needed=True)
    res["compiles_after_first_only_if_needed"] = n[0]
    k1 = ctx.kernels["xrc_prod"]
    o.compile_kernels(only_if_needed=True)
    res["compiles_after_second_only_if_needed"] = n[0]
    res["kernel_object_kept"] = ctx.kernels["xrc_prod"] is k1
    res["value"] = float(ctx.kernels.xrc_prod(o=o))
    res["positional"] = outcome_of(lambda: ctx.kernels.xrc_prod(o))[0]
    ctx.kernels.xrc_prod.set_n_threads(5)
    res["n_threads_after_set"] = XRC._kernels["xrc_prod"].n_threads
    o.compile_kernels(only_if_needed=False)
    res["compiles_after_forced"] = n[0]
    res["kernel_object_replaced"] = ctx.kernels["xrc_prod"] is not k1
    res["value_after_recompile"] = float(ctx.kernels.xrc_prod(o=o))
    want = collections.OrderedDict(compiles_after_first_only_if_needed=1, compiles_after_second_only_if_needed=1, kernel_object_kept=True, value=12.0,
                                   positional="ValueError", n_threads_after_set=5, compiles_after_forced=2, kernel_object_replaced=True, value_after_recompile=12.0)
    return res, want


def area_kernels(cx, tlc):
    xo = C.use_repo()
    a = cx.area("kernels")
    t1 = time.time()
    bad = None
    for h in collect(a, tlc, dict(tables=[[], []], builds=[0, 0])):
        found, n = guarded(cx, "kernels", f"history {[r['cmd'] for r in h['trace']]}", lambda: kernels_replay_one(h, xo), ([], 0))
        a["behaviours_replayed"] += 1
        a["steps_compared"] += n
        for i, rec in enumerate(h["trace"]):
            a["counts"]["step:" + rec["cmd"]["k"] + (":" + rec["cmd"]["y"] if rec["cmd"]["y"] else "") + (":" + rec["out"] if rec["out"] not in ("ok", "kernel") else "")] += 1
            if rec["cmd"]["k"] == "compile" and rec["post"] == rec["pre"]:
                a["counts"]["compile-skipped"] += 1
                if bad is None:
                    bad = json.loads(json.dumps(h))
                    bad["trace"][i]["post"]["builds"][rec["cmd"]["c"] - 1] += 1
        for kind, key, desc in found:
            if kind == "doc-gap-closed":
                a["counts"]["doc_gap_closed"] += 1
                if len(a["notes"]) < 5:
                    a["notes"].append("a step the model marks as contradicting the docstring no longer behaves as modelled: " + desc[:400])
            else:
                cx.deviation("kernels", key, kind, desc, dict(commands=[r["cmd"] for r in h["trace"]]))
    if not a["behaviours_replayed"]:
        raise C.MachineryError("kernels: TLC exported no history")
    if bad is None:
        raise C.MachineryError("kernels: no history with a skipped compilation (vacuous export)")
    f, _ = kernels_replay_one(bad, xo)
    replay_vacuity(cx, "kernels", any(k == "as-implemented" for k, _, _ in f))
    # the one real compilation
    res, want = guarded(cx, "kernels", "one real compilation (struct with one kernel, compile_kernels(only_if_needed=True) twice, call, set_n_threads, recompile)",
                        lambda: kernels_real_compile(xo, os.getcwd()), ({}, {}))
    a["notes"].append(dict(real_compile=res))
    a["behaviours_replayed"] += 1
    a["steps_compared"] += len(res)
    for k in want:
        if res.get(k) != want[k]:
            cx.deviation("kernels", "real-compile:" + k, "documented" if k.startswith("compiles_after_second") else "as-implemented",
                         f"real ContextCpu, class with one kernel, compile_kernels(only_if_needed=True) twice, call, set_n_threads, forced recompile: "
                         f"{k} = {res.get(k)!r}, expected {want[k]!r} (all observations: {dict(res)})", None)
    need = ["step:compile:always", "step:compile:only_if_needed", "compile-skipped", "step:call:kw", "step:call:kw:KeyError", "step:call:pos:ValueError",
            "step:setn", "step:del", "step:addtuple", "step:index"]
    miss = [k for k in need if not a["counts"][k]]
    if miss:
        raise C.MachineryError(f"kernels: vacuous run, never exercised {miss}")
    a["wall_s"] = round(time.time() - t1, 1)


# ======================================================================================================== main
def main(argv=None):
    ap = argparse.ArgumentParser()
    ap.add_argument("--tier", default=os.environ.get("VERIF_TIER", "quick"), choices=["quick", "thorough"])
    ap.add_argument("--only", default="")
    a = ap.parse_args(argv)
    only = [x for x in a.only.split(",") if x] or AREAS
    cx = Ctx(a.tier)
    os.makedirs(C.EVID, exist_ok=True)
    tmp = C.scratch("extras")
    cwd = os.getcwd()
    try:
        os.chdir(tmp)                 # the library writes *.c / *.so into cwd when it compiles
        jobs = []
        for name in only:
            jobs += JOBS[name](a.tier)
        t1 = time.time()
        res = run_jobs(jobs)
        t_tlc = time.time() - t1
        for name in only:
            RUN[name](cx, collections.OrderedDict((j["tag"], res[j["tag"]]) for j in jobs if j["area"] == name))
    finally:
        os.chdir(cwd)
        shutil.rmtree(tmp, ignore_errors=True)
    for (area, key), d in cx.devs.items():
        cx.areas[area]["deviations"].append(d)
        d["described_in_EXTRAS_md"] = (area, key) in DESCRIBED
        print(f"EXTRA-DEVIATION area={area} key={key} kind={d['kind']} count={d['count']} described-in-EXTRAS.md={'yes' if d['described_in_EXTRAS_md'] else 'NO'} "
              f":: {d['desc'][:600]}")
    ev = dict(tier=a.tier, wall_s=round(time.time() - cx.t0, 1), tlc_wall_s=round(t_tlc, 1), deviations=len(cx.devs), areas={})
    for name, ar in cx.areas.items():
        ar = dict(ar)
        ar["counts"] = dict(sorted(ar["counts"].items()))
        ev["areas"][name] = ar
        print(f"[extras:{name}] tlc_states={ar['tlc_states']} tlc_generated={ar['tlc_generated']} behaviours_replayed={ar['behaviours_replayed']} "
              f"steps_compared={ar['steps_compared']} deviations={len(ar['deviations'])} vacuity_selftests={len(ar['vacuity'])} wall={ar['wall_s']}s")
    json.dump(ev, open(os.path.join(C.EVID, "extras.json"), "w"), indent=1, default=str)
    print(f"[extras] tier={a.tier} areas={len(cx.areas)} deviations={len(cx.devs)} wall={time.time() - cx.t0:.1f}s (TLC {t_tlc:.1f}s)")
    sys.exit(1 if cx.devs else 0)


JOBS = {"linked": linked_jobs, "registry": registry_jobs, "ctxstring": ctxstring_jobs, "hybridmeta": hybridmeta_jobs, "kernels": kernels_jobs}
RUN = {"linked": area_linked, "registry": area_registry, "ctxstring": area_ctxstring, "hybridmeta": area_hybridmeta, "kernels": area_kernels}

if __name__ == "__main__":
    C.main_guard(main)
