"""Engine for C16: vectorised kernel blocks run once per index on every target (xobjects/specialize_source.py
plus the launch geometry of KernelCpu / KernelPyopencl / KernelCupy).

model level : TLC checks on spec/XoSpecialize.tla that executing the implementation-shaped Rewrite(src, target) under the
              launch geometry satisfies the CONTRACT (once per index in blocks, inactive lines never, unannotated lines
              once on CPU, qualifier words legal for the target) for every well-formed source of the bounded vocabulary
              x n in 0..4 x CUDA block in {1,2,3} x 4 targets.  Every block has its OWN bound: n (the launch size) or
              n/2 (a second variable of the kernel), so that blocks shorter than the launch and kernels whose blocks
              have different bounds are covered (a statement's clause depends on its own block only).
spec -> code: every source TLC enumerates (XoSpecializeGen, JSON) is rendered to C text in which every statement records
              (statement id, loop index) into a log, rewritten by the REAL specialize_source for the four targets,
              compared line class by line class with the model's Rewrite (difference = model-drift note only) and
              EXECUTED: cpu forms compiled as the CPU context compiles them (-std=c99, stdint.h, omp.h/-fopenmp), opencl /
              cuda forms host-compiled behind a simulated launch loop (get_global_id / blockDim,blockIdx,threadIdx) whose
              geometry (global size, grid, block, delivered n) is taken at run time from the real KernelPyopencl.__call__ /
              KernelCupy.__call__ driven with a recording fake device function.  A sample additionally goes through the
              real ctx.add_kernels + kernel call on ContextCpu() and ContextCpu(omp_num_threads=2).
code -> spec: the recorded executions (canonical runs of counts per statement) go back to TLC (XoSpecializeTrace), which
              evaluates the contract operators on them; the verdict is TLC's first failing clause.  When there are more
              records than TLC can take in the time budget, every record that differs from the TLC-exported expectation
              plus a random sample of the others is validated.
text clause : random unannotated text (look-alikes of the markers, blank lines, braces, quotes) around annotated lines is
              passed through the real rewriter; TLC checks PlainPreserved on tokens of the exact line texts.

Usage rule, not alarmed on: two vectorised blocks of one kernel that reuse the loop variable expand to two `int v;` in
one scope on opencl/cuda (C16 promises nothing about variable scoping) - generated kernels use a different variable per
block; the behaviour of the reuse case is recorded in the evidence notes (info_reuse_loop_variable).
"""
import collections, json, os, random, re, shutil, struct, subprocess, sys, time
from concurrent.futures import ThreadPoolExecutor, ProcessPoolExecutor
from . import common as C

PROPERTIES = ["C16"]
TARGETS = ["cpu_serial", "cpu_openmp", "opencl", "cuda"]
ALL4 = '{"cpu_serial","cpu_openmp","opencl","cuda"}'
JVM_SMALL = ("-XX:ParallelGCThreads=2", "-Xmx1500m")
XW = 100                      # log slots per statement: slot 0 = index -1, slot i+1 = index i, slot XW-1 = anything else
MAXS = 16                     # log rows (statements) per kernel
OVER = XW - 2                 # index value reported for the overflow slot
CHUNK = 400                   # kernels per translation unit

# bounded instances; every profile is model-checked and exported completely.  Inc* = context sets per include file.
# MaxHalf = how many blocks of one source may have the smaller bound n/2 (3 = no restriction at these lengths).
MAXHALF = 3
S_CU_OMP = '{"cuda","cpu_openmp"}'
S_CL_SER = '{"opencl","cpu_serial"}'
PROFILES = {
    "quick": [
        dict(tag="full4", MaxLen=4, Kinds='{"plain"}', CtxSets='{{"cuda"}, {"cpu_serial","opencl"}, {"cpu_openmp"}}',
             IncFa='{' + S_CU_OMP + '}', IncFb='{' + S_CU_OMP + ',' + S_CL_SER + '}', IncFc='{' + S_CL_SER + '}', parts=8),
        dict(tag="qual3", MaxLen=3, Kinds='{"plain","mem","fun"}', CtxSets='{{"opencl","cuda"}}',
             IncFa='{}', IncFb='{}', IncFc='{' + ALL4 + '}', parts=1),
        dict(tag="core6", MaxLen=6, Kinds='{"plain"}', CtxSets='{{"cuda","cpu_openmp"}}', IncFa='{}', IncFb='{}', IncFc='{}', parts=2),
    ],
    "thorough": [
        dict(tag="full5", MaxLen=5, Kinds='{"plain"}', CtxSets='{{"cuda"}, {"cpu_serial","opencl"}, {"cpu_openmp"}}',
             IncFa='{' + S_CU_OMP + '}', IncFb='{' + S_CU_OMP + ',' + S_CL_SER + '}', IncFc='{' + ALL4 + '}', parts=12),
        dict(tag="wide4", MaxLen=4, Kinds='{"plain"}', CtxSets='{{"cuda"}, {"cpu_serial","opencl"}, {"cpu_openmp"}, {}}',
             IncFa='{' + S_CU_OMP + ',' + S_CL_SER + '}', IncFb='{' + S_CU_OMP + ',' + S_CL_SER + '}',
             IncFc='{' + S_CU_OMP + ',' + S_CL_SER + '}', parts=6),
        dict(tag="core6", MaxLen=6, Kinds='{"plain"}', CtxSets='{{"cuda"}, {"cpu_serial","opencl"}}',
             IncFa='{{"opencl","cpu_openmp"}}', IncFb='{{"cuda","cpu_serial"}}', IncFc='{}', parts=10),
        dict(tag="qual4", MaxLen=4, Kinds='{"plain","mem","fun"}', CtxSets='{{"opencl","cuda"}}',
             IncFa='{}', IncFb='{}', IncFc='{' + ALL4 + '}', parts=2),
    ],
}
NS_SMALL = [0, 1, 2, 3, 4]
BLOCKS = [1, 2, 3]
BIG = [(7, 4), (65, 32), (96, 256)]            # (n, cuda block); n <= XW-4 so that no legal index reaches the overflow slot
TLC_CAP = {"quick": 60000, "thorough": 120000}  # (source,target) records of the bulk run sent through TLC (all others: see check)
SAMPLE_CTX = {"quick": 120, "thorough": 600}    # kernels that go through the real add_kernels on both CPU contexts
NTEXT = {"quick": 400, "thorough": 4000}


def consts(p, part=0, nparts=1):
    return (f"MaxLen = {p['MaxLen']} Ns = {{0,1,2,3,4}} MaxHalf = {p.get('MaxHalf', MAXHALF)} Blocks = {{1,2,3}}\n CtxSets = {p['CtxSets']}\n IncFa = {p['IncFa']}\n"
            f" IncFb = {p['IncFb']}\n IncFc = {p['IncFc']}\n Kinds = {p['Kinds']}\n Part = {part} NParts = {nparts}\n")


# ----------------------------------------------------------------------------- TLC: model level + export
def model_check(run, prof, workers):
    wd = C.scratch("c16mc")
    cfg = ("SPECIFICATION Spec\nCONSTANTS " + consts(prof) +
           "INVARIANT RewriteMeetsContract\nINVARIANT EnumeratedAreWellFormed\nCHECK_DEADLOCK FALSE\n")
    open(os.path.join(wd, "mc.cfg"), "w").write(cfg)
    res = C.run_tlc("XoSpecialize", "mc.cfg", workdir=wd, workers=workers, timeout=3000)
    shutil.rmtree(wd, ignore_errors=True)
    if not res["ok"]:
        raise C.MachineryError(f"model-level check {prof['tag']} failed: the implementation-shaped model does not meet the "
                               "contract (specification inconsistent with itself):\n" + res["out"][-3000:])
    return res


def export_part(prof, part, outdir):
    """-> (path of a file with one exported source per line (the raw TLC output lines), number of lines, tlc result)"""
    wd = C.scratch("c16gen")
    cfg = "SPECIFICATION GSpec\nCONSTANTS " + consts(prof, part, prof["parts"]) + "CHECK_DEADLOCK FALSE\n"
    open(os.path.join(wd, "gen.cfg"), "w").write(cfg)
    res = C.run_tlc("XoSpecializeGen", "gen.cfg", workdir=wd, workers=1, timeout=3000, jvm=JVM_SMALL)
    shutil.rmtree(wd, ignore_errors=True)
    if res["rc"] != 0 or res["errors"]:
        raise C.MachineryError(f"XoSpecializeGen {prof['tag']}/{part} failed:\n" + res["out"][-2000:])
    path = os.path.join(outdir, f"exp_{prof['tag']}_{part}.txt")
    n = 0
    with open(path, "w") as f:
        for ln in res["out"].splitlines():
            if ln.startswith('"{'):
                f.write(ln + "\n")
                n += 1
    res["out"] = ""
    return path, n, res


# ----------------------------------------------------------------------------- rendering abstract sources to C
FILES = {   # the on-disk form of XoSpecialize!FileBody; ids/indices come from macros the including kernel defines
    "fa": "    XREC(XV_SID(1), XV_IDX);\n",
    "fb": "    int XV_V = 0; //vectorize_over XV_V XV_LIM\n    XREC(XV_SID(2), XV_V);\n    //end_vectorize\n",
    "fc": "    XREC(XV_SID(1), XV_IDX);\n    XREC(XV_SID(2), XV_IDX); //only_for_context opencl cpu_openmp\n",
}
FILE_STMTS = {"fa": [1], "fb": [2], "fc": [1, 2]}
INC_NAMES = ["xv_p.h", "xv_q.h", "xv_r.h"]
ALL_BODIES = ("fa", "fb", "fc")


def write_files(root):
    """The file environment is part of the input: the SAME include name resolves to a different body depending on the folder
    the kernel is built from.  Folder inc_<b1>_<b2>.. holds xv_p.h = body b1, xv_q.h = body b2, ...; ./xv_cwd.h = body fa."""
    import itertools
    os.makedirs(os.path.join(root, "inc"), exist_ok=True)
    for r in (1, 2, 3):
        for perm in itertools.permutations(ALL_BODIES, r):
            d = os.path.join(root, "inc_" + "_".join(perm))
            os.makedirs(d, exist_ok=True)
            for name, body in zip(INC_NAMES, perm):
                open(os.path.join(d, name), "w").write(FILES[body])
    open(os.path.join(root, "xv_cwd.h"), "w").write(FILES["fa"])


LIMH = ("nh", "nlimh", "n_half")


def vname(v):
    return "-1" if v == -1 else f"v{v}"


def render(rec, kname, fixed=False, variant=0):
    """abstract source -> (C text with annotations, sid map {abstract id: dense row}, folder the includes are searched in)"""
    ids = sorted(i for i, _ in rec["stm"])
    sid = {a: k for k, a in enumerate(ids)}
    bodies = []
    for l in rec["src"]:
        if l["k"] == "inc" and l["f"] not in bodies:
            bodies.append(l["f"])
    if fixed:
        bodies = list(ALL_BODIES)
    elif len(bodies) > 1 and variant % 2:
        bodies.reverse()
    names = dict(zip(bodies, INC_NAMES))
    if bodies == ["fa"] and variant % 3 == 0:
        names = {"fa": "xv_cwd.h"}                    # found through "./", before the search folders
    folder = "inc_" + "_".join(bodies) if bodies else "inc"
    out = []
    if any(l["k"] == "fun" for l in rec["src"]):
        out.append(f"/*gpufun*/ void {kname}_h(/*gpuglmem*/ int* /*restrict*/ xlog, int s, int i){{ XREC(s, i); }}")
    out.append(f"/*gpukern*/ void {kname}(const int n, /*gpuglmem*/ int* /*restrict*/ xlog){{")
    # spellings of the annotations vary with the kernel (all are forms the repository's own sources use or whitespace variants)
    lim = ("n", "nlim", "n")[variant % 3]
    limh = LIMH[variant % 3]                          # bound of the blocks with selector h = 1: a second variable, n/2
    if lim != "n":
        out.append(f"    const int {lim} = n;")
    if any(l["k"] == "vec" and l["h"] == 1 for l in rec["src"]):
        out.append(f"    const int {limh} = n/2;")
    sp = ("", " ", "\t")[variant % 3]
    for p, l in enumerate(rec["src"], 1):
        k = l["k"]
        e = rec["encl"][p - 1]
        if k == "plain":
            out.append(f"    XREC({sid[10 * p]}, {vname(e)});")
        elif k == "mem":
            out.append(f"    {{ /*gpuglmem*/ int* /*restrict*/ q = xlog; XRECQ(q, {sid[10 * p]}, {vname(e)}); }}")
        elif k == "fun":
            out.append(f"    {kname}_h(xlog, {sid[10 * p]}, {vname(e)});")
        elif k == "only":
            out.append(f"    XREC({sid[10 * p]}, {vname(e)}); //only_for_context {sp}{(' ' + sp).join(l['c'])}{sp}")
        elif k == "vec":
            v = f"v{10 * p}"
            bl = limh if l["h"] == 1 else lim             # the bound of THIS block
            head = (f"    int {v} = 0; ", f"    for(int64_t {v}=0; {v}<{bl}; {v}++){{ ", "")[variant % 3]
            if variant % 3 == 1 and (variant // 3) % 2 == 1:
                # whatever C text precedes the annotation on its line is replaced: the ANNOTATION defines the index set, also when
                # the text is a loop header over other bounds
                head = f"    for(int {v}=1; {v}<={lim}+2; {v}++){{ "
            out.append(f"{head}//vectorize_over {sp}{v} {sp}{bl}{sp}")
        elif k == "end":
            out.append(("    //end_vectorize", "    }//end_vectorize", "//end_vectorize ")[variant % 3])
        elif k == "inc":
            f = l["f"]
            j0 = FILE_STMTS[f][0]
            out.append("#undef XV_SID\n#undef XV_IDX\n#undef XV_V\n#undef XV_LIM")
            out.append(f"#define XV_SID(j) ({sid[10 * p + j0] - j0}+(j))")
            out.append(f"#define XV_IDX ({vname(e)})")
            out.append(f"#define XV_V v{10 * p + 1}")
            out.append(f"#define XV_LIM {lim}")
            out.append(f"    //include_file {sp}{names[f]}{sp} for_context {sp}{(' ' + sp).join(l['c'])}{sp}")
        else:
            raise C.MachineryError("unknown line kind " + k)
    out.append("}")
    return "\n".join(out), sid, folder


MACROS = f"""#define XW {XW}
#define XSLOT(i) (((i) < -1 || (i) > XW-3) ? XW-1 : (i)+1)
#define XRECQ(q,s,i) __sync_fetch_and_add(&(q)[(s)*XW + XSLOT(i)], 1)
#define XREC(s,i) XRECQ(xlog,s,i)
#define XV_SID(j) (j)
#define XV_IDX (-1)
#define XV_V xv_unused
#define XV_LIM n
"""
MACROS_CL = MACROS.replace("__sync_fetch_and_add(&(q)[(s)*XW + XSLOT(i)], 1)", "atomic_inc(&(q)[(s)*XW + XSLOT(i)])")
SIM = {
    "cpu_serial": "",
    "cpu_openmp": "",
    "opencl": "#define __kernel\n#define __global\n#define kernel\n#define global\n"
              "static int xv_gid, xv_gsize;\nstatic int get_global_id(int d){ (void)d; return xv_gid; }\n"
              "static int get_global_size(int d){ (void)d; return xv_gsize; }\nstatic int get_global_offset(int d){ (void)d; return 0; }\n"
              "static int get_work_dim(void){ return 1; }\n",
    "cuda": "#define __global__\n#define __device__\n#define __host__\n#define __forceinline__\n#define __restrict__ restrict\n"
            "struct xv_dim3 { int x, y, z; };\nstatic struct xv_dim3 blockDim, blockIdx, threadIdx, gridDim;\n",
}
LAUNCH = {
    "cpu_serial": "xv_KT[k].f(n, xlog);",
    "cpu_openmp": "omp_set_num_threads(2); xv_KT[k].f(n, xlog);",
    "opencl": "xv_gsize = geo; for (int g = 0; g < geo; g++){ xv_gid = g; xv_KT[k].f(n, xlog); }",
    "cuda": "blockDim.x = b; gridDim.x = geo; for (int bi = 0; bi < geo; bi++) for (int ti = 0; ti < b; ti++){ blockIdx.x = bi; threadIdx.x = ti; "
            "xv_KT[k].f(n, xlog); }",
}
DRIVER = f"""#include <stdio.h>
#include <stdlib.h>
#include <string.h>
#define XW {XW}
#define MAXS {MAXS}
struct xv_kt {{ void (*f)(const int, int*); int ns; }};
extern struct xv_kt xv_KT[]; extern int xv_NK;
extern void xv_launch(int k, int n, int b, int geo, int* xlog);
int main(int argc, char** argv){{
  int cfg[64][3], nc = 0; FILE* fc = fopen(argv[1], "r");
  while (nc < 64 && fscanf(fc, "%d %d %d", &cfg[nc][0], &cfg[nc][1], &cfg[nc][2]) == 3) nc++;
  fclose(fc);
  FILE* fo = fopen(argv[2], "wb"); int* xlog = malloc(sizeof(int) * XW * MAXS); int r[6];
  for (int k = 0; k < xv_NK; k++) for (int c = 0; c < nc; c++){{
    memset(xlog, 0, sizeof(int) * XW * MAXS);
    xv_launch(k, cfg[c][0], cfg[c][1], cfg[c][2], xlog);
    for (int s = 0; s < MAXS; s++){{ int* row = xlog + s * XW; int i = 0;
      while (i < XW){{ if (row[i] == 0){{ i++; continue; }} int j = i; while (j + 1 < XW && row[j + 1] == row[i]) j++;
        r[0] = k; r[1] = c; r[2] = s; r[3] = i - 1; r[4] = j - 1; r[5] = row[i]; fwrite(r, sizeof(int), 6, fo); i = j + 1; }} }}
  }}
  fclose(fo); return 0; }}
"""


def headers_for(target):
    """what the real context puts in front of the user's sources (taken from the tree at run time)"""
    if target == "cpu_serial":
        return "#include <stdint.h>\n"
    if target == "cpu_openmp":
        return "#include <omp.h>\n#include <stdint.h>\n"
    if target == "opencl":
        from xobjects.context_pyopencl import openclheader
        return "\n".join(openclheader) + "\n"
    from xobjects.context_cupy import cudaheader
    return "\n".join(cudaheader) + "\n"


# ----------------------------------------------------------------------------- line classes of real output (model-drift only)
_RX = [
    (re.compile(r"^\s*for \(int (\w+)=0; \1<(n|nlim|XV_LIM|nh|nlimh|n_half); \1\+\+\)\{ //autovectorized$"), "for"),
    (re.compile(r"^\s*int (\w+); //autovectorized$"), "decl"),
    (re.compile(r"^\s*(\w+)=get_global_id\(0\); //autovectorized$"), "gid"),
    (re.compile(r"^\s*(\w+)=blockDim\.x \* blockIdx\.x \+ threadIdx\.x;//autovectorized$"), "tid"),
    (re.compile(r"^\s*if \((\w+)<(n|nlim|XV_LIM|nh|nlimh|n_half)\)\{$"), "guard"),
]
_STM = re.compile(r"(?:XREC\(|XRECQ\(q, |_h\(xlog, )([^,]+), ([^)]+)\)")
_DEF = re.compile(r"^#define (XV_\w+)(?:\(j\))? (.*)$")


def classify(text, invsid):
    """real specialised text of one kernel -> list of abstract C lines as in XoSpecialize!Rewrite"""
    res, mac = [], {}

    def var(txt):
        txt = txt.strip()
        txt = mac.get(txt, txt).strip("() ")
        if txt == "-1":
            return -1
        return int(txt[1:]) if re.fullmatch(r"v\d+", txt) else txt

    def sidof(txt):
        txt = txt.strip()
        m = re.fullmatch(r"XV_SID\((\d+)\)", txt)
        if m:
            base = re.fullmatch(r"\((-?\d+)\+\(j\)\)", mac.get("XV_SID", ""))
            return invsid.get(int(base.group(1)) + int(m.group(1)), "?") if base else "?"
        return invsid.get(int(txt), "?") if txt.lstrip("-").isdigit() else "?"

    for ln in text.split("\n"):
        s = ln.strip()
        if not s or s == "}" or s.startswith("#undef") or "void k" in s or "void s" in s or re.fullmatch(r"const int \w+ = n(/2)?;", s):
            continue
        m = _DEF.match(s)
        if m:
            mac[m.group(1)] = m.group(2)
            continue
        if s in ("}//end autovectorized",):
            res.append({"o": "close"})
            continue
        if s.startswith("//end autovectorized") or s.startswith("//from file:") or s.startswith("//end file:"):
            res.append({"o": "cmt"})
            continue
        for rx, cls in _RX:
            m = rx.match(ln)
            if m:
                res.append({"o": cls, "v": var(m.group(1))})
                if cls in ("for", "guard"):                 # which bound the expansion tests: 1 = the half bound
                    res[-1]["h"] = 1 if m.group(2) in LIMH else 0
                break
        else:
            m = _STM.search(s)
            if m and s.startswith("//"):
                res.append({"o": "off", "id": sidof(m.group(1))})
            elif m:
                res.append({"o": "stmt", "id": sidof(m.group(1)), "v": var(m.group(2))})
            else:
                res.append({"o": "?", "text": s[:60]})
    return res


_HDR = re.compile(r"^(.*?)\bvoid (\w+)\(const int n,(.*?)\bint\*(.*?)\bxlog\)\{$")
_HLP = re.compile(r"^(.*?)\bvoid (\w+)_h\((.*?)\bint\*(.*?)\bxlog, int s, int i\)\{ XREC\(s, i\); \}$")


def qualifiers(text, kname, probe_fun):
    kern = mem = restr = fun = None
    for ln in text.split("\n"):
        m = _HLP.match(ln)
        if m and m.group(2) == kname:
            fun = m.group(1).split()
            continue
        m = _HDR.match(ln)
        if m and m.group(2) == kname:
            kern, mem, restr = m.group(1).split(), m.group(3).split(), m.group(4).split()
    if kern is None:
        kern, mem, restr = ["?header-line-not-found"], [], []
    return dict(kern=kern, mem=mem, restr=restr, fun=fun if fun is not None else probe_fun)


# ----------------------------------------------------------------------------- launch geometry from the real kernel classes
def launch_configs():
    return [(n, b) for n in NS_SMALL for b in BLOCKS] + BIG


def real_geometry(run):
    """drive the real KernelCupy.__call__ / KernelPyopencl.__call__ with a recording fake device function"""
    xo = C.use_repo()
    from xobjects.context_cupy import KernelCupy
    from xobjects.context_pyopencl import KernelPyopencl
    geo = {"cuda": {}, "opencl": {}, "cpu_serial": {}, "cpu_openmp": {}}
    seen = []

    class Ev:
        def wait(self):
            pass

    def fake_cu(grid, block, args, shared_mem=None):
        seen.append((int(grid[0]), int(block[0]), int(args[0])))

    def fake_cl(queue, gsize, lsize, *args):
        seen.append((int(gsize[0]), lsize, int(args[0])))
        return Ev()

    class Ctx:
        queue = None

    for n, b in launch_configs():
        desc = xo.Kernel(args=[xo.Arg(xo.Int32, name="n")], n_threads="n")
        desc.pyname = "k"
        try:
            KernelCupy(function=fake_cu, description=desc, block_size=b, context=Ctx(), shared_mem_size_bytes=0)(n=n)
            g, bb, nd = seen.pop()
            geo["cuda"][(n, b)] = (nd, bb, g)
        except Exception as ex:      # noqa
            run.report("launch:cuda:raised", f"KernelCupy.__call__(n={n}) with block_size={b} raised {type(ex).__name__}: {ex}",
                       dict(kind="launch", target="cuda", n=n, block=b))
        try:
            KernelPyopencl(function=fake_cl, description=desc, context=Ctx())(n=n)
            g, ls, nd = seen.pop()
            geo["opencl"][(n, b)] = (nd, 0, g)
            if ls is not None:
                run.notes["opencl_local_size"] = str(ls)
        except Exception as ex:      # noqa
            run.report("launch:opencl:raised", f"KernelPyopencl.__call__(n={n}) raised {type(ex).__name__}: {ex}",
                       dict(kind="launch", target="opencl", n=n))
        geo["cpu_serial"][(n, b)] = geo["cpu_openmp"][(n, b)] = (n, 0, 1)
    return geo


def target_cfgs(geo, t):
    """[(n asked, block, (n delivered, block used, geometry))] without duplicates for targets that ignore the block"""
    res, done = [], set()
    for (n, b) in launch_configs():
        if (n, b) not in geo[t]:
            continue
        key = (n, b) if t == "cuda" else n
        if key in done:
            continue
        done.add(key)
        res.append((n, b if t == "cuda" else 0, geo[t][(n, b)]))
    return res


# ----------------------------------------------------------------------------- compile + run one chunk
def _cc(args, cwd):
    p = subprocess.run(args, cwd=cwd, capture_output=True, text=True)
    return p.returncode, p.stdout + p.stderr


def build_and_run(wd, t, kernels, geo, driver_o):
    """kernels: [(kname, specialised text, ns)] -> (runs per kernel index {ci: [(sid,lo,hi,c)]}, set of kernel indices not built)"""
    cfgs = target_cfgs(geo, t)
    open(os.path.join(wd, f"cfg_{t}.txt"), "w").write("".join(f"{g[0]} {g[1]} {g[2]}\n" for _, _, g in cfgs))
    notbuilt, errors = set(), {}
    alive = list(range(len(kernels)))
    def tu(macros, sim, tail=True):
        head = headers_for(t)
        if t in ("opencl", "cuda"):
            from xobjects.specialize_source import specialize_source
            head = specialize_source(head, specialize_for=t) + "\ntypedef int64_t xv_probe64; typedef uint8_t xv_probe8;\n"
        parts = [head, macros, sim]
        line = 1 + sum(p.count("\n") + 1 for p in parts)
        spans = []
        for i in alive:
            txt = kernels[i][1]
            nl = txt.count("\n") + 1
            spans.append((line, line + nl, i))
            parts.append(txt)
            line += nl
        if tail:
            parts.append("struct xv_kt { void (*f)(const int, int*); int ns; };")
            parts.append("struct xv_kt xv_KT[] = {" + ",".join(f"{{{kernels[i][0]},{kernels[i][2]}}}" for i in alive) + ",{0,0}};")
            parts.append(f"int xv_NK = {len(alive)};")
            parts.append("void xv_launch(int k, int n, int b, int geo, int* xlog){ " + LAUNCH[t] + " }")
        return "\n".join(parts) + "\n", spans

    def blame(out, fname, spans):
        bad = set()
        for m in re.finditer(re.escape(fname) + r":(\d+):\d+: error", out):
            ln = int(m.group(1))
            for a, b_, i in spans:
                if a <= ln < b_:
                    bad.add(i)
                    errors.setdefault(i, out[m.start():m.start() + 300])
        return bad

    for attempt in range(6):
        text, spans = tu(MACROS, SIM[t])
        src = os.path.join(wd, f"tu_{t}.c")
        open(src, "w").write(text)
        flags = ["-std=c99", "-O1", "-w"] + (["-fopenmp"] if t == "cpu_openmp" else [])
        rc, out = _cc(["gcc", *flags, "-c", src, "-o", src[:-2] + ".o"], wd)
        if rc == 0:
            break
        bad = blame(out, f"tu_{t}.c", spans)
        if not bad:
            raise C.MachineryError(f"host compiler failed outside generated kernels ({t}):\n" + out[:2000])
        notbuilt |= bad
        alive = [i for i in alive if i not in bad]
    else:
        raise C.MachineryError(f"could not isolate failing kernels ({t})")
    if t == "opencl" and _WORK.get("clang_cl"):
        # the same expansions through a real OpenCL C front end (the standard the context builds with), keywords NOT defined away
        text, spans = tu(MACROS_CL, "", tail=False)
        clsrc = os.path.join(wd, "tu_opencl.cl")
        open(clsrc, "w").write(text)
        rc, out = _cc(["clang", "-x", "cl", "-cl-std=CL2.0", "-Xclang", "-finclude-default-header", "-fsyntax-only", "-w", clsrc], wd)
        if rc != 0:
            bad = blame(out, "tu_opencl.cl", spans)
            if not bad:
                raise C.MachineryError("OpenCL front end failed outside generated kernels:\n" + out[:2000])
            notbuilt |= bad
    exe = os.path.join(wd, f"tu_{t}")
    rc, out = _cc(["gcc", src[:-2] + ".o", driver_o, "-o", exe] + (["-fopenmp"] if t == "cpu_openmp" else []), wd)
    if rc != 0:
        raise C.MachineryError("link failed:\n" + out[:2000])
    outp = os.path.join(wd, f"out_{t}.bin")
    p = subprocess.run([exe, os.path.join(wd, f"cfg_{t}.txt"), outp], cwd=wd, capture_output=True, text=True, timeout=600)
    if p.returncode != 0:
        raise C.MachineryError(f"driver crashed ({t}) rc={p.returncode}: {p.stderr[:500]}")
    raw = open(outp, "rb").read()
    res = [collections.defaultdict(list) for _ in kernels]
    for k, c, s, lo, hi, cnt in struct.iter_unpack("<6i", raw):
        res[alive[k]][c].append((s, lo, hi, cnt))
    return res, notbuilt, errors, cfgs


def expected_runs(cls, t, n):
    """mirror of XoSpecialize!StmtClause, only used to pre-sort records (the verdict is TLC's)"""
    if cls == "blk":
        return [(0, n - 1, 1)] if n > 0 else []
    if cls == "blkh":             # block over n/2 in a launch over n: CPU and CUDA stop at the bound, OpenCL runs every work-item
        lim = n if t == "opencl" else n // 2
        return [(0, lim - 1, 1)] if lim > 0 else []
    if cls == "off":
        return []
    return [(-1, -1, 1)] if t.startswith("cpu") else None        # None = the contract does not say


_WORK = {}


def observe_sources(recs, ci, root, geo, probe_fun, driver_o):
    """render, rewrite with the REAL specialize_source, classify, compile, execute -> (observations per (source,target), drift)"""
    from xobjects.specialize_source import specialize_source
    wd = os.path.join(root, f"chunk{ci}")
    os.makedirs(wd, exist_ok=True)
    per_t = {t: [] for t in TARGETS}
    meta, drift, drift_ex, outrecs = [], collections.Counter(), {}, []
    for k, rec in enumerate(recs):
        kname = f"k{k}"
        text, sid, folder = render(rec, kname, variant=k + ci)
        inv = {v: a for a, v in sid.items()}
        meta.append((text, sid, inv))
        for t in TARGETS:
            try:
                sp = specialize_source(text, specialize_for=t, search_in_folders=[os.path.join(root, folder)])
            except Exception as ex:      # noqa: a well-formed source must be accepted; judged by TLC as "does not build"
                per_t[t].append((kname, None, len(sid), f"specialize_source raised {type(ex).__name__}: {ex}"))
                continue
            per_t[t].append((kname, sp, len(sid), None))
            got = classify(sp, inv)
            if got != rec["tg"][t]["rw"]:
                cls = next((f"{a.get('o')}->{b.get('o')}" for a, b in zip(rec["tg"][t]["rw"], got) if a != b), "length")
                drift[f"{t}:{cls}"] += 1
                drift_ex.setdefault(f"{t}:{cls}", dict(src=rec["src"], model=rec["tg"][t]["rw"], real=got))
    stub = "void {0}(const int n, int* xlog){{}}"
    for t in TARGETS:
        runs, notbuilt, errors, cfgs = build_and_run(wd, t, [(a, sp if sp is not None else stub.format(a), ns) for (a, sp, ns, _) in per_t[t]],
                                                     geo, driver_o)
        for k, rec in enumerate(recs):
            text, sid, inv = meta[k]
            kname, sp, ns, exc = per_t[t][k]
            built = 1 if (sp is not None and k not in notbuilt) else 0
            cfgout, conform = [], bool(built)
            clsmap = dict((a, b) for a, b in rec["tg"][t]["cls"])
            for c, (n, b, g) in enumerate(cfgs):
                rr = sorted((inv.get(s, 900 + s), lo, hi, cnt) for s, lo, hi, cnt in runs[k].get(c, []))
                cfgout.append([n, b, [list(r) for r in rr]])
                if conform:
                    byid = collections.defaultdict(list)
                    for a, lo, hi, cnt in rr:
                        byid[a].append((lo, hi, cnt))
                    for a, cl in clsmap.items():
                        e = expected_runs(cl, t, n)
                        if e is not None and byid.get(a, []) != e:
                            conform = False
                    if any(a not in clsmap for a in byid):
                        conform = False
            q = qualifiers(sp, kname, probe_fun[t]) if sp is not None else dict(kern=[], mem=[], restr=[], fun=[])
            if sp is not None and any(sorted(q[x]) != sorted(rec["tg"][t]["q"][x]) for x in q):
                drift[f"{t}:qualifiers"] += 1
                drift_ex.setdefault(f"{t}:qualifiers", dict(model=rec["tg"][t]["q"], real=q))
            outrecs.append(dict(src=rec["src"], t=t, built=built, q=q, cfg=cfgout, conform=conform, k=k,
                                info=dict(text=text, specialised=sp, error=(exc or errors.get(k, ""))[:400])))
    shutil.rmtree(wd, ignore_errors=True)
    return outrecs, drift, drift_ex


def judge(sel, recs_by_k):
    """TLC verdicts for observation records -> (violations [(key, desc, replay, srclen)], clause counter, tlc totals, mismatches)"""
    rver, _, tot = validate(sel, [], nbatch=1)
    viol, clauses, mism = [], collections.Counter(), 0
    for r, v in zip(sel, rver):
        clauses[v[0] or "ok"] += 1
        if r["conform"] is True and v[0] and not v[0].startswith("qualifier"):
            raise C.MachineryError(f"pre-comparison accepted a record that TLC rejects ({v}); harness out of sync with the spec")
        if r["conform"] is False and not v[0]:
            mism += 1
        if v[0]:
            key = classify_key(r, v)
            desc = (f"target {r['t']}: {v[0]} at n={v[1]} block={v[2]} statement={v[3]}; source={json.dumps(r['src'])}; "
                    f"{r['info']['error']}")
            full = recs_by_k(r)
            if full is not None:
                full = dict(full, tg={t: dict(cls=x["cls"], q=x["q"], rw=x["rw"]) for t, x in full["tg"].items()})
            viol.append((key, desc, dict(kind="kernel", rec=full, target=r["t"], clause=v[0], n=v[1], block=v[2], statement=v[3],
                                         source_text=r["info"]["text"], specialised=r["info"]["specialised"],
                                         observed=[c for c in r["cfg"] if c[0] == v[1]][:3]), len(r["src"])))
    return viol, clauses, tot, mism


def process_chunk(job):
    """worker: one file of exported sources -> executed, judged by TLC, summarised (nothing big is returned)"""
    ci, path, frac, seed = job
    recs = [json.loads(json.loads(ln)) for ln in open(path)]
    obs, drift, drift_ex = observe_sources(recs, ci, _WORK["root"], _WORK["geo"], _WORK["probe_fun"], _WORK["driver_o"])
    rng = random.Random(seed * 7919 + ci)
    keep = set(k for k in range(len(recs)) if rng.random() < frac)
    sel = [o for o in obs if not o["conform"] or o["k"] in keep]
    viol, clauses, tot, mism = judge(sel, lambda r: recs[r["k"]])
    # keep the smallest witness per key only; counts are kept
    best, counts = {}, collections.Counter()
    for key, desc, rep, n in viol:
        counts[key] += 1
        if key not in best or n < best[key][2]:
            best[key] = (desc, rep, n)
    stats = collections.Counter()
    for r in recs:
        hs = []                   # bound selectors of the kernel's blocks in order (the block of included file fb has the bound n)
        for ln in r["src"]:
            stats["kind:" + ln["k"]] += 1
            if ln["k"] == "vec":
                stats[f"kind:vec-bound-{'n/2' if ln['h'] else 'n'}"] += 1
                hs.append(ln["h"])
            elif ln["k"] == "inc" and ln["f"] == "fb":
                hs.append(0)
        if len(hs) > 1:
            if any(a == 1 and b == 0 for i, a in enumerate(hs) for b in hs[i + 1:]):
                stats["bounds:short-block-before-full-block"] += 1
            if any(a == 0 and b == 1 for i, a in enumerate(hs) for b in hs[i + 1:]):
                stats["bounds:full-block-before-short-block"] += 1
            if all(hs):
                stats["bounds:several-short-blocks"] += 1
            if not any(hs):
                stats["bounds:several-full-blocks"] += 1
        for t in TARGETS:
            for _, cl in r["tg"][t]["cls"]:
                stats[f"class:{t}:{cl}"] += 1
    sample = next((dict(target=o["t"], source_text=o["info"]["text"], specialised=o["info"]["specialised"], launches=o["cfg"][3:6])
                   for o in obs if o["t"] == "cuda" and any(r[1] >= 0 for c in o["cfg"] for r in c[2])), None)
    return dict(pairs=len(obs), launches=sum(len(o["cfg"]) for o in obs), validated=len(sel),
                deviants=sum(1 for o in obs if not o["conform"]), drift=dict(drift), drift_ex=dict(list(drift_ex.items())[:2]),
                clauses=dict(clauses), tlc=tot, mism=mism, best=best, counts=dict(counts), stats=dict(stats), sample=sample)


# ----------------------------------------------------------------------------- TLC trace validation
TRACE_CFG = ('SPECIFICATION TraceSpec\nCONSTANTS MaxLen = 0 Ns = {} MaxHalf = 0 Blocks = {} CtxSets = {} IncFa = {} IncFb = {} IncFc = {} Kinds = {} '
             'Part = 0 NParts = 1\nCHECK_DEADLOCK FALSE\n')


def validate(recs, texts, nbatch=None):
    """recs: observations of (source,target) -> (verdict per rec: (clause, n, b, id), verdict per text, tlc totals)"""
    tot = dict(generated=0, distinct=0)
    if not recs and not texts:
        return [], [], tot
    groups = collections.OrderedDict()           # one TLC record per source, its targets' observations inside
    for i, r in enumerate(recs):
        groups.setdefault(json.dumps(r["src"], sort_keys=True), []).append(i)
    glist = list(groups.values())
    nbatch = nbatch or max(1, min(C.NCPU, (len(glist) + 399) // 400))
    size = (len(glist) + nbatch - 1) // nbatch if glist else 0
    batches = [glist[i:i + size] for i in range(0, len(glist), size)] if glist else [[]]
    rver = [None] * len(recs)
    tver = [None] * len(texts)

    def one(bi):
        wd = C.scratch("c16tr")
        path = os.path.join(wd, "trace.json")
        tx = texts if bi == 0 else []
        json.dump(dict(recs=[dict(src=recs[g[0]]["src"], obs=[dict(t=recs[i]["t"], built=recs[i]["built"], q=recs[i]["q"],
                                                                  cfg=recs[i]["cfg"]) for i in g]) for g in batches[bi]],
                       texts=tx), open(path, "w"), separators=(",", ":"))
        open(os.path.join(wd, "tr.cfg"), "w").write(TRACE_CFG)
        res = C.run_tlc("XoSpecializeTrace", "tr.cfg", workdir=wd, workers=1, timeout=3000, env={"TRACE_FILE": path}, jvm=JVM_SMALL)
        vs = C.tlc_tuples(res["out"], "VERDICT")
        ts = C.tlc_tuples(res["out"], "TVERDICT")
        want = sum(len(g) for g in batches[bi])
        if res["rc"] != 0 or len(vs) != want or len(ts) != len(tx):
            raise C.MachineryError(f"trace validation batch {bi}: rc={res['rc']} verdicts={len(vs)}/{want} "
                                   f"texts={len(ts)}/{len(tx)}\n" + "\n".join(l for l in res["out"].splitlines()
                                                                               if not l.startswith("<<"))[-3000:])
        shutil.rmtree(wd, ignore_errors=True)
        return bi, vs, ts, res

    with ThreadPoolExecutor(max_workers=C.NCPU) as ex:
        for bi, vs, ts, res in ex.map(one, range(len(batches))):
            for v in vs:
                rver[batches[bi][v[1] - 1][v[2] - 1]] = v[3:]
            for v in ts:
                tver[v[1] - 1] = v[2]
            tot["generated"] += res["generated"]
            tot["distinct"] += res["distinct"]
    return rver, tver, tot


# ----------------------------------------------------------------------------- unannotated text passes through unchanged
MARKERS = ["//vectorize_over", "//end_vectorize", "//only_for_context", "//include_file", "/*gpukern*/", "/*gpufun*/",
           "/*gpuglmem*/", "/*restrict*/"]
LOOKALIKES = ["// vectorize_over ii n", "/ /vectorize_over ii n", "//vectorize_ove ii n", "//Vectorize_over ii n", "/*vectorize_over*/",
              "//end_vectoriz", "// end_vectorize", "//END_VECTORIZE", "//only_for_contex cuda", "// only_for_context cuda",
              "//only-for-context opencl", "//include_fil a.h for_context cuda", "// include_file a.h for_context cuda",
              "for_context cuda opencl", "x = y; // for_context cpu_serial", "/*gpukern */", "/* gpukern*/", "/*GPUKERN*/", "/*gpufun",
              "gpufun*/", "/*gpuglmem* /", "/*restrict *", "/ *restrict*/", "//autovectorized", "}//end autovectorized",
              "int ii; //autovectorized", "//from file: a.h", "__kernel __global restrict", "#include <math.h>", "#pragma omp parallel for",
              "{", "}", "}}", "{ {", "", " ", "\t", "    ", "a = \"//\";", "b = '\\\\';", "c = \"%d\\n\";", "#define X(a) \\", "  trailing  ",
              "\ttab\t", "/* open comment", "close comment */", "// just a comment", "///", "//", "/", "*/", "/*"]


def text_cases(rng, n, root):
    from xobjects.specialize_source import specialize_source
    alpha = "abcxyz019 _;=+-*/%(){}[]<>&|!#\"'\\.,:?~^\t"
    cases = []
    for ci in range(n):
        lines = []            # (annotated?, text)
        nl = rng.choice([0, 1, 2, 3, 5, 8, 12])
        inblock = False
        for _ in range(nl):
            x = rng.random()
            if x < 0.45:
                lines.append((0, rng.choice(LOOKALIKES)))
            elif x < 0.7:
                lines.append((0, "".join(rng.choice(alpha) for _ in range(rng.randint(0, 24)))))
            elif x < 0.8:
                if inblock:
                    lines.append((1, rng.choice(["//end_vectorize", "    }//end_vectorize", "//end_vectorize  "])))
                else:
                    lines.append((1, rng.choice(["//vectorize_over ii n", "int ii=0; //vectorize_over ii n", "\t//vectorize_over  jj   nn "])))
                inblock = not inblock
            elif x < 0.9:
                lines.append((1, rng.choice(["x=1;", "", "}"]) + " //only_for_context " + " ".join(rng.sample(TARGETS, rng.randint(0, 3)))))
            elif x < 0.95:
                lines.append((1, "//include_file xv_text.h for_context " + " ".join(rng.sample(TARGETS, rng.randint(1, 4)))))
            else:
                lines.append((1, rng.choice(MARKERS[4:]) + " void f(/*gpuglmem*/ int* /*restrict*/ p)"))
        if inblock:
            lines.append((1, "//end_vectorize"))
        if any(any(m in txt for m in MARKERS) for a, txt in lines if a == 0):
            raise C.MachineryError("generator produced a marker inside unannotated text")
        lines.append((0, "/*end of text*/"))       # a text is a sequence of newline-terminated lines; the sentinel keeps a final
                                                    # empty line and an empty output distinguishable from "no line"
        cases.append(lines)
    return cases


FTXTS = [["int from_file;", "", "  // vectorize_over not an annotation", "}"],
         ["#define FROM_OTHER_FOLDER 1", "{ /* same name, other content */"],
         [],
         # an included file that itself carries an include line naming ONE context: whatever the rewriter makes of that line (the
         # pinned tree passes it through as text), the file it names must never be spliced for a context the line does not name
         ["int outer_part;", "//include_file xv_inner.h for_context cuda", "int after_inner;"]]
NESTED = {3: ("cuda", ["int INNER_ONLY_FOR_CUDA;", "#define XV_INNER 1"])}


def run_text_case(lines, t, root, tok, variant=0):
    """real rewriter on one text for one target -> record for TLC (tokens = identity of exact line texts)"""
    from xobjects.specialize_source import specialize_source
    src = "\n".join(txt for _, txt in lines)
    ftxt = FTXTS[variant % len(FTXTS)]
    try:
        sp = specialize_source(src, specialize_for=t, search_in_folders=[os.path.join(root, f"txt{variant % len(FTXTS)}")])
        got = sp.split("\n")
    except Exception as ex:      # noqa
        got = [f"<<raised {type(ex).__name__}: {ex}>>"]
    inp, forb = [], []
    for a, txt in lines:
        inp.append([a, tok.setdefault(txt, len(tok) + 1)])
        if a == 1 and "//include_file" in txt and t in txt.split("for_context")[-1].split():
            inp += [[1 if "//include_file" in x else 0, tok.setdefault(x, len(tok) + 1)] for x in ftxt] + [[1, 0]]
            nest = NESTED.get(variant % len(FTXTS))
            if nest and t != nest[0]:
                forb = [tok.setdefault(x, len(tok) + 1) for x in nest[1]]
    return dict(inp=inp, out=[tok.setdefault(x, len(tok) + 1) for x in got], t=t, lines=[list(x) for x in lines], got=got,
                variant=variant, forb=forb)


def run_text_cases(cases, root, variants=None):
    for i, ftxt in enumerate(FTXTS):
        os.makedirs(os.path.join(root, f"txt{i}"), exist_ok=True)
        open(os.path.join(root, f"txt{i}", "xv_text.h"), "w").write("".join(x + "\n" for x in ftxt))
        if i in NESTED:
            open(os.path.join(root, f"txt{i}", "xv_inner.h"), "w").write("".join(x + "\n" for x in NESTED[i][1]))
    tok, out = {}, []
    for i, lines in enumerate(cases):
        for t in TARGETS:
            out.append(run_text_case(lines, t, root, tok, variants[i] if variants else i))
    return out


# ----------------------------------------------------------------------------- sample through the real CPU contexts
def context_sample(run, recs, root, n_list):
    """whole translation unit through the real ctx.add_kernels (specialize + cffi build) and the real kernel call"""
    import numpy as np
    xo = C.use_repo()
    out = []
    os.chdir(root)
    # serial and OpenMP contexts (two and ONE thread: an OpenMP context whatever the thread count), each building twice with
    # kernel calls in between and the builds of the contexts interleaved: what a build produces depends neither on what was
    # built or called before in the context nor on the other contexts of the process
    ctxs = [("cpu_serial", xo.ContextCpu()), ("cpu_openmp", xo.ContextCpu(omp_num_threads=2)), ("cpu_openmp", xo.ContextCpu(omp_num_threads=1))]
    half = (len(recs) + 1) // 2
    for rnd, ci in [(r, c) for r in (0, 1) for c in range(len(ctxs))]:
        tname, ctx = ctxs[ci]
        part = list(enumerate(recs))[:half] if rnd == 0 else list(enumerate(recs))[half:]
        if len(recs) == 1:          # (replay of one kernel: the same kernel in both builds)
            part = list(enumerate(recs))
        if not part:
            continue
        ctx._compile_kernels_info = False
        texts, descs, meta = [MACROS], {}, {}
        for k, rec in part:
            text, sid, folder = render(rec, f"s{k}", fixed=True)
            texts.append(text)
            meta[k] = {v: a for a, v in sid.items()}
            descs[f"s{k}"] = xo.Kernel(args=[xo.Arg(xo.Int32, name="n"), xo.Arg(xo.Int32, pointer=True, name="xlog")], n_threads="n")
        import pathlib
        path = pathlib.Path(root) / "inc_fa_fb_fc" / f"xv_sample_{tname}_{ci}_{rnd}.c"
        path.write_text("\n".join(texts) + "\n")
        try:
            ctx.add_kernels(sources=[path], kernels=descs, extra_compile_args=("-O0", "-w"), extra_link_args=("-O0",))
        except Exception as ex:      # noqa
            run.report(f"context-build:{tname}", f"add_kernels on {ctx} (build {rnd + 1}) failed for a translation unit of {len(part)} well-formed "
                       f"kernels: {type(ex).__name__}: {str(ex)[:300]}", dict(kind="context", target=tname, srcs=[r["src"] for _, r in part]))
            continue
        if tname == "cpu_openmp" and not ctx.openmp_enabled:
            raise C.MachineryError("OpenMP context not enabled")
        for k, rec in part:
            cfg = []
            for n in n_list:
                log = np.zeros(XW * MAXS, dtype=np.int32)
                ctx.kernels[f"s{k}"](n=n, xlog=log)
                rows = log.reshape(MAXS, XW)
                rr = []
                for s in range(MAXS):
                    row, i = rows[s], 0
                    while i < XW:
                        if row[i] == 0:
                            i += 1
                            continue
                        j = i
                        while j + 1 < XW and row[j + 1] == row[i]:
                            j += 1
                        rr.append([meta[k].get(s, 900 + s), i - 1, j - 1, int(row[i])])
                        i = j + 1
                cfg.append([n, 0, sorted(rr)])
            q = dict(kern=[], mem=[], restr=[], fun=[])        # qualifier words are judged on the per-kernel path
            out.append(dict(src=rec["src"], t=tname, built=1, q=q, cfg=cfg, conform=None,
                            info=dict(text=f"(whole TU through ctx.add_kernels on {ctx}, omp_num_threads={ctx.omp_num_threads}, build {rnd + 1} of that context)", specialised=None, error="")))
    return out


# ----------------------------------------------------------------------------- informational probes (never a verdict)
def info_probes(run, root):
    from xobjects.specialize_source import specialize_source
    src = ("/*gpukern*/ void kr(const int n, /*gpuglmem*/ int* /*restrict*/ xlog){\n int ii=0; //vectorize_over ii n\n XREC(0, ii);\n"
           " //end_vectorize\n int ii=0; //vectorize_over ii n\n XREC(1, ii);\n //end_vectorize\n}\n")
    res = {}
    for t in TARGETS:
        sp = specialize_source(src, specialize_for=t)
        p = os.path.join(root, f"probe_{t}.c")
        open(p, "w").write(MACROS + SIM[t] + sp)
        rc, out = _cc(["gcc", "-std=c99", "-w", "-fsyntax-only", p], root)
        res[t] = "compiles" if rc == 0 else "does not compile: " + (re.search(r"error: (.*)", out) or [None, "?"])[1][:80]
    run.notes["info_reuse_loop_variable"] = res
    # CUDA is C++ and the context wraps the source in extern "C"{}: the cuda expansion of a block + helper as C++ (information only)
    src2 = ("/*gpufun*/ void kh(/*gpuglmem*/ int* /*restrict*/ xlog, int s, int i){ XREC(s, i); }\n"
            "/*gpukern*/ void kc(const int n, /*gpuglmem*/ int* /*restrict*/ xlog){\n int ii=0; //vectorize_over ii n\n kh(xlog, 0, ii);\n"
            " { /*gpuglmem*/ int* /*restrict*/ q = xlog; XRECQ(q, 1, ii); }\n //end_vectorize\n}\n")
    p = os.path.join(root, "probe_cuda_cxx.cpp")
    open(p, "w").write(MACROS + SIM["cuda"].replace("#define __restrict__ restrict\n", "") +
                       specialize_source('extern "C"{\n' + src2 + "}\n", specialize_for="cuda"))
    rc, out = _cc(["g++", "-w", "-fsyntax-only", p], root)
    run.notes["info_cuda_expansion_as_cxx"] = "compiles" if rc == 0 else "does not compile: " + out[:200]
    sp = specialize_source("a\r\nb\x0cc\n", specialize_for="cpu_serial")
    run.notes["info_line_terminators"] = dict(input="a\\r\\nb\\x0cc\\n", output=repr(sp),
                                              note="str.splitlines: CRLF/form feed/final newline are normalised; not judged")


# ----------------------------------------------------------------------------- the check
def classify_key(r, v):
    """stable failure class: clause, target family, whether the statement sits in an included file / kind of line"""
    clause, n, b, sid = v
    kind = ""
    if isinstance(sid, int) and sid >= 0:
        p, j = divmod(sid, 10)
        if 1 <= p <= len(r["src"]):
            ln = r["src"][p - 1]
            kind = ":" + ln["k"] + (f"-{ln['f']}" if ln["k"] == "inc" else "")
    return f"{clause}:{r['t']}{kind}"


def check(pid, argv=None):
    run = C.Run(pid, argv)
    try:
        _check(run)
    except SystemExit:
        raise
    except BaseException:
        os.chdir(C.VERIF)
        shutil.rmtree(run.tmp, ignore_errors=True)       # finish() was not reached
        raise


def _check(run):
    tier = run.tier
    xo = C.use_repo()
    run.assumptions += [
        "contract (XoSpecialize part A) transcribes C16; unvectorised statements are only required to run once per call on CPU",
        "opencl/cuda expansions are executed on the host: __kernel/__global/__global__/__device__ are defined away, get_global_id and "
        "blockDim/blockIdx/threadIdx are driven by a launch loop with the geometry the real KernelPyopencl/KernelCupy compute",
        "whether a real OpenCL/CUDA runtime accepts a launch with zero work-items/blocks (n=0) cannot be observed here",
        "loop variables are distinct per block within a kernel and context names are the four target names (usage rules)",
        "the bound of a block is the launch size n (n_threads) or a smaller variable of the kernel (n/2); a block whose bound exceeds "
        "the launch size is outside the vocabulary (the GPU expansions cannot cover it)",
        "a block shorter than the launch on opencl: once per work-item (indices 0..n-1), C16 promises a bound guard on CUDA only",
        "an include line INSIDE an included file: only 'the file it names is not spliced for a context the line does not name' is claimed (what else happens to the line is not judged); only_for_context on vectorize_over/end_vectorize lines is outside the vocabulary",
        "text is compared as a sequence of newline-terminated lines (str.splitlines normalisation of CR/FF is not judged)",
    ]
    root = run.tmp
    write_files(root)
    os.chdir(root)
    rng = random.Random(run.seed * 1000003 + 16)
    t_all = time.time()

    # ---- geometry from the real kernel classes, harness pieces
    geo = real_geometry(run)
    run.notes["geometry"] = {t: {f"n={n},block={b}": list(g) for (n, b), g in list(geo[t].items())[:4] + list(geo[t].items())[-3:]}
                             for t in ("cuda", "opencl")}
    from xobjects.specialize_source import specialize_source
    probe_fun = {t: specialize_source("/*gpufun*/ void", specialize_for=t).split("void")[0].split() for t in TARGETS}
    open(os.path.join(root, "driver.c"), "w").write(DRIVER)
    rc, out = _cc(["gcc", "-std=c99", "-O1", "-w", "-c", "driver.c", "-o", "driver.o"], root)
    if rc != 0:
        raise C.MachineryError("driver does not compile:\n" + out[:2000])
    open(os.path.join(root, "probe.cl"), "w").write("__kernel void k(const int n, __global int* x){ atomic_inc(&x[get_global_id(0)]); }\n")
    rc, out = _cc(["clang", "-x", "cl", "-cl-std=CL2.0", "-Xclang", "-finclude-default-header", "-fsyntax-only", "probe.cl"], root)
    run.notes["opencl_front_end"] = "clang -x cl -cl-std=CL2.0 (syntax/semantic check of every opencl expansion)" if rc == 0 else "not available"
    _WORK.update(geo=geo, root=root, probe_fun=probe_fun, driver_o=os.path.join(root, "driver.o"), clang_cl=(rc == 0))
    violations = []            # (key, desc, replay, srclen, count)
    clause_count = collections.Counter()

    if run.replay:
        rp = json.load(open(run.replay))["replay"]
        texts, ctx_recs = [], []
        if rp.get("kind") == "text":
            c = rp["case"]
            texts = [x for x in run_text_cases([[tuple(x) for x in c["lines"]]], root, [c.get("variant", 0)]) if x["t"] == c["t"]]
        elif rp.get("kind") == "kernel":
            obs, _, _ = observe_sources([rp["rec"]], 0, root, geo, probe_fun, _WORK["driver_o"])
            viol, clauses, tot, _ = judge(obs, lambda r: rp["rec"])
            clause_count.update(clauses)
            run.cov["states"] += tot["distinct"]
            run.cov["transitions"] += tot["generated"]
            run.cov["traces_validated_against_impl"] += len(obs)
            violations += [(k_, d, r, n, 1) for k_, d, r, n in viol]
            ctx_recs = [rp["rec"]]
        elif rp.get("kind") == "context":
            ctx_recs = rp["recs"]
    else:
        # ---- TLC: model-level check of every profile, export of every source
        profs = PROFILES[tier]
        t1 = time.time()
        jobs = [(p, i) for p in profs for i in range(p["parts"])]
        with ThreadPoolExecutor(max_workers=min(len(jobs) + len(profs), C.NCPU)) as ex:
            mcf = [ex.submit(model_check, run, p, max(2, C.NCPU // 4)) for p in profs]
            gens = list(ex.map(lambda j: export_part(j[0], j[1], root), jobs))
            mcs = [f.result() for f in mcf]
        run.notes["model_checking"] = {}
        for p, res in zip(profs, mcs):
            run.add_tlc(res)
            run.notes["model_checking"][p["tag"]] = dict(states=res["distinct"], wall=round(res["wall"], 1))
        # distinct sources -> chunk files (an exported line depends on the source only, so equal sources give equal lines)
        seen, per_prof, nsrc, chunk_paths, cur = set(), collections.Counter(), 0, [], None
        reservoir = []
        for (p, i), (path, n, res) in zip(jobs, gens):
            run.cov["transitions"] += res["generated"]
            for ln in open(path):
                h = hash(ln)
                if h in seen:
                    continue
                seen.add(h)
                per_prof[p["tag"]] += 1
                if nsrc % CHUNK == 0:
                    if cur:
                        cur.close()
                    chunk_paths.append(os.path.join(root, f"chunk_{len(chunk_paths)}.txt"))
                    cur = open(chunk_paths[-1], "w")
                cur.write(ln)
                nsrc += 1
                if len(reservoir) < SAMPLE_CTX[tier]:
                    reservoir.append(ln)
                elif rng.random() < SAMPLE_CTX[tier] / nsrc:
                    reservoir[rng.randrange(SAMPLE_CTX[tier])] = ln
            os.remove(path)
        if cur:
            cur.close()
        del seen
        run.notes["sources_exported"] = dict(per_prof)
        run.notes["t_tlc_model_and_export"] = round(time.time() - t1, 1)
        if not nsrc:
            raise C.MachineryError("no sources exported")

        # ---- render, rewrite with the real code, compile, execute, TLC-validate: streamed through worker processes
        t1 = time.time()
        frac = min(1.0, TLC_CAP[tier] / (4.0 * nsrc))
        cjobs = [(ci, pth, frac, run.seed) for ci, pth in enumerate(chunk_paths)]
        agg = collections.Counter()
        drift, drift_ex, stats, sample_obs = collections.Counter(), {}, collections.Counter(), None
        best, counts = {}, collections.Counter()
        with ProcessPoolExecutor(max_workers=min(C.NCPU, len(cjobs))) as ex:
            for res in ex.map(process_chunk, cjobs):
                for k_ in ("pairs", "launches", "validated", "deviants", "mism"):
                    agg[k_] += res[k_]
                drift.update(res["drift"])
                stats.update(res["stats"])
                clause_count.update(res["clauses"])
                run.cov["states"] += res["tlc"]["distinct"]
                run.cov["transitions"] += res["tlc"]["generated"]
                for k_, v_ in res["drift_ex"].items():
                    drift_ex.setdefault(k_, v_)
                for key, (desc, rep, n) in res["best"].items():
                    counts[key] += res["counts"][key]
                    if key not in best or n < best[key][2]:
                        best[key] = (desc, rep, n)
                sample_obs = sample_obs or res["sample"]
        violations += [(key, d, r, n, counts[key]) for key, (d, r, n) in best.items()]
        run.notes["t_render_rewrite_compile_execute_validate"] = round(time.time() - t1, 1)
        run.notes["kernel_target_pairs_executed"] = agg["pairs"]
        run.notes["launches_recorded"] = agg["launches"]
        run.notes["records_differing_from_exported_expectation"] = agg["deviants"]
        run.notes["records_validated_by_tlc"] = agg["validated"]
        run.notes["tlc_validated_fraction_of_conforming_sources"] = round(frac, 3)
        run.notes["precompare_rejected_but_tlc_accepted"] = agg["mism"]
        run.notes["model_drift"] = dict(drift)
        if drift_ex:
            run.notes["model_drift_examples"] = {k_: v_ for k_, v_ in list(drift_ex.items())[:4]}
        run.cov["traces_validated_against_impl"] += agg["pairs"]
        run.cov["exhaustive"] = frac >= 1.0
        # vacuity: every class of expectation on every target, every line kind of the profiles
        run.notes["statement_classes_exercised"] = {k_[6:]: v_ for k_, v_ in stats.items() if k_.startswith("class:")}
        run.notes["line_kinds_enumerated"] = {k_[5:]: v_ for k_, v_ in stats.items() if k_.startswith("kind:")}
        run.notes["kernels_with_several_blocks_by_bounds"] = {k_[7:]: v_ for k_, v_ in stats.items() if k_.startswith("bounds:")}
        for k_ in ("short-block-before-full-block", "full-block-before-short-block", "several-full-blocks"):
            if not stats.get("bounds:" + k_):
                raise C.MachineryError(f"vacuous run: no kernel with {k_}")
        for t in TARGETS:
            for cl in ("blk", "blkh", "off", "free"):
                if not stats.get(f"class:{t}:{cl}"):
                    raise C.MachineryError(f"vacuous run: no statement of class {cl} on {t}")
        for k_ in ("plain", "mem", "fun", "vec", "vec-bound-n", "vec-bound-n/2", "end", "only", "inc"):
            if not stats.get("kind:" + k_):
                raise C.MachineryError(f"vacuous run: no line of kind {k_}")
        ctx_recs = [json.loads(json.loads(ln)) for ln in reservoir]
        for r in ctx_recs[:3]:
            run.sample(dict(src=r["src"], cuda_classes=r["tg"]["cuda"]["cls"]))
        if sample_obs:
            run.sample(sample_obs)
        texts = run_text_cases(text_cases(rng, NTEXT[tier], root), root)
        info_probes(run, root)

    # ---- sample through the real CPU contexts (whole translation unit, real add_kernels, real kernel call)
    t1 = time.time()
    obs_ctx = context_sample(run, ctx_recs, root, NS_SMALL + [7, 65]) if ctx_recs else []
    run.notes["real_context_kernel_calls"] = sum(len(o["cfg"]) for o in obs_ctx)
    run.notes["t_real_contexts"] = round(time.time() - t1, 1)
    run.notes["text_cases"] = len(texts)

    # ---- TLC validates context-sample executions and the text cases
    t1 = time.time()
    rver, tver, tot = validate(obs_ctx, [dict(inp=x["inp"], out=x["out"], forb=x.get("forb", [])) for x in texts])
    run.notes["t_tlc_validation_contexts_texts"] = round(time.time() - t1, 1)
    run.cov["states"] += tot["distinct"]
    run.cov["transitions"] += tot["generated"]
    run.cov["traces_validated_against_impl"] += len(obs_ctx) + len(texts)
    byk = {json.dumps(r["src"], sort_keys=True): r for r in ctx_recs}
    for r, v in zip(obs_ctx, rver):
        clause_count["ctx:" + (v[0] or "ok")] += 1
        if v[0]:
            full = byk.get(json.dumps(r["src"], sort_keys=True))
            violations.append((classify_key(r, v) + ":real-context",
                               f"{r['info']['text']} target {r['t']}: {v[0]} at n={v[1]} statement={v[3]}; source={json.dumps(r['src'])}",
                               dict(kind="kernel", rec=full, target=r["t"], clause=v[0], n=v[1], statement=v[3], via="ctx.add_kernels"),
                               len(r["src"]), 1))
    for x, v in zip(texts, tver):
        clause_count["text:" + (v or "ok")] += 1
        if v:
            shape = "with-annotations" if any(a for a, _ in x["inp"]) else "plain-only"
            violations.append((f"{v}:{shape}", f"target {x['t']}: {v}; source lines={[l[1] for l in x['lines']]!r} "
                               f"produced={x['got']!r}", dict(kind="text", case=x), len(x["lines"]), 1))
    run.notes["tlc_verdicts"] = dict(clause_count)

    # ---- report: smallest witness per failure class first, counts kept
    done = set()
    for key, desc, rep, n, cnt in sorted(violations, key=lambda v: (v[3], v[0])):
        first = key not in done
        done.add(key)
        st = run.report(key, desc, rep if first else None)
        for _ in range(min(cnt - 1, 20000)):
            run.report(key, desc, None)
    run.notes["t_total"] = round(time.time() - t_all, 1)
    os.chdir(C.VERIF)
    run.finish()
