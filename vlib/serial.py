"""Engine for C19: dictionary and JSON forms rebuild an equal object.

Part A (hybrid classes, to_dict / from_dict)
  model level : spec/XoSerial.tla states the two clauses (ELISION of fields equal to their declared default - every kind,
                renamed or not; ROUNDTRIP FromDict(ToDict(obj)) = obj) over class definitions = sequences of field
                descriptors [kind, default kind, renamed, value class]; TLC checks Satisfiable / RoundTrip / ElisionRespected /
                Exact on every class definition up to the tier's size (one state per definition).
  spec -> code: every enumerated definition (exported by XoSerialGen.tla with the contract's verdict per key: must / mustnot /
                may be present) is built as a REAL xo.HybridClass, the object is constructed, real to_dict() is compared key by
                key and value by value with the model, real from_dict(to_dict(x)) is compared with x field by field.
Part B (reference-free structs and 1-D arrays, _to_json / constructor)
  code -> spec: generated types (10 scalar kinds, strings, nested structs, static / dynamic 1-D arrays of scalars, structs,
                strings) x values; x = T(value); j = x._to_json(); y = T(j).  The tuples (type, value of x, json form, value of y)
                are recorded (scalars and strings as byte strings) and TLC validates them against ToJsonF of the spec
                (XoSerialTrace.tla): clause json-form / rebuilt.
"""
import collections, json, os, random, shutil, sys, time
from concurrent.futures import ThreadPoolExecutor, ProcessPoolExecutor
import numpy as np
from . import common as C
from . import hybrid_util as U

PROPERTIES = ["C19"]

# ============================================================================= Part A: real hybrid classes per case
_AUX = {}


def aux():
    """nested hybrid class and plain struct used as field types (once per process)"""
    if not _AUX:
        xo = U.xo()
        In = type("SerIn", (xo.HybridClass,), {"_xofields": {"p": xo.Field(xo.Int64, default=5), "q": xo.Float64[2]}})
        XS = type("SerXS", (xo.Struct,), {"u": xo.Int32, "w": xo.Float64[2, 2]})      # (a 2-D member: "scalar arrays of any shape")
        _AUX.update(In=In, XS=XS)
    return _AUX


CONTEXTS = ["plain", "repeat", "sub-inherit", "sub-redeclare"]


def field_plan(i, f, salt, as_parent=False):
    """-> dict(py, xn, ftype, value, default(or None), passed)   for descriptor f at position i.
    as_parent: the same field as a PARENT class declares it in context sub-redeclare: declared default = the 'other' value"""
    xo = U.xo()
    kind, dk, vc = f["kind"], f["dk"], f["vc"]
    py = f"f{i}"
    xn = f"_f{i}" if f["ren"] else py
    sk = U.SCALARS[(salt + 3 * i) % 10]
    isf = sk.startswith("Float")
    T = getattr(xo, sk)
    if kind == "sc":
        dv = (3 + i) + (0.5 if isf else 0)
        vals = dict(default=dv, zero=0, other=dv + 1)
        base, conv = T, (lambda v: v)
    elif kind == "str":
        dv = f"d{i}"
        vals = dict(default=dv, zero="", other=f"o{i}")
        base, conv = xo.String, (lambda v: v)
    elif kind == "arr":
        dv = [1 + i, 2 + i, 3 + i]
        vals = dict(default=dv, zero=[0, 0, 0], other=[2 + i, 3 + i, 4 + i])
        base, conv = T[3], (lambda v: list(v))
        if (salt + i) % 4 == 1:     # "scalar arrays of any shape": 2-D, the other value differs from the default OUTSIDE the first column only
            dv = [[1 + i, 2 + i, 3 + i], [4 + i, 5 + i, 6 + i]]
            vals = dict(default=dv, zero=[[0, 0, 0], [0, 0, 0]], other=[[1 + i, 2 + i, 3 + i], [4 + i, 5 + i, 9 + i]])
            base, conv = T[2, 3], (lambda v: [list(r) for r in v])
        elif (salt + i) % 4 == 3:   # 3-D in F order, differing in one inner item only
            dv = [[[1 + i, 2 + i], [3 + i, 4 + i]], [[5 + i, 6 + i], [7 + i, 8 + i]]]
            vals = dict(default=dv, zero=[[[0, 0], [0, 0]], [[0, 0], [0, 0]]], other=[[[1 + i, 2 + i], [3 + i, 4 + i]], [[5 + i, 6 + i], [7 + i, 0]]])
            base, conv = T[2:2, 2:1, 2:0], (lambda v: [[list(r) for r in m] for m in v])
    elif kind == "darr":
        dv = [1 + i, 2 + i]
        vals = dict(default=dv, zero=[], other=[5 + i, 6 + i], otherlen=[5 + i, 6 + i, 7 + i])
        if (salt + i) % 3 == 0:      # a one-element default and a longer value repeating that element: different arrays that
            dv = [4 + i]            # NumPy broadcasting would call equal
            vals = dict(default=dv, zero=[], other=[9 + i], otherlen=[4 + i, 4 + i, 4 + i])
        base, conv = T[:], (lambda v: list(v))
    elif kind == "nest":
        vals = dict(zero=dict(p=5, q=[0.0, 0.0]), other=dict(p=1, q=[1.0, 2.0]))
        base, dv, conv = aux()["In"], None, (lambda v: dict(v))
    else:
        vals = dict(zero=dict(u=0, w=[[0.0, 0.0], [0.0, 0.0]]), other=dict(u=3, w=[[4.0, 5.0], [6.0, 7.0]]))
        base, dv, conv = aux()["XS"], None, (lambda v: dict(v))
    if as_parent and kind in ("sc", "str", "arr", "darr"):
        ftype = xo.Field(base, default=conv(vals["other"]))
    elif dk == "default":
        ftype = xo.Field(base, default=conv(dv))
    elif dk == "factory":
        ftype = xo.Field(base, default_factory=(lambda d=dv, c=conv: c(d)))
    else:
        ftype = base
    value = vals[vc]
    # pass the value explicitly unless the constructor supplies exactly it and the salt says "leave it out"
    supplied = f["sup"] == vc
    passed = not (supplied and (salt + i) % 2 == 0)
    return dict(py=py, xn=xn, ftype=ftype, value=value, kind=kind, sk=sk, passed=passed, desc=f, other=vals["other"])


def _mk(name, bases, plans):
    ns = {"_xofields": {p["xn"]: p["ftype"] for p in plans}}
    ren = {p["xn"]: p["py"] for p in plans if p["xn"] != p["py"]}
    if ren:
        ns["_rename"] = ren
    return type(name, bases, ns)


def build_class(case, salt, ctx="plain"):
    """the class under test, defined and (for the history contexts) preceded by other conversions as ctx says"""
    xo = U.xo()
    plans = [field_plan(i, f, salt) for i, f in enumerate(case)]
    others = {p["py"]: p["other"] for p in plans}
    if ctx == "sub-redeclare":
        parent = _mk(U.uniq("SerP"), (xo.HybridClass,), [field_plan(i, f, salt, as_parent=True) for i, f in enumerate(case)])
        for kw in ({}, others):
            try:
                parent.from_dict(parent(**kw).to_dict())
            except Exception:
                pass                      # the parent's own conversions are other cases; here they are only history
        cls = _mk(U.uniq("SerH"), (parent,), plans)
    elif ctx == "sub-inherit":
        parent = _mk(U.uniq("SerP"), (xo.HybridClass,), plans)
        try:
            parent.from_dict(parent(**others).to_dict())
        except Exception:
            pass
        cls = type(U.uniq("SerH"), (parent,), {})
    else:
        cls = _mk(U.uniq("SerH"), (xo.HybridClass,), plans)
        if ctx == "repeat":
            try:
                cls.from_dict(cls(**others).to_dict())
            except Exception:
                pass
    return cls, plans


def field_equal(kind, got, want):
    """got: attribute read from a hybrid object (or dict entry), want: python value of the plan"""
    try:
        if kind == "sc":
            return U.same_scalar(got, want)
        if kind == "str":
            return isinstance(got, str) and got == want
        if kind in ("arr", "darr"):
            return U.same_array(got, np.asarray(want))
        if kind == "nest":          # hybrid object or its dictionary
            p = got["p"] if isinstance(got, dict) else got.p
            q = got["q"] if isinstance(got, dict) else got.q
            return U.same_scalar(p, want["p"]) and U.same_array(q, np.asarray(want["q"]))
        u = got["u"] if isinstance(got, dict) else got.u
        w = got["w"] if isinstance(got, dict) else got.w
        return U.same_scalar(u, want["u"]) and U.same_array(w, np.asarray(want["w"]))
    except Exception:
        return False


def fkey(f, with_vc=True):
    return f"{f['kind']}:{f['dk']}" + (f":{f['vc']}" if with_vc else "") + (":renamed" if f["ren"] else "")


def run_case(case, salt, ctx="plain", isolate=True):
    """-> dict(status, findings=[(key, desc)])   status in ok / violation / abandoned"""
    if ctx == "any":
        ctx = CONTEXTS[salt % len(CONTEXTS)]
    cls, plans = build_class(case, salt, ctx)
    kw = {p["py"]: p["value"] for p in plans if p["passed"]}
    label = "class{" + ", ".join(fkey(p["desc"]) for p in plans) + "}" + ("" if ctx == "plain" else f" [{ctx}]")
    try:
        x = cls(**kw)
        bad = [p for p in plans if not field_equal(p["kind"], getattr(x, p["py"]), p["value"])]
    except Exception as ex:
        return dict(status="abandoned", why=f"constructor {type(ex).__name__}", findings=[])
    if bad:
        return dict(status="abandoned", why="constructed object does not hold the values (C01)", findings=[])
    out = []

    def culprits(stage, exc):
        if not isolate or len(case) == 1:
            return [fkey(p["desc"]) for p in plans] if len(case) == 1 else ["?"]
        res = []
        for p in plans:
            r = run_case([p["desc"]], salt, ctx, isolate=False)
            if any(k.startswith(stage + ":raised:" + exc) for k, _ in r["findings"]):
                res.append(fkey(p["desc"]))
        return sorted(set(res)) or ["interaction"]

    try:
        d = x.to_dict()
    except Exception as ex:
        en = type(ex).__name__
        for c in culprits("to_dict", en):
            out.append((f"to_dict:raised:{en}:{c}", f"{label}: to_dict() raised {en}: {ex}"))
        return dict(status="violation", findings=out)
    if d.get("__class__") != cls.__name__:
        out.append(("to_dict:class-name", f"{label}: __class__ entry is {d.get('__class__')!r}"))
    extra = set(d) - {"__class__"} - {p["py"] for p in plans}
    if extra:
        out.append(("to_dict:unknown-key", f"{label}: unexpected keys {sorted(extra)}"))
    for p in plans:
        f = p["desc"]
        present = p["py"] in d
        if present and f["pres"] == "mustnot":
            out.append((f"to_dict:elision:{fkey(f, False)}", f"{label}: field {p['py']} equals its declared default {U.short(p['value'])} "
                                                              f"but is written to the dictionary ({U.short(d[p['py']])})"))
        if not present and f["pres"] == "must":
            out.append((f"roundtrip:key-omitted:{fkey(f)}", f"{label}: field {p['py']} = {U.short(p['value'])} is missing from the dictionary "
                                                            f"although the constructor would supply {f['sup']}"))
        if present:
            v = d[p["py"]]
            if p["kind"] == "nest":
                okc = isinstance(v, dict) and v.get("__class__") == "SerIn"
                vv = dict(p=v.get("p", 5), q=v.get("q", [0.0, 0.0])) if isinstance(v, dict) else v
                if okc and "p" in v and p["value"]["p"] == 5:
                    out.append(("to_dict:elision:nested-field", f"{label}: nested {p['py']}.p equals its default 5 but is written"))
                if not okc or not field_equal("nest", vv, p["value"]):
                    out.append((f"to_dict:value:{fkey(f, False)}", f"{label}: dictionary entry {p['py']} = {U.short(v)}, field value {p['value']}"))
            elif not field_equal(p["kind"], v, p["value"]):
                out.append((f"to_dict:value:{fkey(f, False)}", f"{label}: dictionary entry {p['py']} = {U.short(v)}, field value {U.short(p['value'])}"))
    try:
        y = cls.from_dict(d)
    except Exception as ex:
        en = type(ex).__name__
        omitted = [fkey(p["desc"]) for p in plans if p["py"] not in d and p["desc"]["pres"] == "must"]
        omitted = [fkey(p["desc"]) for p in plans if p["py"] not in d and p["desc"]["sup"] == "FAIL"] or omitted
        for c in (omitted or culprits("from_dict", en)):
            out.append((f"roundtrip:from_dict-raised:{en}:{c}", f"{label}: from_dict(to_dict(x)) raised {en}: {ex}"))
        return dict(status="violation", findings=out)
    for p in plans:
        try:
            got = getattr(y, p["py"])
        except Exception as ex:
            out.append((f"roundtrip:unreadable:{fkey(p['desc'])}", f"{label}: rebuilt.{p['py']} raised {type(ex).__name__}"))
            continue
        if not field_equal(p["kind"], got, p["value"]):
            out.append((f"roundtrip:field-differs:{fkey(p['desc'])}", f"{label}: rebuilt.{p['py']} = {U.short(got)}, original {U.short(p['value'])}"))
    # the same dictionary rebuilt into previously used memory (a buffer whose bytes are not zero): what the dictionary omits
    # must come from the declared / natural defaults, not from whatever the memory held
    try:
        import xobjects as xo
        dbuf = xo.ContextCpu().new_buffer(capacity=1 << 14)
        np.frombuffer(dbuf.buffer, dtype="uint8")[:] = 0xA5
        y2 = cls.from_dict(d, _buffer=dbuf)
        for p in plans:
            try:
                got = getattr(y2, p["py"])
            except Exception as ex:
                out.append((f"roundtrip:unreadable:{fkey(p['desc'])}:used-memory", f"{label}: rebuilt into used memory: .{p['py']} raised {type(ex).__name__}"))
                continue
            if not field_equal(p["kind"], got, p["value"]):
                out.append((f"roundtrip:field-differs:{fkey(p['desc'])}:used-memory", f"{label}: rebuilt into used memory: .{p['py']} = {U.short(got)}, original {U.short(p['value'])}"))
    except Exception as ex:
        out.append((f"roundtrip:from_dict-raised:{type(ex).__name__}:used-memory", f"{label}: from_dict(to_dict(x), _buffer=used memory) raised {type(ex).__name__}: {ex}"))
    seen, res = set(), []
    for k, dsc in out:
        if k not in seen:
            seen.add(k)
            res.append((k, dsc))
    return dict(status="violation" if res else "ok", findings=res)


def run_case_ctx(case, salt, ctx):
    """a failure that only shows in a definition context (subclass, earlier conversions) carries the context in its key"""
    r = run_case(case, salt, ctx)
    real = CONTEXTS[salt % len(CONTEXTS)] if ctx == "any" else ctx
    if r["findings"] and real != "plain":
        plain = {k for k, _ in run_case(case, salt, "plain")["findings"]}
        r["findings"] = [(k if k in plain else f"{k}:ctx={real}", d) for k, d in r["findings"]]
    return r


def _worker_a(task):
    os.chdir(os.environ.get("VERIF_C19_TMP", "/tmp"))
    res = []
    for cid, case, ctx, salt in task:
        try:
            r = run_case_ctx(case, salt, ctx)
        except Exception:
            import traceback
            r = dict(status="machinery", findings=[], err=traceback.format_exc()[-1500:])
        res.append((cid, r))
    return res


# ============================================================================= Part B: JSON form of structs / 1-D arrays
STRS = ["", "a", "xyz", "hello world", "héllo wörld", "日本語", "x" * 9, "0123456", "01234567", "tab\tnl"]


def gen_item(rng, depth):
    """a type allowed inside a struct or as array item"""
    r = rng.random()
    if r < 0.5 or depth <= 0:
        return {"k": "sc", "np": rng.choice(U.SCALARS)} if rng.random() < 0.8 else {"k": "str"}
    return gen_struct(rng, depth - 1)


def gen_arr(rng, depth):
    r = rng.random()
    it = {"k": "sc", "np": rng.choice(U.SCALARS)} if r < 0.5 else ({"k": "str"} if r < 0.7 or depth <= 0 else gen_struct(rng, depth - 1))
    return {"k": "arr", "it": it, "n": rng.choice([-1, -1, 1, 2, 3])}


def gen_struct(rng, depth):
    fs = []
    for i in range(rng.randint(1, 4)):
        t = gen_arr(rng, depth) if rng.random() < 0.35 else gen_item(rng, depth)
        fs.append({"n": f"g{i}", "t": t})
    return {"k": "struct", "f": fs}


def systematic_types():
    """every scalar kind / string / nested struct as struct field, as static and dynamic array item"""
    items = [{"k": "sc", "np": k} for k in U.SCALARS] + [{"k": "str"}]
    inner = {"k": "struct", "f": [{"n": "g0", "t": {"k": "sc", "np": "Int16"}}, {"n": "g1", "t": {"k": "str"}}]}
    inner2 = {"k": "struct", "f": [{"n": "g0", "t": {"k": "sc", "np": "Float32"}}, {"n": "g1", "t": {"k": "arr", "it": {"k": "sc", "np": "UInt8"}, "n": -1}}]}
    res = []
    for it in items + [inner, inner2]:
        res.append({"k": "struct", "f": [{"n": "g0", "t": it}, {"n": "g1", "t": {"k": "sc", "np": "Int64"}}]})
        for n in (-1, 2):
            res.append({"k": "arr", "it": it, "n": n})
            res.append({"k": "struct", "f": [{"n": "g0", "t": {"k": "sc", "np": "Int8"}}, {"n": "g1", "t": {"k": "arr", "it": it, "n": n}}]})
    return res


_TCACHE = {}


def build_type(tx):
    xo = U.xo()
    key = json.dumps(tx, sort_keys=True)
    if key in _TCACHE:
        return _TCACHE[key]
    k = tx["k"]
    if k == "sc":
        t = getattr(xo, tx["np"])
    elif k == "str":
        t = xo.String
    elif k == "struct":
        t = type(U.uniq("SerS"), (xo.Struct,), {f["n"]: build_type(f["t"]) for f in tx["f"]})
    else:
        it = build_type(tx["it"])
        t = it[tx["n"]] if tx["n"] >= 0 else it[:]
    _TCACHE[key] = t
    return t


def gen_value(rng, tx):
    k = tx["k"]
    if k == "sc":
        dt = np.dtype(tx["np"].lower())
        if dt.kind == "f":
            pool = [0.0, -0.0, 1.5, -2.25, float(np.finfo(dt).max), float(np.finfo(dt).tiny), float("inf"), float("-inf"), float("nan"), rng.uniform(-1e3, 1e3)]
            return dt.type(rng.choice(pool))
        ii = np.iinfo(dt)
        return dt.type(rng.choice([0, 1, ii.max, ii.min, ii.max - 1, rng.randint(ii.min, ii.max)]))
    if k == "str":
        return rng.choice(STRS)
    if k == "struct":
        return {f["n"]: gen_value(rng, f["t"]) for f in tx["f"]}
    n = tx["n"] if tx["n"] >= 0 else rng.choice([0, 1, 2, 3])
    return [gen_value(rng, tx["it"]) for _ in range(n)]


def enc_value(tx, v):
    """normal form of the intended python value"""
    k = tx["k"]
    if k == "sc":
        return "x:" + np.dtype(tx["np"].lower()).type(v).tobytes().hex()
    if k == "str":
        return "s:" + v.encode("utf8").hex()
    if k == "struct":
        return [enc_value(f["t"], v[f["n"]]) for f in tx["f"]]
    return [enc_value(tx["it"], x) for x in v]


def nf(tx, o):
    """normal form read back from a real xobject / scalar / str"""
    k = tx["k"]
    if k == "sc":
        return "x:" + np.dtype(tx["np"].lower()).type(o).tobytes().hex()
    if k == "str":
        if not isinstance(o, str):
            raise TypeError(f"string field reads {type(o).__name__}")
        return "s:" + o.encode("utf8").hex()
    if k == "struct":
        return [nf(f["t"], getattr(o, f["n"])) for f in tx["f"]]
    n = int(np.prod(o._shape))
    return [nf(tx["it"], o[i]) for i in range(n)]


class Shape(Exception):
    pass


def jf(tx, j, path="$"):
    """the real JSON form, scalars / strings as byte strings; raises Shape when it is not the container the type calls for"""
    k = tx["k"]
    if k == "sc":
        if isinstance(j, (dict, list, tuple, str)) or j is None:
            raise Shape(f"{path}: scalar expected, got {type(j).__name__}")
        return "x:" + np.dtype(tx["np"].lower()).type(j).tobytes().hex()
    if k == "str":
        if not isinstance(j, str):
            raise Shape(f"{path}: str expected, got {type(j).__name__}")
        return "s:" + j.encode("utf8").hex()
    if k == "struct":
        if not isinstance(j, dict):
            raise Shape(f"{path}: dict expected, got {type(j).__name__}")
        fts = {f["n"]: f["t"] for f in tx["f"]}
        return {n: (jf(fts[n], j[n], path + "." + n) if n in fts else "?") for n in j}
    if not isinstance(j, (list, tuple)):
        raise Shape(f"{path}: list expected, got {type(j).__name__}")
    return [jf(tx["it"], x, f"{path}[{i}]") for i, x in enumerate(j)]


def shape_class(tx):
    k = tx["k"]
    if k == "sc":
        return "sc"
    if k == "str":
        return "str"
    if k == "struct":
        return "struct"
    return f"arr-{'static' if tx['n'] >= 0 else 'dyn'}<{shape_class(tx['it'])}>"


def first_diff(tx, a, b, path=""):
    """type-shape class of the first place where two normal forms differ"""
    k = tx["k"]
    if k in ("sc", "str"):
        return None if a == b else (path + "/" + k)
    if not isinstance(a, list) or not isinstance(b, list) or len(a) != len(b):
        return path + "/" + shape_class(tx) + ":length"
    if k == "struct":
        for f, x, y in zip(tx["f"], a, b):
            d = first_diff(f["t"], x, y, path + "/struct")
            if d:
                return d
        return None
    for x, y in zip(a, b):
        d = first_diff(tx["it"], x, y, path + "/" + ("arr-static" if tx["n"] >= 0 else "arr-dyn"))
        if d:
            return d
    return None


def run_json_case(tx, value):
    """-> dict(status, rec or finding)"""
    top = shape_class(tx)
    try:
        T = build_type(tx)
        x = T(value)
        xn = nf(tx, x)
    except Exception as ex:
        return dict(status="abandoned", why=f"constructing x: {type(ex).__name__}")
    if xn != enc_value(tx, value):
        return dict(status="abandoned", why="x does not hold the intended value (C01)")
    try:
        j = x._to_json()
    except Exception as ex:
        return dict(status="violation", key=f"json:to_json-raised:{type(ex).__name__}:{top}", desc=f"_to_json() of {top} raised {type(ex).__name__}: {ex}")
    try:
        jn = jf(tx, j)
    except Shape as ex:
        return dict(status="violation", key=f"json:json-form:shape:{top}", desc=f"_to_json() of {top}: {ex}")
    except Exception as ex:
        return dict(status="violation", key=f"json:json-form:unreadable:{top}", desc=f"_to_json() of {top}: {type(ex).__name__}: {ex}")
    try:
        y = T(j)
        yn = nf(tx, y)
    except Exception as ex:
        return dict(status="violation", key=f"json:constructor-raised:{type(ex).__name__}:{top}",
                    desc=f"T(x._to_json()) for {top} {json.dumps(tx)[:200]} raised {type(ex).__name__}: {ex}")
    return dict(status="recorded", rec=dict(tx=tx, x=xn, j=jn, y=yn))


def tx_for_tlc(tx):
    """type expression with every record carrying the same keys TLC's operators read"""
    k = tx["k"]
    if k in ("sc", "str"):
        return {"k": k}
    if k == "struct":
        return {"k": k, "f": [{"n": f["n"], "t": tx_for_tlc(f["t"])} for f in tx["f"]]}
    return {"k": k, "it": tx_for_tlc(tx["it"]), "n": tx["n"]}


def validate_json(recs, nbatch):
    """TLC validates the recorded tuples; returns list of clauses (''=ok) and TLC totals"""
    if not recs:
        return [], dict(generated=0, distinct=0)
    size = (len(recs) + nbatch - 1) // nbatch
    batches = [recs[i:i + size] for i in range(0, len(recs), size)]
    out = [None] * len(recs)
    tot = dict(generated=0, distinct=0)

    def one(bi):
        wd = C.scratch("c19tr")
        path = os.path.join(wd, "cases.json")
        json.dump([dict(tx=tx_for_tlc(r["tx"]), x=r["x"], j=r["j"], y=r["y"]) for r in batches[bi]], open(path, "w"))
        open(os.path.join(wd, "tr.cfg"), "w").write("SPECIFICATION TraceSpec\nCONSTANTS MaxFields = 1 SeqUpTo = 1 CtxUpTo = 0\nINVARIANT Verdict\nCHECK_DEADLOCK FALSE\n")
        res = C.run_tlc("XoSerialTrace", "tr.cfg", workdir=wd, workers=1, timeout=3000, env={"TRACE_FILE": path}, jvm=("-Xmx2g",))
        vs = C.tlc_tuples(res["out"], "VERDICT")
        if res["rc"] != 0 or len(vs) != len(batches[bi]):
            raise C.MachineryError(f"json trace validation batch {bi}: rc={res['rc']} verdicts={len(vs)}/{len(batches[bi])}\n" + res["out"][-3000:])
        shutil.rmtree(wd, ignore_errors=True)
        return bi, vs, res

    with ThreadPoolExecutor(max_workers=nbatch) as ex:
        for bi, vs, res in ex.map(one, range(len(batches))):
            for v in vs:
                out[bi * size + v[1] - 1] = v[2]
            tot["generated"] += res["generated"]
            tot["distinct"] += res["distinct"]
    return out, tot


# ============================================================================= TLC for part A
def tlc_cases(maxf, sequpto, ctxupto, fullupto, stride, seed):
    wd = C.scratch("c19gen")
    cfg = (f"SPECIFICATION Spec\nCONSTANTS MaxFields = {maxf} SeqUpTo = {sequpto} CtxUpTo = {ctxupto} FullUpTo = {fullupto} Stride = {stride} Seed = {seed % 1000}\n"
           "INVARIANT Satisfiable\nINVARIANT RoundTrip\nINVARIANT ElisionRespected\nINVARIANT Exact\nINVARIANT Emit\nCHECK_DEADLOCK FALSE\n")
    open(os.path.join(wd, "gen.cfg"), "w").write(cfg)
    res = C.run_tlc("XoSerialGen", "gen.cfg", workdir=wd, workers=1, timeout=3000, jvm=("-Xmx3g",))
    shutil.rmtree(wd, ignore_errors=True)
    if not res["ok"]:
        raise C.MachineryError("XoSerialGen failed:\n" + res["out"][-3000:])
    cases, dev = [], []
    for line in res["out"].splitlines():
        if line.startswith('"{'):
            rec = json.loads(json.loads(line))
            if "case" in rec:
                cases.append((rec["case"], rec["ctx"]))
            elif "deviations" in rec:
                dev = rec["deviations"]
    res["out"] = ""
    return cases, dev, res


def tlc_theorem(maxf, sequpto, ctxupto, workers):
    wd = C.scratch("c19mc")
    cfg = (f"SPECIFICATION Spec\nCONSTANTS MaxFields = {maxf} SeqUpTo = {sequpto} CtxUpTo = {ctxupto}\nINVARIANT Satisfiable\nINVARIANT RoundTrip\n"
           "INVARIANT ElisionRespected\nINVARIANT Exact\nCHECK_DEADLOCK FALSE\n")
    open(os.path.join(wd, "mc.cfg"), "w").write(cfg)
    res = C.run_tlc("XoSerial", "mc.cfg", workdir=wd, workers=workers, timeout=3000, jvm=("-Xmx4g",))
    shutil.rmtree(wd, ignore_errors=True)
    if not res["ok"]:
        raise C.MachineryError("XoSerial theorem check failed (the specification itself is inconsistent):\n" + res["out"][-3000:])
    return res


TIERS = {
    # export = (MaxFields, SeqUpTo) enumerated with Emit and replayed (all, or `sample3` of the largest size);
    # theorem = (MaxFields, SeqUpTo) checked without export
    # export = (MaxFields, SeqUpTo, CtxUpTo, FullUpTo, Stride): all definitions are CHECKED by TLC, those up to FullUpTo fields and every
    # Stride-th larger one are exported and replayed;  theorem = another space checked without export (None: the export run is the check)
    "quick": dict(export=(3, 2, 1, 2, 6), theorem=None, json_random=6000, batches=4),
    "thorough": dict(export=(4, 2, 2, 3, 16), theorem=None, json_random=60000, batches=8),
}


def check(pid, argv=None):
    run = C.Run(pid, argv)
    tier = TIERS[run.tier]
    os.environ["VERIF_C19_TMP"] = run.tmp
    os.chdir(run.tmp)
    C.use_repo()
    run.assumptions += [
        "contract XoSerial.tla: ELISION only binds fields with a DECLARED default (default / default_factory); a field without declared "
        "default that holds the implicit zero may be written or omitted",
        "field kinds of part A: scalar (10 kinds), string, static and dynamic 1-D scalar array, nested hybrid class, plain struct field; "
        "reference fields and NaN defaults are not generated (NaN is not equal to itself)",
        "part B generates reference-free structs and 1-D arrays only: scalars, strings, nested structs, static / dynamic 1-D arrays of scalars, "
        "strings, structs; N-D array fields and arrays of arrays are outside the promised domain ('one-dimensional arrays') and not generated",
        "scalars are compared as bit patterns, strings as UTF-8 bytes; a constructor that does not store the intended value is C01's finding (abandoned)",
    ]
    if run.replay:
        rp = json.load(open(run.replay))["replay"]
        run.cov["traces_validated_against_impl"] = 1 if rp["part"] == "A" else 0
        if rp["part"] == "A":
            r = run_case_ctx(rp["case"], rp["salt"], rp.get("ctx", "plain"))
            for key, desc in r["findings"]:
                run.report(key, desc, rp)
        else:
            r = run_json_case(rp["tx"], _dec_value(rp["tx"], rp["value"]))
            _json_verdicts(run, [(rp, r)], 1)
        run.finish()

    t1 = time.time()
    import multiprocessing
    pool = ProcessPoolExecutor(max_workers=min(C.NCPU, 8), mp_context=multiprocessing.get_context("spawn"))
    try:
        with ThreadPoolExecutor(max_workers=3) as ex:
            f_cases = ex.submit(tlc_cases, *tier["export"], run.seed)
            f_thm = ex.submit(tlc_theorem, *tier["theorem"], 6) if tier["theorem"] else None
            # ---- part B runs while TLC enumerates part A
            rng = random.Random(run.seed * 31 + 19)
            jcases = []
            for tx in systematic_types():
                for _ in range(3):
                    jcases.append((tx, gen_value(rng, tx)))
            for _ in range(tier["json_random"]):
                tx = gen_struct(rng, 2) if rng.random() < 0.6 else gen_arr(rng, 2)
                jcases.append((tx, gen_value(rng, tx)))
            jres = [(dict(part="B", tx=tx, value=enc_value(tx, v)), run_json_case(tx, v)) for tx, v in jcases]
            run.notes["t_json_real"] = round(time.time() - t1, 1)
            f_val = ex.submit(_json_verdicts, run, jres, tier["batches"])
            # ---- part A replay
            cases, dev, res = f_cases.result()
            run.add_tlc(res)
            run.notes["t_export"] = round(time.time() - t1, 1)
            big = max(len(c[0]) for c in cases)
            todo = [(i, c, ctx, run.seed + i) for i, (c, ctx) in enumerate(cases)]
            futs = [pool.submit(_worker_a, todo[i:i + 250]) for i in range(0, len(todo), 250)]
            results = []
            for f in futs:
                results += f.result()
            thm = f_thm.result() if f_thm else res
            if f_thm:
                run.add_tlc(thm)
            f_val.result()
    finally:
        pool.shutdown(wait=True, cancel_futures=True)
    run.notes["t_total"] = round(time.time() - t1, 1)
    status = collections.Counter()
    per_desc = collections.Counter()
    byid = {i: (c, x, s) for i, c, x, s in todo}
    per_ctx = collections.Counter()
    for cid, r in results:
        status[r["status"]] += 1
        if r["status"] == "machinery":
            raise C.MachineryError("part A harness failed:\n" + r["err"])
        if r["status"] == "abandoned":
            run.count("abandoned_precondition:A:" + r["why"])
        case, ctx, salt = byid[cid]
        per_ctx[ctx if ctx != "any" else "any->" + CONTEXTS[salt % len(CONTEXTS)]] += 1
        for f in case:
            per_desc[f"{f['kind']}:{f['dk']}:{f['vc']}" + (":ren" if f["ren"] else "")] += 1
        for key, desc in r["findings"]:
            run.report(key, desc, dict(part="A", case=case, salt=salt, ctx=ctx))
    run.notes["partA"] = dict(definitions_checked_by_tlc=res["distinct"], exported=len(cases), replayed=len(results), by_size={n: sum(1 for t in todo if len(t[1]) == n) for n in range(1, big + 1)}, by_context=dict(per_ctx),
                              status=dict(status), theorem=dict(states=thm["distinct"], wall=round(thm["wall"], 1)),
                              descriptors_exercised=len(per_desc), min_cases_per_descriptor=min(per_desc.values()) if per_desc else 0)
    run.notes["pinned_tree_deviations_predicted_by_the_transcribed_code_model"] = [
        f"{d['kind']}:{d['dk']}:{d['vc']}{':ren' if d['ren'] else ''} code={d['code']} contract={d['contract']}" for d in dev]
    run.cov["traces_validated_against_impl"] += len(results)
    for i, c, x, s in todo[:2] + todo[-2:]:
        run.sample(dict(part="A", ctx=x, fields=[fkey(f) + "/" + f["pres"] for f in c]))
    run.cov["exhaustive"] = False
    run.finish()


def _dec_value(tx, e):
    k = tx["k"]
    if k == "sc":
        return np.frombuffer(bytes.fromhex(e[2:]), dtype=np.dtype(tx["np"].lower()))[0]
    if k == "str":
        return bytes.fromhex(e[2:]).decode("utf8")
    if k == "struct":
        return {f["n"]: _dec_value(f["t"], x) for f, x in zip(tx["f"], e)}
    return [_dec_value(tx["it"], x) for x in e]


def _json_verdicts(run, jres, nbatch):
    st = collections.Counter()
    shapes = collections.Counter()
    recs, owners = [], []
    for rp, r in jres:
        st[r["status"]] += 1
        shapes[shape_class(rp["tx"])] += 1
        if r["status"] == "abandoned":
            run.count("abandoned_precondition:B:" + r["why"])
        elif r["status"] == "violation":
            run.report(r["key"], r["desc"], rp)
        else:
            recs.append(r["rec"])
            owners.append(rp)
    t1 = time.time()
    clauses, tot = validate_json(recs, max(1, min(nbatch, len(recs) // 50 + 1)))
    run.cov["states"] += tot["distinct"]
    run.cov["transitions"] += tot["generated"]
    run.notes["t_json_tlc"] = round(time.time() - t1, 1)
    bad = collections.Counter()
    for rp, rec, cl in zip(owners, recs, clauses):
        if cl == "harness-wf":
            raise C.MachineryError(f"recorded value is not well formed for its type: {json.dumps(rec)[:500]}")
        if cl:
            tx = rp["tx"]
            if cl == "json-form":
                where = "keys-or-values"
            else:
                where = first_diff(tx, rec["x"], rec["y"]) or "?"
            bad[cl] += 1
            run.report(f"json:{cl}:{shape_class(tx) if tx['k'] == 'arr' else 'struct'}:{where}",
                       f"type {json.dumps(tx)[:300]}: clause {cl}; x={json.dumps(rec['x'])[:200]} json={json.dumps(rec['j'])[:200]} rebuilt={json.dumps(rec['y'])[:200]}", rp)
    run.notes["partB"] = dict(cases=len(jres), status=dict(st), validated_by_tlc=len(recs), failing_clauses=dict(bad), top_level_shapes=dict(shapes))
    run.cov["traces_validated_against_impl"] += len(jres)
    for rp, r in jres[:2]:
        run.sample(dict(part="B", type=rp["tx"], status=r["status"]))
