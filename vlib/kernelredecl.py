"""C17, which declaration a call uses (spec/XoKernelRedecl.tla): TLC enumerates every history of declarations
(add_kernels under a new or an existing name, one or several names per call), dispatcher look-ups and calls through both access
paths, and exports each with the signature every call must use.  The replay registers kernels through the REAL
ctx.add_kernels; only the compilation inside it is served from modules built once per (name, signature) by the real
build_kernels (a history per second would otherwise be spent in the C compiler).  A signature is a C function of its own
parameter types whose result identifies the function that ran and how its argument was converted.
"""
import json, os, shutil
import numpy as np
from . import common as C

CFG = """SPECIFICATION Spec
CONSTANTS MaxLen = {L} Names = {{"ka", "kb"}} Sigs = {{1, 2, 3}} Export = TRUE
INVARIANT CallsUseLatest
INVARIANT Exported
CHECK_DEADLOCK FALSE
"""
TIERS = {"quick": 4, "thorough": 5}
NAMES = ["ka", "kb"]


def sig(xo, name, s):
    """-> (C source, Kernel description, call arguments, expected result)"""
    A, K = xo.Arg, xo.Kernel
    if s == 1:
        return (f"int32_t {name}(int32_t x){{ return x + 1; }}\n", K(args=[A(xo.Int32, name="x")], ret=A(xo.Int32)), dict(x=7), 8)
    if s == 2:
        return (f"double {name}(double x){{ return x + 0.25; }}\n", K(args=[A(xo.Float64, name="x")], ret=A(xo.Float64)), dict(x=0.5), 0.75)
    return (f"int64_t {name}(double* p, int64_t n){{ return (int64_t)(p[n-1] * 2); }}\n",
            K(args=[A(xo.Float64, pointer=True, name="p"), A(xo.Int64, name="n")], ret=A(xo.Int64)), dict(p=np.array([1.5, 2.5, 3.5]), n=3), 7)


def prebuild(xo, omp, wd):
    """{frozenset of (name, sig)} -> kernels dict as build_kernels returns it, for single names and for both names at once"""
    cwd = os.getcwd()
    os.chdir(wd)
    try:
        ctx = xo.ContextCpu(omp_num_threads=omp)
        ctx._compile_kernels_info = False
        built = {}
        for s in (1, 2, 3):
            for names in (("ka",), ("kb",), ("ka", "kb")):
                src = "#include <stdint.h>\n" + "".join(sig(xo, n, s)[0] for n in names)
                ks = {n: sig(xo, n, s)[1] for n in names}
                built[(names, s)] = ctx.build_kernels(kernel_descriptions=ks, sources=[src], extra_compile_args=("-O0", "-w"))
        return built
    finally:
        os.chdir(cwd)


def replay(xo, omp, built, model):
    ctx = xo.ContextCpu(omp_num_threads=omp)
    pending = {}

    def fake_build(kernel_descriptions=None, **kw):      # the compilation step only; registration stays the library's
        return dict(pending["k"])
    ctx.build_kernels = fake_build
    kept = {}
    out = []
    for i, ev in enumerate(model["hist"]):
        op = ev["op"]
        if op in ("declare", "declareall"):
            names = (ev["n"],) if op == "declare" else tuple(NAMES)
            pending["k"] = built[(names, ev["s"])]
            ctx.add_kernels(sources=["(prebuilt)"], kernels={n: sig(xo, n, ev["s"])[1] for n in names})
            continue
        n = ev["n"]
        if op == "lookup":
            kept[n] = getattr(ctx.kernels, n)
            continue
        src, desc, args, want = sig(xo, n, ev["uses"])
        path = ev.get("path", "kept")
        try:
            fn = kept[n] if op == "callkept" else (getattr(ctx.kernels, n) if path == "attr" else ctx.kernels[n])
            got = fn(**args)
            ok = (float(got) == float(want))
        except Exception as ex:     # noqa
            got, ok = f"{type(ex).__name__}: {str(ex)[:80]}", False
        if not ok:
            stale = [s for s in (1, 2, 3) if s != ev["uses"]]
            prog = "; ".join(f"{e['op']} {e.get('n', '')} {e.get('s', e.get('path', ''))}".strip() for e in model["hist"][:i + 1])
            out.append((f"call:redeclared-kernel:{path}:declaration-{ev['uses']}-not-used",
                        f"history [{prog}]: the call through {'ctx.kernels.' + n if path != 'item' else 'ctx.kernels[' + repr(n) + ']'}"
                        f"{' (dispatcher fetched earlier)' if op == 'callkept' else ''} with the arguments of the current declaration {ev['uses']} gave {got!r}, expected {want!r}"))
            break
    return out


def run_all(run):
    xo = C.use_repo()
    wd = C.scratch("kredecl")
    open(os.path.join(wd, "r.cfg"), "w").write(CFG.format(L=TIERS[run.tier]))
    res = C.run_tlc("XoKernelRedecl", "r.cfg", workdir=wd, workers=1, timeout=3000)
    if not res["ok"]:
        raise C.MachineryError("XoKernelRedecl violates its own contract:\n" + res["out"][-2000:])
    run.add_tlc(res)
    models = [json.loads(json.loads(ln)) for ln in res["out"].splitlines() if ln.startswith('"{')]
    n = 0
    try:
        for omp in (0, 2):
            built = prebuild(xo, omp, wd)
            for m in models:
                n += 1
                for key, desc in replay(xo, omp, built, m):
                    run.report(key, f"[omp={omp}] " + desc, dict(engine="kernelredecl", omp=omp, model=m))
    finally:
        shutil.rmtree(wd, ignore_errors=True)
    run.notes["redeclared_kernels"] = dict(histories=len(models), replays=n, states=res["distinct"], max_len=TIERS[run.tier])
    run.cov["traces_validated_against_impl"] += n


def replay_one(run, rp):
    xo = C.use_repo()
    wd = C.scratch("kredecl")
    try:
        built = prebuild(xo, rp["omp"], wd)
        for key, desc in replay(xo, rp["omp"], built, rp["model"]):
            run.report(key, f"[omp={rp['omp']}] " + desc, rp)
    finally:
        shutil.rmtree(wd, ignore_errors=True)
