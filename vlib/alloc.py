"""Engine for C04 / C12: XBuffer allocator.

model level : TLC checks XoAllocImpl (implementation-shaped) invariants and its refinement of the contract
              XoAlloc, for several growth policies, and the contract's own invariants.
spec -> code: every request-level transition TLC generates (XoAllocGen) is replayed on a real BufferNumpy and
              BufferByteArray (BFS over the model graph, real buffers snapshotted per model state).
code -> spec: every real step (and deep random walks) is logged with its full observable post-state and TLC
              validates the log against the CONTRACT (XoAllocTrace); verdict = first failing clause.
C04 owns: misaligned / out-of-bounds / overlaps-live / data-lost.   C12 owns everything else.
"""
import collections, copy, json, os, random, sys, time
from concurrent.futures import ThreadPoolExecutor
from . import common as C

PROPERTIES = ["C04", "C12"]
OWN = {"C04": 2, "C12": 3}   # index of the property's verdict in the VERDICT tuple


# ----------------------------------------------------------------------------- real-buffer harness
class Harness:
    """drives one real buffer and records contract-level observations"""

    def __init__(self, kind, capacity, default_alignment=None, grow_step=None):
        xo = C.use_repo()
        from xobjects.context_cpu import BufferNumpy, BufferByteArray
        cls = {"numpy": BufferNumpy, "bytearray": BufferByteArray}[kind]
        self.kind = kind
        self.buf = cls(capacity=capacity, context=_ctx(), default_alignment=default_alignment, grow_step=grow_step)
        self.live = []            # [s, e, a, tok]
        self.ntok = 0

    def clone(self):
        h = object.__new__(Harness)
        h.kind, h.ntok = self.kind, self.ntok
        h.live = [list(r) for r in self.live]
        b = object.__new__(type(self.buf))
        b.__dict__.update(self.buf.__dict__)
        b.chunks = [c.copy() for c in self.buf.chunks]
        b.buffer = copy.copy(self.buf.buffer)
        h.buf = b
        return h

    def observe(self):
        b = self.buf
        data = []
        for s, e, a, tok in self.live:
            raw = bytes(b.to_bytearray(s, e - s))
            vals = set(raw)
            data.append([s, (raw[0] if len(vals) == 1 and len(raw) == e - s else -1)])
        return dict(cap=int(b.capacity), runs=[[int(c.start), int(c.end)] for c in b.chunks],
                    getfree=int(b.get_free()), live=[[s, e, a] for s, e, a, _ in self.live], data=data)

    def init_obs(self):
        return self.observe()

    def alloc(self, size, a, packed=False):
        self.ntok = self.ntok % 250 + 1
        tok = self.ntok
        ev = dict(op="alloc", size=size, a=a, tok=tok, ret=-1, exc="")
        try:
            if packed:
                off = self.buf.allocate(size, align=False)
            else:
                self.buf.default_alignment = a
                off = self.buf.allocate(size)
            off = int(off)
            ev["ret"] = off
            if size > 0:
                if off >= 0 and off + size <= self.buf.capacity:
                    self.buf.update_from_buffer(off, bytes([tok]) * size)
                self.live.append([off, off + size, a, tok])
        except Exception as ex:          # noqa: contract says a request always terminates with a result
            ev["exc"] = type(ex).__name__
        ev.update(self.observe())
        return ev

    def free(self, k):
        s, e, a, tok = self.live[k]
        ev = dict(op="free", s=s, e=e, a=a, exc="")
        try:
            self.buf.free(s, e - s)
        except Exception as ex:          # noqa
            ev["exc"] = type(ex).__name__
        del self.live[k]          # the caller gave the region back in any case
        ev.update(self.observe())
        return ev

    def grow(self, n):
        ev = dict(op="grow", n=n, exc="")
        try:
            self.buf.grow(n)
        except Exception as ex:          # noqa
            ev["exc"] = type(ex).__name__
        ev.update(self.observe())
        return ev


_CTX = None


def _ctx():
    global _CTX
    if _CTX is None:
        xo = C.use_repo()
        _CTX = xo.ContextCpu()
    return _CTX


# ----------------------------------------------------------------------------- spec -> code
def export_graph(run, cfgname, consts):
    cfg = f"SPECIFICATION GSpec\nCONSTANTS {consts}\nVIEW View\nCHECK_DEADLOCK FALSE\n"
    wd = C.scratch("gen")
    open(os.path.join(wd, cfgname), "w").write(cfg)
    res = C.run_tlc("XoAllocGen", cfgname, workdir=wd, workers=1, timeout=3000)
    if res["rc"] != 0:
        raise C.MachineryError("XoAllocGen failed:\n" + res["out"][-2000:])
    edges = collections.defaultdict(list)
    n = 0
    for line in res["out"].splitlines():
        if not line.startswith('"{'):
            continue
        rec = json.loads(json.loads(line))
        edges[_key(rec["pre"])].append((rec["cmd"], _key(rec["post"])))
        n += 1
    import shutil
    shutil.rmtree(wd, ignore_errors=True)
    return edges, n, res


def _key(p):
    return (tuple((c["s"], c["e"]) for c in p["chunks"]), p["cap"], tuple(sorted(map(tuple, p["live"]))))


def _hkey(h):
    return (tuple((c.start, c.end) for c in h.buf.chunks), h.buf.capacity, tuple(sorted((s, e, a) for s, e, a, _ in h.live)))


def replay_graph(edges, initcap, growstep, kinds=("numpy", "bytearray")):
    """BFS over the model graph; returns (single-step traces, stats)."""
    traces, stats = [], collections.Counter()
    for kind in kinds:
        h0 = Harness(kind, initcap, grow_step=(growstep or None))
        start = _hkey(h0)
        seen = {start: h0}
        queue = collections.deque([start])
        while queue:
            k = queue.popleft()
            hpre = seen[k]
            for cmd, post in edges.get(k, []):
                h = hpre.clone()
                init = h.init_obs()
                if cmd["op"] == "alloc":
                    ev = h.alloc(cmd["size"], cmd["a"])
                elif cmd["op"] == "free":
                    idx = [i for i, r in enumerate(h.live) if r[0] == cmd["s"] and r[1] == cmd["e"]]
                    ev = h.free(idx[0])
                else:
                    ev = h.grow(cmd["n"])
                got = _hkey(h)
                intact = all(d[1] == tok for d, (_, _, _, tok) in zip(ev["data"], h.live))
                matched = (got == post and not ev["exc"] and intact)
                traces.append(dict(init=init, ev=[ev], src=f"graph:{kind}", cmd=cmd, matched=matched))
                if got == post and not ev["exc"]:
                    stats[kind + ":match"] += 1
                    if post not in seen:
                        seen[post] = h
                        queue.append(post)
                else:
                    stats[kind + ":model-drift"] += 1
                    stats.setdefault("drift_example", f"{k} {cmd} model={post} real={got} exc={ev['exc']}")
        stats[kind + ":states_reached"] = len(seen)
    return traces, stats


# ----------------------------------------------------------------------------- random deep walks
def random_walk(rng, kind, steps):
    cap = rng.choice([0, 0, 1, 7, 8, 64, 100, 1024, 4096])
    da = rng.choice([1, 1, 2, 4, 8, 16, 32, 64])
    gs = rng.choice([None, None, 1, 3, 8, 64, 1000])
    h = Harness(kind, cap, default_alignment=da, grow_step=gs)
    small = rng.random() < 0.5
    tr = dict(init=h.init_obs(), ev=[], src=f"walk:{kind}:cap{cap}:a{da}:gs{gs}")
    for _ in range(steps):
        x = rng.random()
        if x < 0.5 or not h.live:
            if small:
                size = rng.choice([0, 1, 1, 2, 3, 4, 5, 7, 8, 9, 16, 24])
            else:
                size = rng.choice([0, 1, 3, 8, 13, 64, 100, 255, 256, 1000, 4096]) if rng.random() < .5 else rng.randint(1, 300)
            if gs is not None and gs * 200 < size:        # keep retry depth far below the recursion limit
                size = gs * 200
            packed = rng.random() < 0.3
            a = 1 if packed else rng.choice([da, da, 1, 2, 4, 8, 16, 64])
            tr["ev"].append(h.alloc(size, a, packed=packed))
        elif x < 0.92:
            # bias towards freeing neighbours so coalescing is exercised
            k = rng.randrange(len(h.live))
            tr["ev"].append(h.free(k))
        else:
            tr["ev"].append(h.grow(rng.choice([1, 2, 8, 100, 1000])))
    return tr


# ----------------------------------------------------------------------------- code -> spec
def validate(traces, nbatch=None):
    """TLC validates traces against XoAlloc (contract). returns list of (f04, f12) per trace"""
    if not traces:
        return [], dict(generated=0, distinct=0)
    # batches bounded by the amount of JSON a TLC process has to parse (walks of 150 steps carry their live lists): a batch
    # file stays below ~6 MB; never fewer batches than cores (when there is enough to share)
    docs = [json.dumps(dict(init=t["init"], ev=t["ev"])) for t in traces]
    limit = max(200000, min(6000000, sum(len(d) for d in docs) // max(1, nbatch or C.NCPU)))
    bounds, cur = [0], 0
    for i, d in enumerate(docs):
        if cur + len(d) > limit and i > bounds[-1]:
            bounds.append(i)
            cur = 0
        cur += len(d)
    bounds.append(len(traces))
    batches = [traces[bounds[i]:bounds[i + 1]] for i in range(len(bounds) - 1)]
    bdocs = [docs[bounds[i]:bounds[i + 1]] for i in range(len(bounds) - 1)]
    verdicts = [None] * len(traces)
    tot = dict(generated=0, distinct=0)

    def one(bi):
        wd = C.scratch("tr")
        path = os.path.join(wd, "trace.json")
        open(path, "w").write("[" + ",".join(bdocs[bi]) + "]")
        cfg = ("SPECIFICATION TraceSpec\nCONSTANTS MaxCap = 0 InitCap = 0 Sizes = {} Aligns = {} GrowAmounts = {} Tokens = {}\n"
               "CHECK_DEADLOCK FALSE\n")
        open(os.path.join(wd, "tr.cfg"), "w").write(cfg)
        res = C.run_tlc("XoAllocTrace", "tr.cfg", workdir=wd, workers=1, timeout=3000, env={"TRACE_FILE": path})
        vs = C.tlc_tuples(res["out"], "VERDICT")
        if res["rc"] != 0 or len(vs) != len(batches[bi]):
            raise C.MachineryError(f"trace validation batch {bi}: rc={res['rc']} verdicts={len(vs)}/{len(batches[bi])}\n" + res["out"][-3000:])
        import shutil
        shutil.rmtree(wd, ignore_errors=True)
        return bi, vs, res

    with ThreadPoolExecutor(max_workers=C.NCPU) as ex:
        for bi, vs, res in ex.map(one, range(len(batches))):
            for v in vs:
                verdicts[bounds[bi] + v[1] - 1] = (v[2], v[3])
            tot["generated"] += res["generated"]
            tot["distinct"] += res["distinct"]
    return verdicts, tot


# ----------------------------------------------------------------------------- model checking
MC = {
    "quick": dict(
        impl=[("MaxCap = 6  InitCap = 3  Sizes = {1,2,3}  Aligns = {1,2,4}  GrowStep = 0  GrowAmounts = {2}  Tokens = {7}", "gs0"),
              ("MaxCap = 6  InitCap = 0  Sizes = {1,2,3}  Aligns = {1,2}  GrowStep = 2  GrowAmounts = {}  Tokens = {7}", "gs2")],
        contract="MaxCap = 8  InitCap = 4  Sizes = {1,2,3}  Aligns = {1,2,4}  GrowAmounts = {1,2}  Tokens = {7}",
        gen=[("MaxCap = 7  InitCap = 4  Sizes = {1,2,3}  Aligns = {1,2,4}  GrowStep = 0  GrowAmounts = {2}  Tokens = {7}", 4, 0),
             ("MaxCap = 6  InitCap = 0  Sizes = {1,2}  Aligns = {1,2}  GrowStep = 1  GrowAmounts = {}  Tokens = {7}", 0, 1)],
        walks=300, steps=60, sample=1500),
    "thorough": dict(
        # (measured with 4 workers on a loaded machine: gs1 9 min / 0.94 M states, gs3 10 min / 1.02 M states; MaxCap = 8 with
        #  alignments up to 8 did not finish in 40 min - the refinement property is checked on the whole behaviour graph)
        impl=[("MaxCap = 7  InitCap = 4  Sizes = {1,2,3}  Aligns = {1,2,4}  GrowStep = 0  GrowAmounts = {2}  Tokens = {7}", "gs0"),
              ("MaxCap = 7  InitCap = 0  Sizes = {1,2,3}  Aligns = {1,2,4}  GrowStep = 1  GrowAmounts = {}  Tokens = {7}", "gs1"),
              ("MaxCap = 7  InitCap = 2  Sizes = {1,2,3}  Aligns = {1,2,4}  GrowStep = 3  GrowAmounts = {1}  Tokens = {7}", "gs3")],
        contract="MaxCap = 10  InitCap = 4  Sizes = {1,2,3}  Aligns = {1,2,4}  GrowAmounts = {1,2}  Tokens = {7}",
        gen=[("MaxCap = 8  InitCap = 4  Sizes = {1,2,3}  Aligns = {1,2,4}  GrowStep = 0  GrowAmounts = {2}  Tokens = {7}", 4, 0),
             ("MaxCap = 8  InitCap = 0  Sizes = {1,2,3}  Aligns = {1,2,4}  GrowStep = 1  GrowAmounts = {}  Tokens = {7}", 0, 1),
             ("MaxCap = 8  InitCap = 2  Sizes = {1,2,3}  Aligns = {1,2,4}  GrowStep = 3  GrowAmounts = {1}  Tokens = {7}", 2, 3)],
        walks=4000, steps=150, sample=40000),
}

IMPL_CFG = """SPECIFICATION Spec
CONSTANTS {c}
INVARIANT SortedCoalesced
INVARIANT NoEmptyChunk
INVARIANT AbsInv
INVARIANT GetFreeMatches
PROPERTY Refines
CHECK_DEADLOCK FALSE
"""
LIVE_CFG = """SPECIFICATION FairSpec
CONSTANTS MaxCap = 6  InitCap = 0  Sizes = {1,2,3}  Aligns = {1,2}  GrowStep = 1  GrowAmounts = {}  Tokens = {7}
PROPERTY Terminates
CHECK_DEADLOCK FALSE
"""
CONTRACT_CFG = """SPECIFICATION Spec
CONSTANTS {c}
INVARIANT Disjoint
INVARIANT InBounds
INVARIANT Aligned
INVARIANT DataKept
INVARIANT CanonicalFree
INVARIANT Accounting
INVARIANT FreeAlwaysEnabled
INVARIANT AllocAlwaysEnabled
PROPERTY DataPreserved
PROPERTY CapMonotone
CHECK_DEADLOCK FALSE
"""


def apalache_inductive(run):
    """unbounded safety of the allocator DESIGN (interval form of the contract): Init => IndInv, IndInv /\\ Next => IndInv'
    discharged by Apalache; a Free that does not coalesce must be rejected (vacuity self-test)"""
    import shutil, subprocess
    if not shutil.which("apalache-mc"):
        run.notes["apalache"] = "not installed: skipped"
        return
    wd = C.scratch("apa")
    src = open(os.path.join(C.SPEC, "XoAllocInd.tla")).read()
    open(os.path.join(wd, "XoAllocInd.tla"), "w").write(src)
    broken = src.replace("MODULE XoAllocInd", "MODULE XoAllocIndBroken").replace(
        "IN free' = {c \\in free : c.e # r.s /\\ c.s # r.e} \\cup {[s |-> ns, e |-> ne]}",
        "IN free' = free \\cup {[s |-> r.s, e |-> r.e]}")
    if broken.count("free' = free \\cup {[s |-> r.s, e |-> r.e]}") != 1:
        raise C.MachineryError("cannot derive the non-coalescing variant of XoAllocInd")
    open(os.path.join(wd, "XoAllocIndBroken.tla"), "w").write(broken)

    def apa(mod, init, length):
        p = subprocess.run(["apalache-mc", "check", f"--init={init}", "--inv=IndInv", f"--length={length}", f"--out-dir={wd}/out_{mod}_{init}", mod + ".tla"],
                           cwd=wd, capture_output=True, text=True, timeout=900)
        return "EXITCODE: OK" in p.stdout, p.stdout[-600:]

    with ThreadPoolExecutor(max_workers=3) as ex:
        f1 = ex.submit(apa, "XoAllocInd", "Init", 0)
        f2 = ex.submit(apa, "XoAllocInd", "IndInit", 1)
        f3 = ex.submit(apa, "XoAllocIndBroken", "IndInit", 1)
        base, step, mutant = f1.result(), f2.result(), f3.result()
    shutil.rmtree(wd, ignore_errors=True)
    if not base[0] or not step[0]:
        raise C.MachineryError("Apalache does not discharge the inductive invariant of the allocator contract:\n" + (base[1] if not base[0] else step[1]))
    if mutant[0]:
        raise C.MachineryError("vacuity self-test failed: Apalache accepts a Free that does not coalesce")
    run.notes["apalache"] = dict(obligations=2, discharged=2, mutant_rejected=True,
                                 claim="IndInit => IndInv and IndInv /\\ Next => IndInv' for unbounded capacity/sizes, alignments {1,2,4,8}, <= 4 free and <= 4 live intervals")


def model_check(run, tier):
    jobs = []
    for c, tag in MC[tier]["impl"]:
        jobs.append(("XoAllocImpl", "impl_" + tag, IMPL_CFG.format(c=c)))
    jobs.append(("XoAlloc", "contract", CONTRACT_CFG.format(c=MC[tier]["contract"])))
    jobs.append(("XoAllocImpl", "liveness", LIVE_CFG))

    def one(job):
        mod, tag, cfg = job
        wd = C.scratch("mc")
        open(os.path.join(wd, tag + ".cfg"), "w").write(cfg)
        res = C.run_tlc(mod, tag + ".cfg", workdir=wd, workers=max(2, C.NCPU // len(jobs)), timeout=6000)
        import shutil
        shutil.rmtree(wd, ignore_errors=True)
        return tag, res

    out = {}
    with ThreadPoolExecutor(max_workers=len(jobs)) as ex:
        for tag, res in ex.map(one, jobs):
            out[tag] = dict(states=res["distinct"], generated=res["generated"], ok=res["ok"], wall=round(res["wall"], 1))
            run.add_tlc(res)
            if not res["ok"]:
                raise C.MachineryError(f"model-level check {tag} failed (the specification itself is inconsistent):\n" + res["out"][-3000:])
    run.notes["model_checking"] = out


# ----------------------------------------------------------------------------- the check
def check(pid, argv=None):
    run = C.Run(pid, argv)
    tier = run.tier
    run.assumptions += ["contract XoAlloc.tla transcribes C04/C12 and Architecture.md 'allocate: first free chunk, grows if necessary'",
                        "live-region bookkeeping (which regions are handed out) is kept by the harness",
                        "GPU buffer kinds are out of scope (both CPU kinds are exercised)"]
    if run.replay:
        rp = json.load(open(run.replay))["replay"]
        traces = [rp]
    else:
        t1 = time.time()
        with ThreadPoolExecutor(max_workers=2) as ex:
            fa = ex.submit(apalache_inductive, run)
            model_check(run, tier)
            fa.result()
        run.notes["t_model_check"] = round(time.time() - t1, 1)
        traces = []
        gstats = {}
        t1 = time.time()
        with ThreadPoolExecutor(max_workers=4) as ex:
            exported = list(ex.map(lambda g: export_graph(run, "gen.cfg", g[0]), MC[tier]["gen"]))
        run.notes["t_export"] = round(time.time() - t1, 1)
        t1 = time.time()
        rng0 = random.Random(run.seed + 1)
        for (consts, initcap, gs), (edges, n, res) in zip(MC[tier]["gen"], exported):
            run.add_tlc(res)
            tr, st = replay_graph(edges, initcap, gs)
            # a replayed step that reproduces the TLC-checked implementation model's post-state exactly is covered by the
            # model-level refinement result; every step that deviates, and a random sample of the others, is validated
            # by TLC against the contract as a recorded trace
            dev = [t for t in tr if not t["matched"]]
            ok = [t for t in tr if t["matched"]]
            rng0.shuffle(ok)
            traces += dev + ok[:MC[tier]["sample"]]
            st["validated_as_trace"] = len(dev) + min(len(ok), MC[tier]["sample"])
            run.cov["traces_validated_against_impl"] += len(tr)
            gstats[f"init{initcap}_gs{gs}"] = dict(model_transitions=n, **{k: v for k, v in st.items()})
        run.notes["spec_to_code"] = gstats
        run.notes["t_replay"] = round(time.time() - t1, 1)
        rng = random.Random(run.seed * 7919 + 17)
        for i in range(MC[tier]["walks"]):
            traces.append(random_walk(rng, ("numpy", "bytearray")[i % 2], MC[tier]["steps"]))
    t1 = time.time()
    verdicts, tot = validate(traces)
    run.notes["t_validate"] = round(time.time() - t1, 1)
    run.cov["states"] += tot["distinct"]
    run.cov["transitions"] += tot["generated"]
    run.cov["traces_validated_against_impl"] += MC[tier]["walks"] if not run.replay else 1
    run.notes["real_steps_validated"] = sum(len(t["ev"]) for t in traces)
    idx = 0 if pid == "C04" else 1
    other = collections.Counter()
    for t, v in zip(traces, verdicts):
        mine, theirs = v[idx], v[1 - idx]
        if theirs:
            other[theirs.split(":", 1)[1]] += 1
        if mine:
            pos, clause = mine.split(":", 1)
            e = t["ev"][int(pos) - 1]
            key = f"{e['op']}:{clause}" + (f":{e['exc']}" if e["exc"] else "")
            desc = f"{t['src']} step {pos}: {clause}; event={ {k: e[k] for k in e if k not in ('data','live')} }"
            run.report(key, desc, dict(init=t["init"], ev=t["ev"][:int(pos)], src=t["src"]))
    run.notes["other_property_clauses_seen"] = dict(other)
    for t in traces[:2] + traces[-2:]:
        run.sample(dict(src=t["src"], first_events=[{k: e[k] for k in e if k not in ("data", "live", "runs")} for e in t["ev"][:3]]))
    run.cov["exhaustive"] = False
    run.finish()
