"""Executes operation histories on the REAL xobjects typed layer and records them as traces for spec/XoHeapTrace.tla.

The world owns a few logged, poisoned buffers (both CPU kinds, two contexts).  Every public operation the harness
performs (construct, assign, bind, copy, grow, misuse) is followed by `record`, which logs capacities, the exact
byte diff of every buffer, the regions handed out / given back by allocate/free during the operation, and the
value of every known object as read back through the library's own accessors by every available route.
The harness keeps a `shadow` (value skeleton + current reference bindings) ONLY to generate well-formed next
operations; verdicts are TLC's, computed from the logged arguments and the bytes.
"""
import os
import copy, random
import numpy as np
from . import common as C
from . import xtypes as X

POISON = 0xA5


def _mk_buffer_classes():
    C.use_repo()
    from xobjects.context_cpu import BufferNumpy, BufferByteArray

    class LogMixin:
        _vdepth = 0
        _vlog = None

        def _new_buffer(self, capacity):
            if capacity > (1 << 18):       # a size read from corrupted bytes: refuse like an allocator out of memory would
                raise MemoryError(f"harness buffer limit: {capacity} bytes requested")
            b = super()._new_buffer(capacity)
            if isinstance(b, bytearray):
                b[:] = bytes([POISON]) * len(b)
            else:
                b[:] = np.int8(POISON - 256)
            return b

        def allocate(self, size, align=True):
            self._vdepth += 1
            try:
                off = super().allocate(size, align=align)
            finally:
                self._vdepth -= 1
            if self._vdepth == 0 and self._vlog is not None:
                self._vlog.append(("alloc", int(off), int(size)))
            return off

        def free(self, offset, size):
            r = super().free(offset, size)
            if self._vlog is not None:
                self._vlog.append(("free", int(offset), int(size)))
            return r

        def raw(self):
            b = self.buffer
            data = bytes(b) if isinstance(b, bytearray) else b.tobytes()
            return data[: self.capacity]

    class VNumpy(LogMixin, BufferNumpy):
        pass

    class VByteArray(LogMixin, BufferByteArray):
        pass

    for c in (VNumpy, VByteArray):          # importable: buffers are pickled together with the objects that live in them
        c.__qualname__ = c.__name__
        c.__module__ = __name__
        globals()[c.__name__] = c
    return VNumpy, VByteArray


def _instrument(xb):
    """logging of allocate / free and raw() for a buffer object that is not of one of the harness classes"""
    state = dict(depth=0)
    xb._vlog = []
    orig_alloc, orig_free = xb.allocate, xb.free

    def allocate(size, align=True):
        state["depth"] += 1
        try:
            off = orig_alloc(size, align=align)
        finally:
            state["depth"] -= 1
        if state["depth"] == 0:
            xb._vlog.append(("alloc", int(off), int(size)))
        return off

    def free(offset, size):
        r = orig_free(offset, size)
        xb._vlog.append(("free", int(offset), int(size)))
        return r

    def raw():
        b = xb.buffer
        data = bytes(b) if isinstance(b, bytearray) else b.tobytes()
        return data[: xb.capacity]
    xb.allocate, xb.free, xb.raw = allocate, free, raw


_BUFCLS = None


def buffer_classes():
    global _BUFCLS
    if _BUFCLS is None:
        _BUFCLS = _mk_buffer_classes()
    return _BUFCLS


class World:
    def __init__(self, rng, ns=None, nbuf=3, caps=None, aligns=None, dirty=True):
        self.xo = C.use_repo()
        self.rng = rng
        self.ns = ns or X.Namespace()
        VNumpy, VByteArray = buffer_classes()
        self.ctxs = [self.xo.ContextCpu(), self.xo.ContextCpu()]
        self.bufs = []
        kinds = [rng.choice([VNumpy, VNumpy, VByteArray]), rng.choice([VNumpy, VByteArray])]   # one buffer kind per context, as contexts create them
        for i in range(nbuf):
            cls = kinds[0 if i < 2 else 1]
            cap = caps[i] if caps else rng.choice([0, 8, 64, 64, 256, 1024])
            al = aligns[i] if aligns else rng.choice([1, 1, 1, 8, 8, 16, 64])
            b = cls(capacity=cap, context=self.ctxs[0 if i < 2 else 1], default_alignment=al)
            b._vlog = []
            self.bufs.append(b)
        self.snap = [b"" for _ in self.bufs]
        self.steps = []
        self.handles = {}        # (b, a) -> dict(tx, ctor=handle|None, parent=(rootkey, accessor path)|None)
        self.shadow = {}         # (b, a) -> value in normal form (shallow refs)
        self.prog = []           # human-readable program
        self.record("noise", reads=False)
        if dirty:
            self.dirty()

    # ------------------------------------------------------------------ logging
    def _diff(self):
        memd, caps = [], []
        for i, b in enumerate(self.bufs):
            new, old = b.raw(), self.snap[i]
            caps.append(len(new))
            n = min(len(old), len(new))
            j = 0
            if old[:n] != new[:n]:
                a_old, a_new = np.frombuffer(old[:n], dtype=np.uint8), np.frombuffer(new[:n], dtype=np.uint8)
                idx = np.nonzero(a_old != a_new)[0]
                start = prev = None
                for x in idx.tolist():
                    if start is None:
                        start = prev = x
                    elif x == prev + 1:
                        prev = x
                    else:
                        memd.append([i + 1, start, list(new[start:prev + 1])])
                        start = prev = x
                if start is not None:
                    memd.append([i + 1, start, list(new[start:prev + 1])])
            if len(new) > n:
                memd.append([i + 1, n, list(new[n:])])
            self.snap[i] = new
        return caps, memd

    def _drain(self):
        al, fr = [], []
        for i, b in enumerate(self.bufs):
            for kind, off, size in b._vlog:
                (al if kind == "alloc" else fr).append([i + 1, off, size])
            b._vlog.clear()
        return al, fr

    def record(self, op, reads=True, exc="", **fields):
        caps, memd = self._diff()
        al, fr = self._drain()
        ev = dict(op=op, cap=caps, memd=memd, alloc=al, free=fr, exc=exc, reads=self.reads() if reads else [])
        ev.update(fields)
        self.steps.append(ev)
        return ev

    # ------------------------------------------------------------------ handles and routes
    def routes(self, key):
        h = self.handles[key]
        r = ["view"]
        if h.get("ctor") is not None:
            r.append("ctor")
        if h.get("parent") is not None and self.parent_valid(key):
            r.append("parent")
        tx = h["tx"]
        if tx["k"] == "arr" and tx["it"]["k"] == "sc":
            r.append("nplike")
        if h.get("hybrid") is not None:
            r.append("hybrid")
        return r

    def parent_valid(self, key):
        """is the object still reachable from its recorded root along the recorded accessor path (per the shadow)?"""
        rootkey, path = self.handles[key]["parent"]
        if rootkey not in self.shadow:
            return False
        ck, tx, v = rootkey, self.handles[rootkey]["tx"], self.shadow[rootkey]
        for s in path:
            if tx["k"] in ("ref", "uref"):
                if v["null"]:
                    return False
                ck = (ck[0], v["at"])
                if ck not in self.shadow:
                    return False
                tx, v = self.handles[ck]["tx"], self.shadow[ck]
            if s[0] == "f":
                tx, v = tx["f"][s[1]], v[s[1]]
            else:
                j = int(np.ravel_multi_index(s[1], v["sh"]))
                tx, v = tx["it"], v["it"][j]
        return tx["k"] in ("ref", "uref") and not v["null"] and (ck[0], v["at"]) == key

    def fetch(self, key, route):
        h = self.handles[key]
        if route == "ctor":
            return h["ctor"]
        if route == "view":
            return self.ns.cls(h["tx"])._from_buffer(self.bufs[key[0]], key[1])
        if route == "nplike":
            return self.fetch(key, "ctor" if h.get("ctor") is not None else "view")
        if route == "hybrid":
            return h["hybrid"]
        rootkey, path = h["parent"]
        x = self.fetch(rootkey, "ctor" if self.handles[rootkey].get("ctor") is not None else "view")
        return self.walk(x, path)

    def npint(self, q):
        """the index q as a NumPy integer of a random type that can represent it"""
        types = [t for t in (np.uint8, np.int8, np.int16, np.uint16, np.int32, np.uint32, np.int64, np.intp) if np.iinfo(t).min <= q <= np.iinfo(t).max]
        return self.rng.choice(types)(q)

    def walk(self, x, path):
        for s in path:
            if s[0] == "f":
                x = getattr(x, self.ns.fname(s[1]))
            elif s[0] == "i":
                x = x[tuple(s[1])]
        return x

    def reads(self):
        out = []
        for key in list(self.handles):
            tx = self.handles[key]["tx"]
            try:
                routes = self.routes(key)
            except Exception:           # noqa: the bookkeeping of routes lost track (only after the library misbehaved): the plain view still works
                routes = ["view"]
            for route in routes:
                v, size, strides, exc = [], -1, [], ""
                try:
                    x = self.fetch(key, route)
                    if route == "nplike":
                        a = x.to_nplike() if self.rng.random() < 0.5 else x.to_nparray()
                        dt = np.dtype(tx["it"]["np"].lower())
                        if a.dtype != dt:
                            raise TypeError("to_nplike dtype")
                        if a.size > (4096 if not getattr(self, "big_ok", False) else 20000):
                            raise OverflowError("implausible shape")
                        v = {"sh": [int(d) for d in a.shape], "it": [list(a[idx].tobytes()) for idx in np.ndindex(*a.shape)]}
                        size, strides = -1, [int(q) for q in a.strides]
                    elif route == "hybrid":
                        v = X.read_value(self.ns, tx, x)
                    else:
                        v = X.read_value(self.ns, tx, x)
                        size, strides = X.meta_of(tx, x)
                except Exception as ex:        # noqa: the verdict on a raising accessor is TLC's ("read:<route>:raised")
                    exc = type(ex).__name__
                    v = []
                out.append(dict(b=key[0] + 1, a=key[1], route=route, v=v, size=size, strides=strides, exc=exc))
        return out

    # ------------------------------------------------------------------ placement noise
    def dirty(self):
        """prior allocations and frees: leave used (non-poison, non-zero) free memory and live neighbours behind"""
        rng = self.rng
        for i, b in enumerate(self.bufs):
            regs = []
            for _ in range(rng.randint(0, 3)):
                size = rng.choice([1, 5, 8, 24, 40])
                off = b.allocate(size, align=rng.random() < 0.7)
                b.update_from_buffer(off, bytes([rng.choice([0x5A, 0xFF, 0x01])]) * size)
                regs.append((off, size))
            for off, size in regs:
                if rng.random() < 0.6:
                    b.free(off, size)
        self.prog.append("dirty")
        self.record("noise", reads=False)

    def wedge(self, b, size=None):
        """a live odd-sized neighbour (packed): whatever is allocated next in a buffer of alignment 1 starts at another residue mod 8"""
        size = size or self.rng.choice([1, 3, 5, 13])
        buf = self.bufs[b]
        off = buf.allocate(size, align=False)
        buf.update_from_buffer(off, bytes([0x3C]) * size)
        self.prog.append(f"wedge b={b} {size} -> {off}")
        self.record("noise", reads=False)

    # ------------------------------------------------------------------ reference choices
    def refchoice(self, tx, b, allow=("null", "alias", "new", "foreign")):
        rng = self.rng
        if getattr(self, "forced", None):           # a TLC-generated history prescribes how this reference is bound
            return self.forced.pop(0)
        targets = [tx["to"]] if tx["k"] == "ref" else tx["of"]
        tkeys = [X.key(t) for t in targets]
        alias = [k for k, h in self.handles.items() if k[0] == b and X.key(h["tx"]) in tkeys]
        foreign = [k for k, h in self.handles.items() if k[0] != b and X.key(h["tx"]) in tkeys]
        opts = [o for o in allow if (o != "alias" or alias) and (o != "foreign" or foreign)]
        o = rng.choice(opts)
        if o == "null":
            return ("null",)
        if o == "alias":
            k = rng.choice(alias)
            route = rng.choice([r for r in self.routes(k) if r not in ("nplike", "hybrid")])
            return ("alias", k[1], tkeys.index(X.key(self.handles[k]["tx"])), self.fetch(k, route))
        if o == "foreign":
            k = rng.choice(foreign)
            return ("foreign", tkeys.index(X.key(self.handles[k]["tx"])), (k[0] + 1, k[1]), self.fetch(k, rng.choice([r for r in self.routes(k) if r not in ("nplike", "hybrid")])))
        return ("new", rng.randrange(len(targets)))

    def gen(self, allow=("null", "alias", "new", "foreign"), like_buf=None, **kw):
        kw.setdefault("capacity_p", getattr(self, "capacity_p", 0.15))
        kw.setdefault("xobj_p", getattr(self, "xobj_p", 0.12))

        def lookup(at):         # the object a reference of the `like` value denotes (references stay in the buffer of `like`)
            k = (like_buf, at)
            return (self.handles[k]["tx"], self.shadow[k]) if like_buf is not None and k in self.shadow else None
        g = X.Gen(self.ns, self.rng, refchoice=lambda tx, b: self.refchoice(tx, b, allow),
                  lookup=lookup, xobj=self.xobj_choice if "foreign" in allow else None, **kw)
        g.omit_p = 0 if getattr(self, "forced", None) else getattr(self, "omit_p", 0.08)
        g.force_ext = getattr(self, "force_ext", None)
        if like_buf is not None and not getattr(self, "forced", None):
            # "keeps its value" as an input form: the current value with its references denoting the same referents
            g.keep = lambda ftx, cur: (None if _unknown_cap(ftx, cur) else self.copy_input(ftx, cur, like_buf, True))
        return g

    def xobj_choice(self, tx, b):
        """an existing object of type tx (any buffer) used as the value of a nested part: (expected input form, handle)"""
        k = X.key(tx)
        c = [key for key, h in self.handles.items() if X.key(h["tx"]) == k and not _unknown_cap(tx, self.shadow[key]) and not X.has_slack(tx, self.shadow[key])]
        # ... or a nested part of an existing object (a view handed out by the library: a field, an item)
        parts = []
        for key in list(self.handles):
            if len(parts) > 12:
                break
            for acc, last, etx, cur in self.all_elems(key, limit=30):
                if etx["k"] in ("struct", "arr") and X.key(etx) == k and not _unknown_cap(etx, cur) and not X.has_slack(etx, cur):
                    parts.append((key, acc + [last], cur))
        if not c and not parts:
            return None
        if parts and (not c or self.rng.random() < 0.5):
            key, acc, cur = self.rng.choice(parts)
            try:
                h = self.walk(self.fetch(key, self.rng.choice([r for r in self.routes(key) if r not in ("nplike", "hybrid")])), acc)
            except Exception:       # noqa
                return None
            return self.copy_input(tx, cur, key[0], key[0] == b), h
        key = self.rng.choice(c)
        inp = self.copy_input(tx, self.shadow[key], key[0], key[0] == b)
        return inp, self.fetch(key, self.rng.choice([r for r in self.routes(key) if r not in ("nplike", "hybrid")]))

    # ------------------------------------------------------------------ shadow maintenance (generation only)
    def to_shadow(self, tx, inp, x, b, rootkey, path):
        """input form -> shadow value; registers the handles of referents the operation created. x = library handle/value at this position"""
        k = tx["k"]
        if k in ("sc", "str"):
            return inp
        if k == "struct":
            if not X.has_refs(tx):
                return inp
            return [self.to_shadow(f, inp[i], getattr(x, self.ns.fname(i)) if X.has_refs(f) else None, b, rootkey, path + [("f", i)])
                    for i, f in enumerate(tx["f"])]
        if k == "arr":
            if not X.has_refs(tx):
                return inp
            its = [self.to_shadow(tx["it"], inp["it"][n], x[idx], b, rootkey, path + [("i", list(idx))])
                   for n, idx in enumerate(np.ndindex(*inp["sh"]))]
            return {"sh": inp["sh"], "it": its}
        r = inp["r"]
        if r == "null":
            return {"null": True, "at": -1, "tid": -1}
        if r == "alias":
            return {"null": False, "at": inp["at"], "tid": inp["tid"]}
        tt = tx["to"] if k == "ref" else tx["of"][inp["tid"]]
        if x is None:
            raise RuntimeError("library returned None for a reference the operation should have bound")   # history ends here; TLC decides on the recorded step
        tkey = (b, int(x._offset))
        if r == "foreign":
            src = (inp["src"][0] - 1, inp["src"][1])
            v = self.copy_input(tt, self.shadow[src], src[0], False)
        else:
            v = inp["v"]
        self.handles[tkey] = dict(tx=tt, ctor=None, parent=(rootkey, path))
        self.shadow[tkey] = self.to_shadow(tt, v, x, b, rootkey, path)
        return {"null": False, "at": tkey[1], "tid": inp["tid"]}

    def copy_input(self, tx, v, sb, same):
        """mirror of XoHeap!AsCopyInput (used only to register handles of duplicated referents)"""
        k = tx["k"]
        if k == "sc":
            return v
        if k == "str":      # how much room the copy's box has is the implementation's choice unless the source box is exact
            return v if not X.has_slack(tx, v) else X.strval(v, None)
        if k == "struct":
            return [self.copy_input(f, v[i], sb, same) for i, f in enumerate(tx["f"])]
        if k == "arr":
            return {"sh": v["sh"], "it": [self.copy_input(tx["it"], w, sb, same) for w in v["it"]]}
        if v["null"]:
            return {"r": "null"}
        if same:
            return {"r": "alias", "at": v["at"], "tid": v["tid"]}
        tt = tx["to"] if k == "ref" else tx["of"][v["tid"]]
        return {"r": "new", "tid": v["tid"], "v": self.copy_input(tt, self.shadow[(sb, v["at"])], sb, same)}

    def safe_register(self, fn):
        """handle registration walks the new object with the library's accessors; if THAT fails the step is still recorded
        (TLC decides what is wrong) and the history simply ends there"""
        try:
            fn()
            return True
        except C.MachineryError:
            raise
        except Exception:            # noqa
            return False

    # ------------------------------------------------------------------ operations
    def new(self, tx, b, placement=None, allow=("null", "alias", "new", "foreign"), value=None, form=None, at=None, **genkw):
        """construct an object of type tx in buffer b; returns its key or None when the history cannot continue"""
        rng = self.rng
        cls = self.ns.cls(tx)
        buf = self.bufs[b]
        if value is not None:
            inp, py = value
        else:
            # keep objects model-sized: TLC decodes every object after every step (cost grows with the square of the item count)
            st = rng.getstate()
            for md in (genkw.pop("maxdim", 3), 2, 1, 1):
                inp, py = self.gen(allow, maxdim=md, **genkw).value(tx, b)
                if _total_size(tx, inp) <= 1500:
                    break
        placement = placement or rng.choice(["default", "default", "aligned", "packed", "explicit", "context"])
        kw = dict(_buffer=buf)
        if at is not None:
            try:
                o0 = int(buf.allocate(0, align=False))
                if at > o0 and (not buf.chunks or o0 >= buf.chunks[-1].start):      # only pad at the tail: nothing is skipped
                    buf.allocate(at - o0, align=False)
                    placement = "packed"
            except Exception:       # noqa: placement is best effort
                pass
        if placement in ("aligned", "packed"):
            kw["_offset"] = placement
        elif placement == "context" and not X.has_refs(tx):
            kw = dict(_context=buf.context)         # a fresh buffer of that context: not one of ours -> only usable for ref-free objects
            placement = "default"
            kw = dict(_buffer=buf)
        elif placement == "explicit" and not X.has_refs(tx) and not _unknown_cap(tx, inp) and value is None:
            # the caller reserves the region itself and passes its offset (the size by the documented format)
            try:
                kw["_offset"] = int(buf.allocate(_size_of(tx, inp), align=rng.random() < 0.5))
            except Exception:       # noqa
                placement = "default"
        if tx["k"] == "struct" and rng.random() < 0.5:
            args, kwargs = (), dict(py)
        elif isinstance(py, X.Dims):
            args, kwargs = tuple(py), {}
        else:
            args, kwargs = (py,), {}
        exc, h = "", None
        try:
            h = cls(*args, **kwargs, **kw)
        except Exception as ex:             # noqa
            exc = type(ex).__name__ + ":" + str(ex)[-160:]
            if C.os.environ.get("VERIF_DEBUG"):
                import traceback
                traceback.print_exc()
                print("ARGS", repr(args)[:600], repr(kwargs)[:300])
        self.prog.append(f"new {X.key(tx)[:60]} b={b} {placement} -> {None if h is None else h._offset} {exc}")
        if h is None:
            self.record("rejected", reads=False, exc=exc, what="new", form=_form(py))
            return None
        a = int(h._offset)
        key = (b, a)
        self.handles[key] = dict(tx=tx, ctor=h, parent=None)
        ok = self.safe_register(lambda: self.shadow.__setitem__(key, self.to_shadow(tx, inp, h, b, key, [])))
        size = getattr(h, "_size", None)
        self.record("new", b=b + 1, a=a, t=tx, val=inp, size=int(size) if size is not None else -1, form=_form(py))
        return key if ok else None

    def grow(self, b, how=None):
        buf = self.bufs[b]
        how = how or self.rng.choice(["grow", "allocate"])
        if how == "grow":
            buf.grow(self.rng.choice([1, 8, 64, 100]))
        else:
            cap = buf.capacity
            while buf.capacity == cap:
                buf.allocate(self.rng.choice([16, 64, 256]))
        self.prog.append(f"grow b={b} {how} -> {buf.capacity}")
        self.record("grow")

    def elem_paths(self, key, want=None):
        """random walk from object key to an assignable element: returns (path for TLC, accessor path to parent, last step, elem tx, current shadow value, owner buffer)"""
        rng = self.rng
        tx, v = self.handles[key]["tx"], self.shadow[key]
        path, acc = [], []
        b = key[0]
        while True:
            k = tx["k"]
            if k == "struct":
                if not tx["f"]:
                    return None
                cand = [i for i, f in enumerate(tx["f"]) if X.has_refs(f)] if want == "ref" else []
                i = rng.choice(cand) if cand and rng.random() < 0.85 else rng.randrange(len(tx["f"]))
                step, ntx, nv = ("f", i), tx["f"][i], v[i]
            elif k == "arr":
                n = len(v["it"])
                if n == 0:
                    return None
                j = rng.randrange(n)
                idx = [int(q) for q in np.unravel_index(j, v["sh"])]
                step, ntx, nv = ("i", idx), tx["it"], v["it"][j]
            else:
                return None
            path.append({"f": step[1] + 1} if step[0] == "f" else {"i": step[1]})
            # stop here?
            nk = ntx["k"]
            stop = nk in ("sc", "str") or (nk in ("ref", "uref") and (nv["null"] or rng.random() < 0.5)) or \
                (nk in ("struct", "arr") and rng.random() < (0.25 if want != "leaf" else 0.0) and not X.has_slack(ntx, nv))
            if nk == "arr" and len(nv["it"]) == 0:
                stop = True
            if nk == "struct" and not ntx["f"]:
                stop = True
            if stop:
                return path, acc, step, ntx, nv, b
            acc.append(step)
            if nk in ("ref", "uref"):
                path.append({"d": 1})
                tt = ntx["to"] if nk == "ref" else ntx["of"][nv["tid"]]
                tkey = (b, nv["at"])
                tx, v = tt, self.shadow[tkey]
            else:
                tx, v = ntx, nv

    def explicit_path(self, key, steps):
        """(TLC path, accessor path to parent, last step, elem tx, shadow value, buffer) for the accessor steps given
        (references on the way are followed: the library dereferences them implicitly)"""
        tx, v, b = self.handles[key]["tx"], self.shadow[key], key[0]
        path, acc = [], []
        if not steps:               # the object itself (in-place update of a retained handle)
            return [], [], None, tx, v, b
        for n, s_ in enumerate(steps):
            if tx["k"] in ("ref", "uref"):
                if v["null"]:
                    return None
                path.append({"d": 1})
                tk = (b, v["at"])
                tx, v = self.handles[tk]["tx"], self.shadow[tk]
            if s_[0] == "f":
                path.append({"f": s_[1] + 1})
                tx, v = tx["f"][s_[1]], v[s_[1]]
            else:
                path.append({"i": list(s_[1])})
                j = int(np.ravel_multi_index(s_[1], v["sh"]))
                tx, v = tx["it"], v["it"][j]
            if n < len(steps) - 1:
                acc.append(s_)
        return path, acc, steps[-1], tx, v, b

    def set(self, key, allow=("null", "alias", "new", "foreign"), want=None, np_forms=True, target=None, no_from=False, from_p=0.35):
        """assign a fitting value to a random element reachable from object key, through a random route"""
        rng = self.rng
        ep = self.elem_paths(key, want) if target is None else self.explicit_path(key, target)
        if ep is None:
            return False
        path, acc, last, etx, cur, b = ep
        route = rng.choice([r for r in self.routes(key) if r not in ("nplike", "hybrid")])
        frm = None
        refish = etx["k"] in ("struct", "arr") and X.has_refs(etx)
        if refish and from_p > 0:
            from_p = max(from_p, 0.55)      # parts that hold references: whole-part assignment from another OBJECT is where relative words move
        if etx["k"] in ("struct", "arr") and not no_from and rng.random() < from_p:
            # the value is an object of the same type and skeleton living in some buffer (possibly at the same offset elsewhere)
            sb = b if refish and rng.random() < 0.5 else rng.randrange(len(self.bufs))
            g = self.gen(("null", "alias", "new") if sb != b else allow, np_forms=np_forms, like_buf=b)
            g.permute_fields = True
            g.keep = None               # (this value CONSTRUCTS an object: what a dictionary omits there is the default)
            val = g.value(etx, sb, like=cur)
            dest_abs = None
            try:
                dest_abs = int(self.walk(self.fetch(key, "view"), acc + ([last] if last else []))._offset)
            except Exception:       # noqa
                pass
            sk = self.new(etx, sb, value=val, at=dest_abs if (sb != b and rng.random() < 0.5) else None)
            if sk is None:
                return False
            frm = sk
            inp, py = [], self.fetch(sk, rng.choice(["ctor", "view"]))
        else:
            inp, py = self.gen(allow, np_forms=np_forms, like_buf=b, dims_p=0).value(etx, b, like=cur)     # (dimensions are a constructor form only)
        exc = ""
        try:
            parent = self.walk(self.fetch(key, route), acc)
            if last is None:
                parent._update(py)          # the documented in-place update of an existing object, on the retained handle
            elif last[0] == "f":
                setattr(parent, self.ns.fname(last[1]), py)
            else:
                idx = tuple(last[1])
                if rng.random() < getattr(self, "npidx_p", 0.15):
                    idx = tuple(self.npint(q) for q in idx)        # indices that are NumPy integers of any width that holds them
                parent[idx[0] if len(idx) == 1 and rng.random() < 0.5 else idx] = py
        except Exception as ex:          # noqa: a fitting assignment that raises is reported by TLC as set:raised
            exc = type(ex).__name__ + ":" + str(ex)[-160:]
        self.prog.append(f"set {key} {path} via {route} form={_form(py)} {exc}")
        ok = True
        if not exc:
            def upd():
                # owner of the element and the local path inside it (mirror of XoHeap!Owner, for generation only)
                okey, lp, otx = key, [], self.handles[key]["tx"]
                ov = self.shadow[key]
                cur_tx, cur_v = otx, ov
                accfull = []
                for s in path:
                    if "d" in s:
                        okey = (b, cur_v["at"])
                        cur_tx, cur_v = self.handles[okey]["tx"], self.shadow[okey]
                        lp = []
                        continue
                    lp.append(s)
                    if "f" in s:
                        cur_tx, cur_v = cur_tx["f"][s["f"] - 1], cur_v[s["f"] - 1]
                    else:
                        j = int(np.ravel_multi_index(s["i"], cur_v["sh"])) if cur_v["sh"] else 0
                        cur_tx, cur_v = cur_tx["it"], cur_v["it"][j]
                # handle for the new value position: re-read through the library (only needed when referents were created)
                x = None
                if X.has_refs(etx):
                    x = self.walk(self.fetch(key, route), acc + ([last] if last else []))
                inp2 = inp if frm is None else self.copy_input(etx, self.shadow[frm], frm[0], frm[0] == b)
                nv = self.to_shadow(etx, inp2, x, b, key, acc + ([last] if last else []))
                self.shadow[okey] = _set_at(self.handles[okey]["tx"], self.shadow[okey], lp, nv)
            ok = self.safe_register(upd)
        extra = {} if frm is None else {"from": [frm[0] + 1, frm[1]]}
        self.record("set", b=key[0] + 1, a=key[1], path=path, val=inp, route=route, exc=exc, form=_form(py), **extra)
        return ok and not exc

    def update(self, key, allow=("null", "alias", "new", "foreign"), from_p=0.35):
        """in-place update of the whole object through a retained handle (T._update, the documented way to give an existing
        object new values), with plain data or with another object of the same type and size"""
        tx, v = self.handles[key]["tx"], self.shadow[key]
        if tx["k"] not in ("struct", "arr") or X.has_slack(tx, v) or (tx["k"] == "arr" and not v["it"]) or (tx["k"] == "struct" and not tx["f"]):
            return None
        return self.set(key, allow=allow, target=[], from_p=from_p)

    # ------------------------------------------------------------------ misuse (C11)
    def all_elems(self, key, limit=60):
        """every field/item position inside object key (no dereference): (accessor path to parent, last step, elem tx, shadow value)"""
        out = []

        def walk(tx, v, acc):
            if len(out) >= limit:
                return
            if tx["k"] == "struct":
                for i, f in enumerate(tx["f"]):
                    out.append((list(acc), ("f", i), f, v[i]))
                    walk(f, v[i], acc + [("f", i)])
            elif tx["k"] == "arr":
                for j, idx in enumerate(np.ndindex(*v["sh"])):
                    if j >= 4:
                        break
                    out.append((list(acc), ("i", [int(q) for q in idx]), tx["it"], v["it"][j]))
                    walk(tx["it"], v["it"][j], acc + [("i", [int(q) for q in idx])])
        walk(self.handles[key]["tx"], self.shadow[key], [])
        return out

    def err(self, kind, force=None):
        """perform one operation that cannot be honoured; returns False when no applicable target exists"""
        rng = self.rng
        keys = list(self.handles)
        rng.shuffle(keys)
        exc, detail, tag = "", "", ""

        def attempt(fn):
            nonlocal exc
            try:
                fn()
            except Exception as ex:     # noqa: expected; TLC checks that it raised and that nothing changed
                exc = type(ex).__name__

        def parent_of(key, acc):
            return self.walk(self.fetch(key, rng.choice([r for r in self.routes(key) if r not in ("nplike", "hybrid")])), acc)

        def assign(key, acc, last, py):
            par = parent_of(key, acc)
            if last[0] == "f":
                setattr(par, self.ns.fname(last[1]), py)
            else:
                par[tuple(last[1])] = py

        found = False
        for key in keys:
            tx = self.handles[key]["tx"]
            elems = self.all_elems(key)
            rng.shuffle(elems)
            if kind in ("index-get", "index-set"):
                arrs = [(acc + [last], etx, cur) for acc, last, etx, cur in elems if etx["k"] == "arr"]
                if tx["k"] == "arr":
                    arrs.append(([], tx, self.shadow[key]))
                arrs = [a for a in arrs if a[1]["it"]["k"] in ("sc", "str", "struct")]
                if not arrs:
                    continue
                acc, atx, cur = rng.choice(arrs)
                sh = cur["sh"]
                ax = rng.randrange(len(sh))
                idx = [rng.randrange(d) if d > 0 else 0 for d in sh]
                idx[ax] = rng.choice([sh[ax], sh[ax] + 3, -1, -sh[ax] - 1])
                detail = f"{key} {acc} idx={idx} shape={sh} item={atx['it']['k']}" + ("-dyn" if not X.is_static(atx["it"]) else "")
                tag = ("negative" if idx[ax] < 0 else "beyond") + ("-dynitem" if not X.is_static(atx["it"]) else "-staticitem")
                if kind == "index-get":
                    attempt(lambda: self.walk(self.fetch(key, "view"), acc)[tuple(idx)])
                else:
                    like = cur["it"][0] if cur["it"] else None
                    if like is None:
                        continue
                    val = self.gen(("null",)).value(atx["it"], key[0], like=like)[1]
                    attempt(lambda: self.walk(self.fetch(key, "view"), acc).__setitem__(tuple(idx), val))
                found = True
                break
            if kind == "array-length":
                c = [(acc, last, etx, cur) for acc, last, etx, cur in elems if etx["k"] == "arr" and len(cur["it"]) > 0
                     and (len(etx["sh"]) == 1 or True)]
                if not c:
                    continue
                if force == "int":
                    c = [x_ for x_ in c if sum(1 for d in x_[2]["sh"] if d < 0) == 1]
                    if not c:
                        continue
                acc, last, etx, cur = rng.choice(c)
                sh = list(cur["sh"])
                ax = rng.randrange(len(sh))
                sh[ax] = sh[ax] + rng.choice([1, 2]) if rng.random() < 0.6 or sh[ax] < 2 else sh[ax] - 1
                if any(d >= 0 and d != n for d, n in zip(etx["sh"], sh)) and rng.random() < 0.5:
                    pass        # also static dimensions may be violated
                if not X.has_refs(etx) and any(d < 0 for d in etx["sh"]) and rng.random() < 0.3:
                    # an xobject of the same array class with ANOTHER shape (preferably one that needs the same number of bytes)
                    sh2 = None
                    for _ in range(30):
                        cand_sh = [d if decl >= 0 else rng.choice([0, 1, 2, 3, 4, 5]) for d, decl in zip(cur["sh"], etx["sh"])]
                        if cand_sh != list(cur["sh"]):
                            sh2 = cand_sh
                            if X.is_static(etx["it"]) and ((int(np.prod(cand_sh)) * etx["it"].get("w", 8) + 7) // 8 == (int(np.prod(cur["sh"])) * etx["it"].get("w", 8) + 7) // 8):
                                break
                    if sh2 is not None:
                        n2 = int(np.prod(sh2))
                        g2 = self.gen(("null",), np_forms=False, dims_p=0)
                        vs2 = [g2.value(etx["it"], key[0]) for _ in range(n2)]
                        inp2 = {"sh": sh2, "it": [v[0] for v in vs2]}
                        py2 = X.nested([v[1] for v in vs2], sh2) if len(sh2) == 1 else None
                        if py2 is None:
                            o = np.empty(sh2, dtype=object)
                            for i_, idx_ in enumerate(np.ndindex(*sh2)):
                                o[idx_] = vs2[i_][1]
                            py2 = o
                        sk = self.new(etx, rng.randrange(len(self.bufs)), value=(inp2, py2))
                        if sk is None:
                            return False
                        srcobj = self.fetch(sk, "ctor")
                        detail = f"{key} {acc}{last} := xobject of the same class with shape {sh2} for stored shape {cur['sh']}"
                        tag = f"{len(sh2)}d-xobject-other-shape"
                        attempt(lambda: assign(key, acc, last, srcobj))
                        found = True
                        break
                ndyn = [i for i, d in enumerate(etx["sh"]) if d < 0]
                if len(ndyn) == 1 and (force == "int" or rng.random() < 0.3):
                    # an INTEGER (the length form of an array with one dynamic dimension) other than the stored extent of that dimension:
                    # the total number of items, one more, one less, zero
                    ext = cur["sh"][ndyn[0]]
                    cands = [n_ for n_ in (len(cur["it"]), ext + 1, ext - 1, 0, 2 * ext) if n_ >= 0 and n_ != ext]
                    if cands:
                        n_ = rng.choice(cands[:1] * 3 + cands)
                        detail = f"{key} {acc}{last} := integer {n_} for stored shape {cur['sh']}"
                        tag = f"{len(cur['sh'])}d-integer-other-length"
                        attempt(lambda: assign(key, acc, last, n_))
                        found = True
                        break
                if etx["it"]["k"] == "sc" and rng.random() < 0.35:
                    # an ndarray of HIGHER rank whose leading dimensions equal the stored shape
                    extra_dim = rng.choice([2, 3])
                    py = np.arange(int(np.prod(cur["sh"])) * extra_dim).reshape(list(cur["sh"]) + [extra_dim]).astype(etx["it"]["np"].lower())
                    detail = f"{key} {acc}{last} ndarray of shape {list(py.shape)} for stored shape {cur['sh']}"
                    tag = f"{len(cur['sh'])}d-staticitem-higher-rank-ndarray"
                    attempt(lambda: assign(key, acc, last, py))
                    found = True
                    break
                n = int(np.prod(sh))
                like0 = cur["it"][0]
                vs = [self.gen(("null",), np_forms=False).value(etx["it"], key[0], like=like0)[1] for _ in range(n)]
                py = X.nested(vs, sh) if len(sh) == 1 or X.is_static(etx["it"]) else None
                if py is None:
                    continue
                detail = f"{key} {acc}{last} new shape {sh} for stored {cur['sh']}"
                tag = f"{len(sh)}d" + ("-dynitem" if not X.is_static(etx["it"]) else "-staticitem") + ("-dynshape" if any(d < 0 for d in etx["sh"]) else "-staticshape") + ("-longer" if n > len(cur["it"]) else "-shorter")
                attempt(lambda: assign(key, acc, last, py))
                found = True
                break
            if kind == "string-too-long":
                c = [(acc, last, etx, cur) for acc, last, etx, cur in elems if etx["k"] == "str"]
                if not c:
                    continue
                acc, last, etx, cur = rng.choice(c)
                cap = getattr(cur, "cap", X.natural_cap(len(cur)))      # bytes available for text + NUL in the box
                if cap is None:
                    continue                                # capacity of this box is not known to the harness
                unit = rng.choice(["x", "é", "ab"])
                nb = cap + rng.choice([0, 0, 1, 2, 5, 8, 20])       # text bytes: from "one too many" upwards
                text = (unit * (nb // len(unit.encode()) + 1))
                while len(text.encode()) > nb:
                    text = text[:-1]
                if len(text.encode()) + 1 <= cap:
                    continue
                detail = f"{key} {acc}{last} text of {len(text.encode())} bytes into a box of {cap}"
                tag = "field" if last[0] == "f" else "item"
                attempt(lambda: assign(key, acc, last, text))
                found = True
                break
            if kind == "item-too-large":
                c = [(acc, last, etx, cur) for acc, last, etx, cur in elems if last[0] == "i" and etx["k"] in ("struct", "arr") and not X.is_static(etx)
                     and not X.has_refs(etx) and not _unknown_cap(etx, cur)]
                if not c:
                    continue
                acc, last, etx, cur = rng.choice(c)
                g = self.gen(("null",), np_forms=False, mindim=1)
                for _ in range(20):
                    inp, py = g.value(etx, key[0])
                    if _size_of(etx, inp) > _size_of(etx, cur):
                        break
                else:
                    continue
                detail = f"{key} {acc}{last} value of size {_size_of(etx, inp)} into an item of size {_size_of(etx, cur)}"
                tag = etx["k"]
                attempt(lambda: assign(key, acc, last, py))
                found = True
                break
            if kind == "struct-other-shape":
                # an array update of different length that arrives INSIDE a whole-struct assignment: the value is an instance of the
                # struct's own class that equals the current value except for ONE dynamically shaped array in it, which is shorter
                # or longer (all other fields keep their values, so nothing may change whichever field the library looks at first)
                c = [(acc, last, etx, cur) for acc, last, etx, cur in elems if etx["k"] == "struct"]
                if tx["k"] == "struct":
                    c.append(([], None, tx, self.shadow[key]))
                c = [x_ for x_ in c if not X.has_refs(x_[2]) and not _unknown_cap(x_[2], x_[3]) and _dyn_arrays(x_[2], x_[3])]
                if not c:
                    continue
                acc, last, etx, cur = rng.choice(c)
                apath, atx, acur = rng.choice(_dyn_arrays(etx, cur))
                ax = rng.choice([i_ for i_, d in enumerate(atx["sh"]) if d < 0])
                sh2 = list(acur["sh"])
                sh2[ax] = sh2[ax] - 1 if sh2[ax] >= 1 and rng.random() < 0.6 else sh2[ax] + rng.choice([1, 2])
                if len(acur["it"]) == 0:
                    continue
                items2 = []
                for idx_ in np.ndindex(*sh2):
                    j_ = int(np.ravel_multi_index([min(q, d - 1) for q, d in zip(idx_, acur["sh"])], acur["sh"]))
                    items2.append(acur["it"][j_])
                inp2 = _fresh_boxes(etx, _set_deep(etx, cur, apath, {"sh": sh2, "it": items2}))
                if _size_of(etx, inp2) == _size_of(etx, cur):
                    continue        # a value of the very size of what it replaces is a FITTING assignment (DESIGN 1.5), whatever its inner distribution
                try:
                    py2 = _py_of(self.ns, etx, inp2)
                except Exception:       # noqa: a value the harness cannot spell as python data
                    continue
                sk = self.new(etx, rng.randrange(len(self.bufs)), value=(inp2, py2), placement="default")
                if sk is None:
                    return False
                srcobj = self.fetch(sk, "ctor")
                detail = f"{key} {acc}{last} := instance of the same struct class whose array at {apath} has shape {sh2} for stored shape {acur['sh']}"
                tag = ("shorter" if sh2[ax] < acur["sh"][ax] else "longer") + ("-whole" if last is None else "-part")
                if last is None:
                    attempt(lambda: self.fetch(key, rng.choice(["view", "ctor"]))._update(srcobj))
                else:
                    attempt(lambda: assign(key, acc, last, srcobj))
                found = True
                break
            if kind == "union-non-member":
                c = [(acc, last, etx, cur) for acc, last, etx, cur in elems if etx["k"] == "uref"]
                if not c:
                    continue
                acc, last, etx, cur = rng.choice(c)
                members = [X.key(t) for t in etx["of"]]
                others = [k for k, h in self.handles.items() if X.key(h["tx"]) not in members and h["tx"]["k"] in ("struct", "arr")]
                if others and rng.random() < 0.7:
                    ok = rng.choice(others)
                    py = self.fetch(ok, "view")
                    detail = f"{key} {acc}{last} := object {ok} of a non-member type"
                else:
                    py = ("NoSuchMember", {})
                    detail = f"{key} {acc}{last} := ('NoSuchMember', {{}})"
                attempt(lambda: assign(key, acc, last, py))
                found = True
                break
            if kind in ("wrong-context", "offset-without-buffer"):
                if X.has_refs(tx):
                    continue
                cls = self.ns.cls(tx)
                src = self.fetch(key, "view")
                if kind == "wrong-context":
                    ob = [i for i, b in enumerate(self.bufs) if b.context is not self.bufs[key[0]].context]
                    if not ob:
                        continue
                    detail = f"{cls.__name__}(obj, _buffer=buffer of context B, _context=context A)"
                    attempt(lambda: cls(src, _buffer=self.bufs[ob[0]], _context=self.bufs[key[0]].context))
                else:
                    detail = f"{cls.__name__}(obj, _offset=8) without a buffer"
                    attempt(lambda: cls(src, _offset=8))
                found = True
                break
        if not found:
            return False
        self.prog.append(f"err {kind}: {detail} -> {exc or 'NO ERROR'}")
        self.record("err", kind=kind, exc=exc, detail=detail, tag=tag)
        return True

    def copy(self, key, db, whole=False):
        rng = self.rng
        tx = self.handles[key]["tx"]
        cls = self.ns.cls(tx)
        src = self.fetch(key, rng.choice([r for r in self.routes(key) if r not in ("nplike", "hybrid")]))
        spath, sval = [], self.shadow[key]
        parts = [(acc + [last], etx, cur) for acc, last, etx, cur in self.all_elems(key)
                 if etx["k"] in ("struct", "arr") and not _unknown_cap(etx, cur) and (etx["k"] != "struct" or etx["f"])]
        if parts and not whole and rng.random() < 0.4:
            # copy-construct from a nested compound part: the source handle is a view handed out by the library
            dyn = [p_ for p_ in parts if p_[1]["k"] == "arr" and not X.is_static(p_[1]["it"])]       # parts with an item-offset table of their own
            accp, tx, sval = rng.choice(dyn if dyn and rng.random() < 0.6 else parts)
            cls = self.ns.cls(tx)
            try:
                src = self.walk(src, accp)
            except Exception:           # noqa
                return None
            spath = [{"f": s_[1] + 1} if s_[0] == "f" else {"i": list(s_[1])} for s_ in accp]
            self.last_copied_part = (key, accp)
        exc, h = "", None
        try:
            if self.bufs[db].context is not self.bufs[key[0]].context and rng.random() < 0.0:
                h = cls(src, _context=self.bufs[db].context)
            else:
                h = cls(src, _buffer=self.bufs[db])
        except Exception as ex:          # noqa
            exc = type(ex).__name__ + ":" + str(ex)[-160:]
        self.prog.append(f"copy {key}{spath if spath else ''} -> b={db} {None if h is None else h._offset} {exc}")
        if h is None:
            self.record("copy", src=[key[0] + 1, key[1]], spath=spath, b=db + 1, a=-1, size=-1, exc=exc)
            return None
        a = int(h._offset)
        nk = (db, a)
        inp = self.copy_input(tx, sval, key[0], key[0] == db)
        self.handles[nk] = dict(tx=tx, ctor=h, parent=None)
        ok = self.safe_register(lambda: self.shadow.__setitem__(nk, self.to_shadow(tx, inp, h, db, nk, [])))
        size = getattr(h, "_size", None)
        self.record("copy", src=[key[0] + 1, key[1]], spath=spath, b=db + 1, a=a, size=int(size) if size is not None else -1)
        return nk if ok else None

    def history(self):
        n = len(self.bufs)
        for e in self.steps:
            e["cap"] = e["cap"] + [0] * (n - len(e["cap"]))
        return dict(nbuf=n, steps=self.steps)

    def compile_kernel(self, ci):
        """compile and call a tiny kernel in context ci (both when ci is None); built in a scratch directory"""
        import tempfile, shutil
        xo = self.xo
        src = "/*gpukern*/ void vk_add(const int n, /*gpuglmem*/ double* x){ for (int ii = 0; ii < n; ii++) { x[ii] += 1; } }"
        cwd = os.getcwd()
        tmp = tempfile.mkdtemp(prefix="vk_")
        try:
            os.chdir(tmp)
            ctx = self.ctxs[ci]
            ctx.add_kernels(sources=[src], kernels={"vk_add": xo.Kernel(args=[xo.Arg(xo.Int32, name="n"), xo.Arg(xo.Float64, pointer=True, name="x")])})
            a = np.zeros(3)
            ctx.kernels.vk_add(n=3, x=a)
            if list(a) != [1.0, 1.0, 1.0]:
                raise C.MachineryError("the probe kernel did not run")
        finally:
            os.chdir(cwd)
            shutil.rmtree(tmp, ignore_errors=True)
        self.prog.append(f"kernel compiled and called in context {ci}")

    # ------------------------------------------------------------------ hybrid classes and pickling (C20)
    def new_hybrid(self, tx, b):
        """a HybridClass whose data struct has type tx (a struct); the hybrid's _XoStruct becomes THE class of tx in this namespace"""
        xo = self.xo
        k = X.key(tx)
        if k in self.ns.cache:
            return None
        fields = {self.ns.fname(i): self.ns.cls(f) for i, f in enumerate(tx["f"])}
        name = f"{self.ns.prefix}H{self.ns.fresh()}"
        H = type(xo.HybridClass)(name, (xo.HybridClass,), {"_xofields": fields})
        X.importable(H)
        X.importable(H._XoStruct)
        self.ns.cache[k] = H._XoStruct
        inp, py = self.gen(("null", "new", "alias") if getattr(self, "forced", None) else ("null", "new")).value(tx, b)
        exc, h = "", None
        try:
            h = H(**py, _buffer=self.bufs[b])
        except Exception as ex:         # noqa
            exc = type(ex).__name__ + ":" + str(ex)[-160:]
        self.prog.append(f"new hybrid {X.key(tx)[:60]} b={b} -> {None if h is None else h._offset} {exc}")
        if h is None:
            self.record("rejected", reads=False, exc=exc, what="new", form="hybrid")
            return None
        key = (b, int(h._offset))
        self.handles[key] = dict(tx=tx, ctor=h._xobject, parent=None, hybrid=h)
        ok = self.safe_register(lambda: self.shadow.__setitem__(key, self.to_shadow(tx, inp, h._xobject, b, key, [])))
        self.record("new", b=b + 1, a=key[1], t=tx, val=inp, size=-1, form="hybrid")
        return key if ok else None

    def pickle(self, keys):
        """pickle a group of objects together, unpickle, and adopt the twins (and their buffers) into the world"""
        import pickle
        objs = []
        for k in keys:
            h = self.handles[k]
            objs.append(h["hybrid"] if h.get("hybrid") is not None else
                        self.fetch(k, "ctor" if h.get("ctor") is not None else "view"))
        exc, twins = "", None
        try:
            twins = pickle.loads(pickle.dumps(tuple(objs)))
        except Exception as ex:         # noqa
            exc = type(ex).__name__ + ":" + str(ex)[-160:]
        self.prog.append(f"pickle {keys} {exc}")
        if twins is None:
            self.record("pickle", group=[], exc=exc, reads=False)
            return None
        newbuf = {}
        group, newkeys = [], []
        for k, t in zip(keys, twins):
            xb = t._buffer
            if id(xb) not in newbuf:
                if any(xb is ob for ob in self.bufs):
                    newbuf[id(xb)] = [i for i, ob in enumerate(self.bufs) if ob is xb][0]     # NOT independent: TLC will say so
                else:
                    if not hasattr(xb, "raw"):      # a buffer the library created on its own while pickling / unpickling: observe it like the others
                        _instrument(xb)
                    if getattr(xb, "_vlog", None) is None:
                        xb._vlog = []
                    xb._vlog.clear()
                    self.bufs.append(xb)
                    self.snap.append(b"")
                    newbuf[id(xb)] = len(self.bufs) - 1
            nb = newbuf[id(xb)]
            nk = (nb, int(t._offset))
            group.append([k[0] + 1, k[1], nb + 1, nk[1]])
            newkeys.append(nk)
        # adopt twins: same type; shadow relocated under the assumption (checked) that offsets are kept
        ok = True
        for k, nk, t in zip(keys, newkeys, twins):
            if nk[1] != k[1]:
                ok = False
        if ok:
            closure = set()

            def reach(kk):
                if kk in closure or kk not in self.shadow:
                    return
                closure.add(kk)
                for at in _ref_ats(self.handles[kk]["tx"], self.shadow[kk]):
                    reach((kk[0], at))
            for k in keys:
                reach(k)
            for k, nk, t in zip(keys, newkeys, twins):
                for ok_, sh in list(self.shadow.items()):
                    if ok_ in closure and ok_[0] == k[0] and (nk[0], ok_[1]) not in self.shadow:
                        self.shadow[(nk[0], ok_[1])] = copy.deepcopy(sh)
                        oh = self.handles[ok_]
                        par = oh.get("parent")
                        self.handles[(nk[0], ok_[1])] = dict(tx=oh["tx"], ctor=None, parent=None if par is None else ((nk[0], par[0][1]), par[1]))
                hy = t if hasattr(t, "_xobject") else None
                self.handles[nk]["ctor"] = t._xobject if hy is not None else t
                self.handles[nk]["hybrid"] = hy
        self.record("pickle", group=group, exc="")
        return newkeys if ok else None


def _dyn_arrays(tx, v, path=()):
    """dynamically shaped arrays with items inside a value (no dereference, not through array items): (path of field numbers, tx, value)"""
    out = []
    if tx["k"] == "struct":
        for i, f in enumerate(tx["f"]):
            out += _dyn_arrays(f, v[i], path + (i,))
    elif tx["k"] == "arr" and path and any(d < 0 for d in tx["sh"]) and v["it"]:
        out.append((path, tx, v))
    return out


def _set_deep(tx, v, path, nv):
    if not path:
        return nv
    return [(_set_deep(f, v[i], path[1:], nv) if i == path[0] else v[i]) for i, f in enumerate(tx["f"])]


def _fresh_boxes(tx, v):
    """the same value as the input of a NEW object: every string gets the box the library creates for its text"""
    k = tx["k"]
    if k == "str":
        return X.strval(list(v), X.natural_cap(len(v)))
    if k == "struct":
        return [_fresh_boxes(f, v[i]) for i, f in enumerate(tx["f"])]
    if k == "arr":
        return {"sh": list(v["sh"]), "it": [_fresh_boxes(tx["it"], w) for w in v["it"]]}
    return v


def _py_of(ns, tx, v):
    """python constructor data for a reference-free value in normal form"""
    k = tx["k"]
    if k == "sc":
        return np.frombuffer(bytes(v), dtype=tx["np"].lower())[0]
    if k == "str":
        return bytes(v).decode("utf8")
    if k == "struct":
        return {ns.fname(i): _py_of(ns, f, v[i]) for i, f in enumerate(tx["f"])}
    if k == "arr":
        items = [_py_of(ns, tx["it"], w) for w in v["it"]]
        sh = list(v["sh"])
        if tx["it"]["k"] == "sc":
            return np.array(items, dtype=tx["it"]["np"].lower()).reshape(sh)
        if len(sh) == 1:
            return items
        o = np.empty(sh, dtype=object)
        for i_, idx_ in enumerate(np.ndindex(*sh)):
            o[idx_] = items[i_]
        return o
    raise TypeError("references have no python spelling here")


def _form(py):
    """summary of the input forms used anywhere in the constructor / assignment data (part of failure keys)"""
    forms = set()

    def walk(x):
        if isinstance(x, np.ndarray):
            if x.dtype == object:
                forms.add("ndarray-obj")
                for y in x.flat:
                    walk(y)
            else:
                forms.add("ndarray")
        elif isinstance(x, dict):
            forms.add("dict")
            for y in x.values():
                walk(y)
        elif isinstance(x, (list, tuple)):
            forms.add(type(x).__name__)
            for y in x:
                walk(y)
        elif x is None or isinstance(x, (int, float, str, np.generic)):
            pass
        else:
            forms.add("xobject")
    walk(py)
    return "+".join(sorted(forms)) or "scalar"


def _set_at(tx, v, lp, nv):
    if not lp:
        return nv
    s = lp[0]
    v = copy.copy(v)
    if "f" in s:
        v[s["f"] - 1] = _set_at(tx["f"][s["f"] - 1], v[s["f"] - 1], lp[1:], nv)
        return v
    j = int(np.ravel_multi_index(s["i"], v["sh"]))
    v = dict(v)
    v["it"] = list(v["it"])
    v["it"][j] = _set_at(tx["it"], v["it"][j], lp[1:], nv)
    return v


def _size_of(tx, v):
    """size in bytes of a value of type tx per the documented format (harness-side, for choosing misfitting values only)"""
    k = tx["k"]
    if k == "sc":
        return tx["w"]
    if v is None and k in ("struct", "arr"):        # static type: the size does not depend on the value
        slot0 = lambda n: (n + 7) // 8 * 8
        if k == "struct":
            return sum(slot0(_size_of(f, None)) for f in tx["f"])
        return slot0(int(np.prod(tx["sh"])) * _size_of(tx["it"], None))
    if k == "str":
        return 8 + (getattr(v, "cap", None) or X.natural_cap(len(v)))
    if k == "ref":
        return 8
    if k == "uref":
        return 16
    slot = lambda n: (n + 7) // 8 * 8
    if k == "struct":
        if X.is_static(tx):
            return sum(slot(_size_of(f, w)) for f, w in zip(tx["f"], v))
        nd = sum(1 for f in tx["f"] if not X.is_static(f))
        return 8 + sum(slot(_size_of(f, w)) for f, w in zip(tx["f"], v)) + 8 * (nd - 1)
    n = len(v["it"])
    if X.is_static(tx):
        return slot(n * _size_of(tx["it"], None))
    ndyn = sum(1 for d in tx["sh"] if d < 0)
    hdr = 8 + 8 * ndyn + (8 * len(tx["sh"]) if ndyn and len(tx["sh"]) > 1 else 0)
    if X.is_static(tx["it"]):
        return slot(hdr + n * _size_of(tx["it"], None))
    return slot(hdr + 8 * n + sum(slot(_size_of(tx["it"], w)) for w in v["it"]))


def _ref_ats(tx, v):
    k = tx["k"]
    if k in ("sc", "str"):
        return []
    if k == "struct":
        return [a for f, w in zip(tx["f"], v) for a in _ref_ats(f, w)]
    if k == "arr":
        return [a for w in v["it"] for a in _ref_ats(tx["it"], w)]
    return [] if v["null"] else [v["at"]]


def _unknown_cap(tx, v):
    k = tx["k"]
    if k == "str":
        return getattr(v, "cap", 0) is None
    if k == "struct":
        return any(_unknown_cap(f, w) for f, w in zip(tx["f"], v))
    if k == "arr":
        return any(_unknown_cap(tx["it"], w) for w in v["it"])
    return False


def _total_size(tx, inp):
    """bytes an input-form value will occupy including the referents it creates"""
    k = tx["k"]
    if k in ("ref", "uref"):
        if inp.get("r") == "new":
            tt = tx["to"] if k == "ref" else tx["of"][inp["tid"]]
            return (8 if k == "ref" else 16) + _total_size(tt, inp["v"])
        return 8 if k == "ref" else 16
    if k == "struct":
        return 8 + sum(_total_size(f, w) + 8 for f, w in zip(tx["f"], inp))
    if k == "arr":
        return 8 * (2 + 2 * len(tx["sh"])) + sum(_total_size(tx["it"], w) + (0 if X.is_static(tx["it"]) else 8) for w in inp["it"])
    if k == "str":
        return 16 + len(inp) + 8
    return tx["w"]
