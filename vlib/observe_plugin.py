"""pytest plugin (-p vlib.observe_plugin): records every Struct / Array the repository's OWN tests construct
(type expression by introspection, buffer bytes, offset, reported size, value as read back through the library)
so that TLC can check the maintainers' objects against the documented format (spec/XoObsTrace.tla)."""
import atexit, json, os
import numpy as np

RECS, SKIP = [], {}
_OUT = os.environ.get("VERIF_OBS_OUT")


def _install():
    import xobjects as xo
    from xobjects.struct import Struct, MetaStruct
    from xobjects.array import Array, MetaArray
    from xobjects.ref import Ref, MetaUnionRef
    from xobjects.scalar import NumpyScalar
    from xobjects.string import MetaString

    def tx(t, depth=0):
        if depth > 10:
            raise ValueError("deep")
        if isinstance(t, NumpyScalar):
            if t._dtype.kind not in "iuf":
                raise ValueError("complex scalar")
            return {"k": "sc", "w": int(t._size), "np": t.__name__}
        if isinstance(t, MetaString):
            if t._size is not None:
                raise ValueError("fixed string")
            return {"k": "str"}
        if isinstance(t, MetaStruct):
            return {"k": "struct", "f": [tx(f.ftype, depth + 1) for f in t._fields], "n": [f.name for f in t._fields]}
        if isinstance(t, MetaArray):
            order = t._order
            nd = len(t._shape)
            if order == "C":
                order = list(range(nd))
            elif order == "F":
                order = list(range(nd - 1, -1, -1))
            return {"k": "arr", "it": tx(t._itemtype, depth + 1), "sh": [-1 if d is None else int(d) for d in t._shape], "ord": [int(o) for o in order]}
        if isinstance(t, Ref):
            return {"k": "ref", "to": tx(t._reftype, depth + 1)}
        if isinstance(t, MetaUnionRef):
            return {"k": "uref", "of": [tx(r, depth + 1) for r in t._reftypes], "names": [r.__name__ for r in t._reftypes]}
        raise ValueError(f"unknown type {type(t).__name__}")

    def read(t, x):
        k = t["k"]
        if k == "sc":
            return [int(b) for b in np.array(x).astype(t["np"].lower()).tobytes()]
        if k == "str":
            return [int(b) for b in x.encode("utf8")]
        if k == "struct":
            return [read(f, getattr(x, n)) for f, n in zip(t["f"], t["n"])]
        if k == "arr":
            sh = [int(d) for d in x._shape]
            if int(np.prod(sh)) > 64:
                raise ValueError("large array")
            return {"sh": sh, "it": [read(t["it"], x[idx]) for idx in np.ndindex(*sh)]}
        if x is None:
            return {"null": True, "at": -1, "tid": -1}
        if k == "ref":
            return {"null": False, "at": int(x._offset), "tid": 0}
        return {"null": False, "at": int(x._offset), "tid": t["names"].index(type(x).__name__)}

    def strip(t):
        return {k: (strip(v) if isinstance(v, dict) else [strip(y) if isinstance(y, dict) else y for y in v] if isinstance(v, list) else v)
                for k, v in t.items() if k not in ("n", "names")}

    def record(obj):
        try:
            buf = obj._buffer
            if type(buf).__name__ not in ("BufferNumpy", "BufferByteArray") or buf.capacity > 8192:
                SKIP["buffer-kind-or-size"] = SKIP.get("buffer-kind-or-size", 0) + 1
                return
            if hasattr(type(obj), "_DressingClass") and False:
                return
            t = tx(type(obj))
            v = read(t, obj)
            mem = [int(b) & 255 for b in buf.to_bytearray(0, buf.capacity)][: buf.capacity]
            RECS.append({"t": strip(t), "a": int(obj._offset), "mem": mem, "size": int(obj._get_size()), "v": v,
                         "cls": type(obj).__name__, "test": os.environ.get("PYTEST_CURRENT_TEST", "")})
        except Exception as e:          # noqa: unsupported kinds of objects are counted, not judged
            k = f"{type(e).__name__}:{str(e)[:40]}"
            SKIP[k] = SKIP.get(k, 0) + 1

    _si, _ai = Struct.__init__, Array.__init__

    def s_init(self, *a, **k):
        _si(self, *a, **k)
        record(self)

    def a_init(self, *a, **k):
        _ai(self, *a, **k)
        record(self)
    Struct.__init__, Array.__init__ = s_init, a_init


def _dump():
    if _OUT:
        json.dump(dict(recs=RECS, skip=SKIP), open(_OUT, "w"))


if _OUT:
    _install()
    atexit.register(_dump)
