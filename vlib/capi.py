"""Engine for C02 / C07 / C15: the generated C accessor API.

The source is emitted at run time by the tree's generator (capi.py through ContextCpu._build_sources), specialised
by the tree's specialize_source for each target, compiled together with a generated dispatcher into a driver
executable, and EXECUTED on the byte images of real objects (built by the library in logged buffers, at non-zero
offsets, with neighbours, nested in other types, flush against the end of exactly sized buffers).  Every call -
all accessors of all paths with all in-range index tuples - is validated by TLC against XoLayout!Nav / Decode
(spec/XoCapiTrace.tla).  C07 additionally runs the driver built with ASan + UBSan (Aux: absence of UB is observed
by the sanitizers, TLC supplies the cases and the address oracle).  C15 runs the OpenCL and CUDA forms host-compiled
with the target keywords defined away, requires the token streams to be equal up to qualifiers, and passes the
OpenCL form through clang's OpenCL C front end for the address-space clause.
"""
import collections, itertools, json, os, random, re, shutil, struct as pystruct, subprocess, time
from concurrent.futures import ThreadPoolExecutor
import numpy as np
from . import common as C
from . import xtypes as X
from . import heap as H
from .world import World

PROPERTIES = ["C02", "C07", "C15"]
TARGETS = ["cpu_serial", "cpu_openmp", "opencl", "cuda"]
MAXIDX = 12

PREAMBLE = {
    "cpu_serial": "",
    "cpu_openmp": "",
    "opencl": "#define __global\n#define __kernel\n#define __constant const\nstatic int get_global_id(int d){(void)d;return 0;}\n",
    "cuda": "#define __device__\n#define __global__\n#define __host__\n",
}

MAIN = r"""
#include <stdio.h>
#include <stdlib.h>
#include <string.h>
static int64_t rd(void){ int64_t v; if (fread(&v, 8, 1, stdin) != 1) exit(3); return v; }
static void wr(int64_t v){ fwrite(&v, 8, 1, stdout); }
int main(void){
  int64_t nimg = rd();
  for (int64_t im = 0; im < nimg; im++){
    int64_t size = rd(), pad = rd();
    /* exactly sized block: an access beyond the buffer image is an out-of-bounds access for the sanitizer;
       pad bytes in front make the object start 16-byte aligned (alignment is claimed relative to the object start) */
    char *block = (char*) malloc(pad + (size ? size : 1));
    char *base = block + pad;
    char *orig = (char*) malloc(size ? size : 1);
    if (size && fread(orig, 1, size, stdin) != (size_t) size) exit(3);
    memcpy(base, orig, size);
    int64_t ncalls = rd();
    for (int64_t c = 0; c < ncalls; c++){
      int64_t fid = rd(), off = rd();
      int64_t ix[%(MAXIDX)d];
      for (int k = 0; k < %(MAXIDX)d; k++) ix[k] = rd();
      unsigned char val[8]; if (fread(val, 1, 8, stdin) != 8) exit(3);
      unsigned char out[8]; memset(out, 0, 8);
      fprintf(stderr, "CALL %%lld %%lld\n", (long long) im, (long long) c);
      int64_t n = xv_call((int) fid, base, base + off, ix, val, out);
      wr(n); fwrite(out, 1, 8, stdout);
      /* report and undo every byte the call changed */
      int64_t nd = 0;
      for (int64_t x = 0; x < size; x++) if (base[x] != orig[x]) nd++;
      wr(nd);
      for (int64_t x = 0; x < size; x++) if (base[x] != orig[x]) { wr(x); wr((unsigned char) base[x]); base[x] = orig[x]; }
    }
    fflush(stdout);
    free(block); free(orig);
  }
  return 0;
}
"""


# ----------------------------------------------------------------------------- API inventory from the tree's generator
def api_functions(cls):
    """every generated function of class cls: name, action, path steps (index steps carry their rank), kernel"""
    from xobjects import capi
    from xobjects.typeutils import default_conf
    out = []
    cname = cls._c_type
    for path in cls._gen_data_paths():
        steps = []
        for part in path[1:]:
            if capi.is_field(part):
                steps.append(("f", part.index))
            elif capi.is_index(part):
                steps.append(("i", len(part.cls._shape)))
            elif capi.is_ref(part):
                steps.append(("d",))
        for src, kernel in capi.methods_from_path(cls, path, default_conf):
            if kernel is None:
                continue
            m = re.match(re.escape(cname) + r"_(get|set|getp|len|typeid|member)\d*(_|$)", kernel.c_name)
            if not m:
                continue        # switch methods etc. are not part of the claim
            out.append(dict(name=kernel.c_name, action=m.group(1), steps=steps, kernel=kernel, last=path[-1]))
    return out


def ctype(arg):
    return arg.atype._c_type


def dispatcher(funcs_by_cls):
    """C source of xv_call: one case per generated function"""
    lines = ["static int64_t xv_call(int fid, char* base, char* obj, const int64_t* ix, const unsigned char* val, unsigned char* out){",
             "  switch (fid){"]
    fid = 0
    table = []
    for cls, funcs in funcs_by_cls:
        for f in funcs:
            k = f["kernel"]
            nidx = sum(1 for a in k.args[1:] if a.name.startswith("i") and a.name[1:].isdigit())
            args = ", ".join([f"({cls._c_type}) obj"] + [f"ix[{i}]" for i in range(nidx)])
            a = f["action"]
            if a == "get":
                t = ctype(k.ret)
                body = f"{t} r = {k.c_name}({args}); memcpy(out, &r, sizeof(r)); return sizeof(r);"
            elif a == "set":
                t = ctype(k.args[-1])
                body = f"{t} v; memcpy(&v, val, sizeof(v)); {k.c_name}({args}, v); return 0;"
            elif a in ("getp", "member"):
                body = f"char* r = (char*) {k.c_name}({args}); int64_t d = r - base; memcpy(out, &d, 8); return 8;"
            else:
                body = f"int64_t r = {k.c_name}({args}); memcpy(out, &r, 8); return 8;"
            lines.append(f"    case {fid}: {{ {body} }}")
            table.append(dict(f, fid=fid, nidx=nidx, cls=cls))
            fid += 1
    lines += ["  }", "  return -1;", "}"]
    return "\n".join(lines), table


def build_driver(wd, classes, target, sanitize=False, tag="", decl_first=False):
    """emit + specialise the API with the tree's own generator, add dispatcher and main, compile; returns (exe, table, source text)"""
    xo = C.use_repo()
    from xobjects.context import sort_classes
    from xobjects.specialize_source import specialize_source
    ctx = xo.ContextCpu()
    ordered = sort_classes(list(classes))
    if decl_first:
        # another order of the generator's entry points: the cffi declarations of the classes (what ContextCpu.build_kernels asks
        # for, with the configuration it uses) are produced BEFORE the API source is generated for the first time
        if decl_first == "default":        # ... with the generator's own default configuration
            "\n".join(cls._gen_c_decl() for cls in ordered)
        else:
            "\n".join(cls._gen_c_decl({}) for cls in ordered)
    source, _ = ctx._build_sources(classes=ordered, extra_headers=[], specialize=False)
    spec = specialize_source(source, specialize_for=target)
    funcs_by_cls = [(c, api_functions(c)) for c in classes]
    disp, table = dispatcher(funcs_by_cls)
    text = PREAMBLE[target] + "#include <string.h>\n" + spec + "\n" + disp + "\n" + MAIN % dict(MAXIDX=MAXIDX)
    cpath = os.path.join(wd, f"drv_{target}{tag}.c")
    open(cpath, "w").write(text)
    exe = os.path.join(wd, f"drv_{target}{tag}")
    if sanitize:
        cmd = ["clang", "-O0", "-g", "-fsanitize=address,undefined", "-fno-sanitize-recover=undefined", "-fno-omit-frame-pointer", "-w", "-o", exe, cpath]
    else:
        cmd = ["gcc", "-O0", "-w", "-std=gnu99", "-o", exe, cpath]
    if target == "cpu_openmp":
        cmd.insert(1, "-fopenmp")
    p = subprocess.run(cmd, capture_output=True, text=True)
    if p.returncode != 0:
        return None, table, spec, p.stderr[-3000:]
    return exe, table, spec, ""


def run_driver(exe, images, env=None):
    """images: list of (bytes, [(fid, off, idx list, val bytes)]) -> per image list of (n, out bytes, diffs) or error info"""
    req = [pystruct.pack("<q", len(images))]
    for data, calls in images:
        pad = (16 - calls[0][1] % 16) % 16 if calls else 0
        req.append(pystruct.pack("<qq", len(data), pad))
        req.append(bytes(data))
        req.append(pystruct.pack("<q", len(calls)))
        for fid, off, idx, val in calls:
            ix = list(idx) + [0] * (MAXIDX - len(idx))
            req.append(pystruct.pack("<qq", fid, off) + pystruct.pack(f"<{MAXIDX}q", *ix) + bytes(val).ljust(8, b"\0"))
    e = dict(os.environ)
    e.update(env or {})
    p = subprocess.run([exe], input=b"".join(req), capture_output=True, env=e)
    out, pos, res = p.stdout, 0, []
    try:
        for data, calls in images:
            r = []
            for _ in calls:
                n, = pystruct.unpack_from("<q", out, pos)
                ob = out[pos + 8:pos + 16]
                nd, = pystruct.unpack_from("<q", out, pos + 16)
                pos += 24
                d = []
                for _ in range(nd):
                    x, b = pystruct.unpack_from("<qq", out, pos)
                    pos += 16
                    d.append([x, b])
                r.append((n, ob, d))
            res.append(r)
    except pystruct.error:
        pass
    last = [ln for ln in p.stderr.decode(errors="replace").splitlines() if ln.startswith("CALL ")]
    return res, p.returncode, (last[-1] if last else ""), p.stderr.decode(errors="replace")


# ----------------------------------------------------------------------------- calls with all in-range index tuples
def enum_calls(w, key, f, limit=40):
    """all (path, idx list) instances of function f on object key, following the harness shadow (non-null references only)"""
    res = []

    def walk(tx, v, b, steps, path, idx):
        if len(res) >= limit:
            return
        if not steps:
            if f["action"] == "member" and v["null"]:
                return              # the member address of a null union reference is not defined
            res.append((path, idx))
            return
        s = steps[0]
        if s[0] == "f":
            walk(tx["f"][s[1]], v[s[1]], b, steps[1:], path + [{"f": s[1] + 1}], idx)
        elif s[0] == "i":
            sh = v["sh"]
            tuples = list(np.ndindex(*sh))
            if len(tuples) > 12:       # corners + a few random ones; all of them when small
                rng = w.rng
                tuples = [tuples[0], tuples[-1]] + rng.sample(tuples[1:-1], 4)
            for t in tuples:
                j = int(np.ravel_multi_index(t, sh))
                walk(tx["it"], v["it"][j], b, steps[1:], path + [{"i": [int(q) for q in t]}], idx + [int(q) for q in t])
        else:
            if v["null"]:
                return
            tt = tx["to"] if tx["k"] == "ref" else tx["of"][v["tid"]]
            tk = (b, v["at"])
            if tk not in w.shadow:
                return
            walk(tt, w.shadow[tk], b, steps[1:], path + [{"d": 1}], idx)
    walk(w.handles[key]["tx"], w.shadow[key], key[0], f["steps"], [], [])
    return res


def make_world(seed, index, flush=False, aligned=False):
    rng = random.Random(f"{seed}:capi:{index}")
    w = World(rng, caps=[0, 0, 0] if flush else None, aligns=[1, 1, 1] if flush else ([8, 8, 8] if aligned else None), dirty=not flush and not aligned)
    w.index = index
    return w, rng


UNALIGNED_TARGETS = [X.struct(X.sc("Int64"), X.arr(X.sc("Float64"), [-1]), X.arr(X.sc("Int16"), [-1]), X.STR),
                     X.arr(X.sc("Int32"), [-1, -1], [1, 0]), X.arr(X.STR, [-1]),
                     X.struct(X.arr(X.sc("UInt8"), [-1]), X.struct(X.sc("Int8"), X.arr(X.sc("Float32"), [-1, 2])), X.arr(X.sc("Float64"), [-1]))]


def build_objects(seed, nworlds, ns_prefix, aligned=False, gindex=0):
    """worlds full of objects; returns (worlds, list of (world, key))"""
    worlds, objs = [], []
    for i in range(nworlds):
        w, rng = make_world(seed, i, flush=((gindex + i) % 3 == 2), aligned=aligned)
        w.index = gindex + i
        place = "aligned" if aligned else None       # every object (and referent) on an 8-byte boundary of the buffer
        w.ns.prefix = f"{ns_prefix}w{i}"
        if not aligned and (gindex + i) % 4 == 1:
            # a referent, then an odd-sized live neighbour, then holders that ALIAS the referent: the distance between a reference word
            # and its target is not a multiple of 8, and the paths through the reference go on to read header words of the target
            b = rng.randrange(2)
            ttx = rng.choice(UNALIGNED_TARGETS)
            kt = w.new(ttx, b, mindim=1, placement="packed")
            if kt is not None:
                w.wedge(b)
                for htx in (X.struct(X.ref(ttx), X.sc("Int8")), X.arr(X.ref(ttx), [2])):
                    w.forced = [("alias", kt[1], 0, w.handles[kt]["ctor"])] * 2
                    w.new(htx, b, placement="packed")
                    w.forced = None
        for n in range(rng.randint(2, 4)):
            if n == 0 and (gindex + i) % 2 == 0:
                tx = H.sweep_type((gindex + i) // 2, rng)[0]
                k = w.new(tx, rng.randrange(2), mindim=1, placement=place)
            else:
                k = w.new(H.pick_type(rng, True), rng.randrange(2), mindim=rng.choice([0, 1]), placement=place)
            if k is None:
                break
        worlds.append(w)
        for key, h in w.handles.items():
            if h.get("ctor") is not None and h["tx"]["k"] in ("struct", "arr"):
                objs.append((w, key))
    return worlds, objs


def value_for(rng, last):
    kind = last.__name__ if hasattr(last, "__name__") else "Float64"
    kind = {"Uint8": "UInt8", "Uint16": "UInt16", "Uint32": "UInt32", "Uint64": "UInt64"}.get(kind, kind)
    if kind.startswith("Float") and rng.random() < 0.4:
        # values next to zero that are exactly representable in the declared type: subnormals of either sign, the smallest normal
        dt = np.dtype(kind.lower())
        fi = np.finfo(dt)
        v = dt.type(rng.choice([fi.smallest_subnormal, -fi.smallest_subnormal, fi.tiny / 2, -fi.tiny / 4, fi.tiny, float(np.nextafter(fi.tiny, dt.type(0)))]))
        return list(v.tobytes())
    b, _ = X.gen_scalar(kind, rng)
    return b


def plan_requests(worlds, objs, table, rng, with_set=True):
    """-> images [(bytes, calls)], meta [(world index, key, call descriptors)]"""
    byname = {}
    for t in table:
        byname.setdefault(t["cls"], []).append(t)
    images, meta = [], []
    for w, key in objs:
        cls = w.ns.cls(w.handles[key]["tx"])
        data = w.bufs[key[0]].raw()
        calls, desc = [], []
        for f in byname.get(cls, []):
            if f["action"] == "set" and not with_set:
                continue
            for path, idx in enum_calls(w, key, f):
                if len(idx) > MAXIDX:
                    continue
                val = value_for(rng, f["last"]) if f["action"] == "set" else []
                calls.append((f["fid"], key[1], idx, val))
                desc.append(dict(k=f["action"], path=path, name=f["name"], val=val, idx=idx))
        if calls:
            images.append((data, calls))
            meta.append((w, key, desc))
    return images, meta


def to_records(images, meta, results):
    recs = []
    for (data, calls), (w, key, desc), res in zip(images, meta, results):
        q = []
        for d, (n, ob, diffs) in zip(desc, res):
            e = dict(k=d["k"], path=d["path"])
            if d["k"] == "get":
                e["r"] = list(ob[:n])
            elif d["k"] == "set":
                e["val"] = list(d["val"])
                e["d"] = diffs
            else:
                e["r"] = pystruct.unpack("<q", ob)[0]
                if abs(e["r"]) >= 2 ** 30:
                    e["r"] = -7777777          # far outside any model-sized buffer (TLC integers are 32 bit)
            q.append(e)
        recs.append(dict(t=w.handles[key]["tx"], mem=list(data), a=key[1], q=q))
    return recs


CFG = "SPECIFICATION Spec\nCHECK_DEADLOCK FALSE\n"


def validate(recs):
    if not recs:
        return [], dict(generated=0, distinct=0)
    nb = min(C.NCPU, max(1, len(recs) // 6))
    size = (len(recs) + nb - 1) // nb
    batches = [recs[i:i + size] for i in range(0, len(recs), size)]
    out = [None] * len(recs)
    tot = dict(generated=0, distinct=0)

    def one(bi):
        wd = C.scratch("cp")
        path = os.path.join(wd, "trace.json")
        json.dump(batches[bi], open(path, "w"))
        open(os.path.join(wd, "tr.cfg"), "w").write(CFG)
        res = C.run_tlc("XoCapiTrace", "tr.cfg", workdir=wd, workers=1, timeout=3000, env={"TRACE_FILE": path})
        vs = C.tlc_tuples(res["out"], "VERDICT")
        if res["rc"] != 0 or len(vs) != len(batches[bi]):
            keep = os.path.join(C.OUT, f"tlc_failure_capi_{os.getpid()}_{bi}")
            shutil.rmtree(keep, ignore_errors=True)
            shutil.copytree(wd, keep)
            raise C.MachineryError(f"capi trace validation batch {bi}: rc={res['rc']} verdicts={len(vs)}/{len(batches[bi])} (kept {keep})\n" + res["out"][-3000:])
        shutil.rmtree(wd, ignore_errors=True)
        return bi, vs, res

    with ThreadPoolExecutor(max_workers=C.NCPU) as ex:
        for bi, vs, res in ex.map(one, range(len(batches))):
            for v in vs:
                out[bi * size + v[1] - 1] = str(v[2])
            tot["generated"] += res["generated"]
            tot["distinct"] += res["distinct"]
    return out, tot


# ----------------------------------------------------------------------------- live kernels (the anchored call path)
LIVE_TYPES = [
    X.struct(X.sc("Int64"), X.arr(X.sc("Float64"), [-1]), X.arr(X.sc("Int32"), [-1, 3])),
    X.arr(X.struct(X.sc("Int8"), X.sc("Float64")), [-1]),
    X.struct(X.sc("Int16"), X.arr(X.arr(X.sc("Int64"), [-1]), [-1]), X.STR),
    X.arr(X.sc("UInt16"), [2, -1], [1, 0]),
    X.struct(X.ref(X.arr(X.sc("Float64"), [-1])), X.sc("Int8"), X.arr(X.sc("Float32"), [3])),
    X.struct(X.sc("Float64"), X.struct(X.sc("Int8"), X.arr(X.sc("Int16"), [-1])), X.arr(X.sc("UInt8"), [-1])),
]


# every floating-point leaf kind, as field and as item: setters called through the library's own build (its default compiler flags)
FLOAT_LEAVES = X.struct(X.sc("Float32"), X.sc("Float64"), X.arr(X.sc("Float32"), [2]), X.arr(X.sc("Float64"), [-1]))

# pairs of types whose nested array classes are NAMESAKES in the library's own naming (same item type and shape, another axis
# order), each built in a kernel module of its own within one process
NAMESAKE_PAIRS = [
    (X.struct(X.sc("Int64"), X.arr(X.sc("Float64"), [2, 3], [0, 1])), X.struct(X.sc("Int64"), X.arr(X.sc("Float64"), [2, 3], [1, 0]))),
    (X.struct(X.sc("Int8"), X.arr(X.sc("Int32"), [2, 2, 3], [2, 0, 1])), X.struct(X.sc("Int8"), X.arr(X.sc("Int32"), [2, 2, 3], [0, 1, 2]))),
    (X.arr(X.arr(X.sc("Int16"), [3, 2], [1, 0]), [-1]), X.arr(X.arr(X.sc("Int16"), [3, 2], [0, 1]), [-1])),
]


def live_records(run, pid):
    """runs _live_child in a separate process (a write through a stale pointer may kill it: that is a violation, not a
    machinery failure) and returns (records, info)"""
    import subprocess, sys, types
    out = os.path.join(run.tmp, "live.jsonl")
    env = C.child_env() if hasattr(C, "child_env") else dict(os.environ)
    p = subprocess.run([sys.executable, "-m", "vlib.capi", "--live", str(run.seed), run.tier, out], cwd=C.VERIF, env=env, capture_output=True, text=True, timeout=3000)
    lines = [json.loads(ln) for ln in open(out)] if os.path.exists(out) else []
    recs, info, last = [], [], None
    for ln in lines:
        if "announce" in ln:
            last = ln["announce"]
        elif "rec" in ln:
            key = tuple(ln["key"])
            recs.append(ln["rec"])
            info.append((types.SimpleNamespace(handles={key: {"tx": ln["rec"]["t"]}}, index=ln["index"]), key, ln["desc"], ln["tag"]))
        elif "count" in ln:
            run.count(ln["count"])
    if p.returncode < 0 and last is not None:
        run.report(f"live:crash:signal{-p.returncode}:{last['k']}:{path_class(last['t'], last['path'])}",
                   f"{last['name']} idx={last['idx']} called through ContextCpu kernels on an object of {X.key(last['t'])[:200]} ({last['tag']}): the process was killed by signal {-p.returncode} inside the call",
                   dict(seed=run.seed, live=True, index=last["index"]))
    elif p.returncode != 0 or not lines or "done" not in lines[-1]:
        raise C.MachineryError(f"live kernel run failed rc={p.returncode}:\n" + (p.stdout + p.stderr)[-3000:])
    return recs, info


def _live_child(seed, tier, out):
    """the same accessors through the library's own build-and-call path (ContextCpu.add_kernels + KernelCpu.__call__): each
    generated function is called on objects of a buffer BEFORE and AFTER that buffer grew (and after further objects were
    allocated in it), on both CPU buffer kinds.  Each phase is one record for XoCapiTrace: the buffer bytes as Python sees
    them at that moment, the object address, the calls and what they returned / which bytes they changed."""
    xo = C.use_repo()
    n = {"quick": 4, "thorough": len(LIVE_TYPES) * 2}[tier]
    fo = open(out, "w")

    def emit(obj):
        fo.write(json.dumps(obj) + "\n")
        fo.flush()
    pair = NAMESAKE_PAIRS[seed % len(NAMESAKE_PAIRS)] if tier == "quick" else [t for p_ in NAMESAKE_PAIRS for t in p_]
    plan_ = [(FLOAT_LEAVES, False)] + [(LIVE_TYPES[(i + seed) % len(LIVE_TYPES)], False) for i in range(n)] + [(t, True) for t in pair]
    for i, (tx, native) in enumerate(plan_):
        rng = random.Random(f"{seed}:live:{i}")
        w = World(rng, caps=[0, 64, 64], aligns=[1, 1, 1], dirty=False)       # buffer 0 is exactly full after every allocation
        w.index = i
        w.ns.prefix = f"L{i}w"
        w.ns.native_arrays = native
        with C.memory_guard():
            k1 = w.new(tx, 0, mindim=1, allow=("null", "new"))
        if k1 is None:
            continue
        cls = w.ns.cls(tx)
        ctx = w.bufs[0].context
        import contextlib, io
        with contextlib.redirect_stdout(io.StringIO()):
            ctx.add_kernels(kernels=cls._gen_kernels())
        funcs = [f for f in api_functions(cls) if f["action"] in ("get", "set", "len", "typeid")]
        keys = [k1]
        for phase in range(3):
            if phase:
                store = w.bufs[0].buffer
                with C.memory_guard():
                    k2 = w.new(tx if phase == 1 else X.arr(X.sc("Int64"), [3]), 0, mindim=1, allow=("null", "new"))
                if k2 is None:
                    break
                if w.bufs[0].buffer is store:
                    emit(dict(count="live_phase_without_growth"))
                if phase == 1:
                    keys.append(k2)
            for key in keys:
                buf = w.bufs[key[0]]
                mem = bytes(buf.raw())
                q, desc = [], []
                for f in funcs:
                    for path, idx in enum_calls(w, key, f, limit=6):
                        args = {"obj": w.handles[key]["ctor"]}
                        args.update({f"i{j}": v for j, v in enumerate(idx)})
                        e = dict(k=f["action"], path=path)
                        if f["action"] == "set":
                            val = value_for(rng, f["last"])
                            args["value"] = np.frombuffer(bytes(val), dtype=f["kernel"].args[-1].atype._dtype)[0]
                        emit(dict(announce=dict(k=f["action"], path=path, name=f["name"], idx=idx, t=w.handles[key]["tx"], tag=f"live:phase{phase}", index=i)))
                        r = ctx.kernels[f["name"]](**args)
                        if f["action"] == "get":
                            e["r"] = list(np.array(r).astype(f["kernel"].ret.atype._dtype).tobytes())
                        elif f["action"] == "set":
                            now = bytes(buf.raw())
                            e["val"] = list(val)
                            e["d"] = [[x, now[x]] for x in range(min(len(now), len(mem))) if now[x] != mem[x]]
                            if now != mem:              # undo: the record describes every call on the same bytes
                                buf.update_from_buffer(0, mem)
                        else:
                            e["r"] = int(r)
                        q.append(e)
                        desc.append(dict(k=f["action"], path=path, name=f["name"], idx=idx, val=e.get("val", [])))
                emit(dict(rec=dict(t=w.handles[key]["tx"], mem=list(mem), a=key[1], q=q), key=list(key), desc=desc, tag=f"live:phase{phase}", index=i))
    emit(dict(done=True))
    fo.close()


def path_class(tx, path):
    """type-shape chain along a path (stable part of failure keys)"""
    parts = []
    for s in path:
        if "f" in s:
            parts.append("f")
            tx = tx["f"][s["f"] - 1]
        elif "i" in s:
            parts.append(H.shape_class(tx))
            tx = tx["it"]
        else:
            parts.append("deref")
            tx = tx["to"] if tx["k"] == "ref" else tx["of"][0]
    return "/".join(parts) + ":" + (tx["k"] if tx["k"] != "arr" else H.shape_class(tx))


ERASE = re.compile(r"__global__|__global|__kernel|__device__|\brestrict\b|static inline")


def tokens(text):
    text = re.sub(r"//[^\n]*", "", text)
    text = ERASE.sub(" ", text)
    return re.findall(r"[A-Za-z_][A-Za-z_0-9]*|\d+|\S", text)


COUNTS = {"quick": dict(worlds=144, sample_cffi=3), "thorough": dict(worlds=2400, sample_cffi=12)}


def check(pid, argv=None):
    run = C.Run(pid, argv)
    run.assumptions += ["spec/XoLayout.tla transcribes the documented format; Nav follows it along the access path",
                        "the driver's dispatcher and main are generated by the harness; the API text is the tree's own output, specialised by the tree's specialize_source",
                        "objects are well-formed images produced by the library itself (checked by XoLayout!WF before anything is claimed)"]
    cwd = os.getcwd()
    os.chdir(run.tmp)
    try:
        _check(run, pid)
    finally:
        os.chdir(cwd)
    run.finish()


def refs_part(run):
    """C08's observation points include the C accessors of references (<T>_typeid, <T>_member, reads through a reference): the
    executing C-API engine on reference-bearing objects, results validated by TLC (XoCapiTrace) against Nav/Decode on the same bytes"""
    cwd = os.getcwd()
    os.chdir(run.tmp)
    report0, notes0 = run.report, dict(run.notes)
    try:
        _check(run, "C08")
    finally:
        os.chdir(cwd)
        run.report = report0
    run.notes = dict(notes0, capi_part={k: v for k, v in run.notes.items() if k not in notes0 or notes0[k] != v})


def _check(run, pid):
    state = dict(decl_first=False)
    report0 = run.report
    run.report = lambda key, desc, obj=None: report0(key, desc, None if obj is None else dict(obj, decl_first=state["decl_first"]))
    conf = COUNTS[run.tier]
    nworlds = conf["worlds"] if pid != "C08" else conf["worlds"] // 3
    if run.replay:
        rp = json.load(open(run.replay))["replay"]
        if "genmodel" in rp:
            from . import capimc
            capimc.replay(run, pid, rp["genmodel"])
            return
        seed, first, nworlds = rp["seed"], rp["world"], 1
    else:
        seed, first = run.seed, 0
    if pid in ("C02", "C07", "C15") and not run.replay:
        # the implementation-shaped model of the generator (XoCapi): model-level refinement, spec -> code program comparison,
        # code -> spec execution of the parsed real programs by TLC over an enumerated type grammar
        from . import capimc
        capimc.model_level(run, pid)
    t0 = time.time()
    # worlds in groups: one driver build per group keeps translation units small
    group = 12
    all_recs, keys_by_rec, df_by_rec = [], [], []
    targets = {"C02": ["cpu_serial"], "C07": ["cpu_serial"], "C08": ["cpu_serial"], "C15": ["cpu_serial", "cpu_openmp", "opencl", "cuda"]}[pid]
    sanitize = (pid == "C07")
    stats = collections.Counter()
    for g0 in range(0, nworlds, group):
        idxs = list(range(first + g0, first + min(g0 + group, nworlds)))
        worlds, objs = [], []
        for i in idxs:
            with C.memory_guard():
                ws, os_ = build_objects(seed * 100003 + i, 1, f"X{i}", aligned=sanitize, gindex=i)
            if pid == "C08":        # C08 observes references through C as well (<T>_typeid / <T>_member, reads through a reference)
                os_ = [(w_, k_) for w_, k_ in os_ if X.has_refs(w_.handles[k_]["tx"])]
            worlds += ws
            objs += os_
        classes = []
        for w, key in objs:
            c = w.ns.cls(w.handles[key]["tx"])
            if c not in classes:
                classes.append(c)
        if not classes:
            continue
        rng = random.Random(f"{seed}:plan:{g0}")
        per_target = {}
        table = None
        state["decl_first"] = (pid == "C15" and ([False, "empty", "default"][(g0 // group) % 3] if not run.replay else rp.get("decl_first", False)))
        for tgt in targets:
            exe, table, spec, err = build_driver(run.tmp, classes, tgt, sanitize=False, tag=f"_{g0}", decl_first=state["decl_first"])
            if exe is None:
                if pid == "C15" and tgt in ("opencl", "cuda", "cpu_openmp"):
                    run.report(f"compile:{tgt}:host-compiler-rejects", f"the {tgt} form does not compile with the target keywords defined away: {err[-600:]}",
                               dict(seed=seed, world=idxs[0], target=tgt))
                    continue
                raise C.MachineryError(f"driver for {tgt} does not compile:\n{err}")
            per_target[tgt] = (exe, spec)
        if "cpu_serial" not in per_target:
            continue
        images, meta = plan_requests(worlds, objs, table, rng, with_set=True)
        stats["objects"] += len(images)
        stats["calls"] += sum(len(c) for _, c in images)
        results = {}
        crashed = 0
        for tgt in list(per_target):
            exe, spec = per_target[tgt]
            while True:
                res, rc, last, err = run_driver(exe, images)
                if rc == 0 and len(res) == len(images):
                    break
                m = re.match(r"CALL (\d+) (\d+)", last or "")
                if rc >= 0 or not m or crashed > 20:
                    raise C.MachineryError(f"driver {tgt} failed rc={rc} at {last}: {err[-800:]}")
                # the process died inside a generated accessor called with in-range indices on a well-formed object:
                # an access outside the buffer image.  Report it, drop that object and go on with the others.
                crashed += 1
                w, key, desc = meta[int(m.group(1))]
                d = desc[int(m.group(2))]
                run.report(f"crash:signal{-rc}:{d['k']}:{path_class(w.handles[key]['tx'], d['path'])}" + (f":{tgt}" if pid == "C15" else ""),
                           f"{d['name']} idx={d['idx']} on an object of {X.key(w.handles[key]['tx'])[:200]} at offset {key[1]} ({tgt}): the driver process was killed by signal {-rc} inside the call",
                           dict(seed=seed, world=w.index, name=d["name"], idx=d["idx"]))
                del images[int(m.group(1))], meta[int(m.group(1))]
                for t2 in results:
                    del results[t2][int(m.group(1))]
            results[tgt] = res
        if pid == "C15":
            base = results["cpu_serial"]
            for tgt in targets[1:]:
                if tgt not in results:
                    continue
                # (a) same token stream up to qualifiers
                if tokens(per_target[tgt][1]) != tokens(per_target["cpu_serial"][1]):
                    a, b = tokens(per_target[tgt][1]), tokens(per_target["cpu_serial"][1])
                    k = next((i for i, (x, y) in enumerate(zip(a, b)) if x != y), min(len(a), len(b)))
                    run.report(f"tokens:{tgt}:differs-beyond-qualifiers", f"{tgt} form differs from cpu_serial at token {k}: ...{' '.join(a[max(0, k - 8):k + 8])}... vs ...{' '.join(b[max(0, k - 8):k + 8])}...",
                               dict(seed=seed, world=idxs[0], target=tgt))
                stats[f"token_streams_compared:{tgt}"] += 1
                # (b) executed: TLC validates the GPU forms' results below; equality with the CPU form is checked here call by call
                for (w, key, desc), r0, r1 in zip(meta, base, results[tgt]):
                    for d, x, y in zip(desc, r0, r1):
                        if x != y:
                            run.report(f"exec:{tgt}:{d['k']}:differs-from-cpu:{path_class(w.handles[key]['tx'], d['path'])}",
                                       f"{d['name']} idx={d['idx']} on {tgt}: {y} vs cpu_serial {x}", dict(seed=seed, world=w.index, target=tgt))
                            break
                stats[f"calls_executed:{tgt}"] += sum(len(c) for _, c in images)
            # (c) the OpenCL front end on the OpenCL form: every pointer into object memory must carry __global
            if "opencl" in per_target and shutil.which("clang"):
                clpath = os.path.join(run.tmp, f"api_{g0}.cl")
                body = per_target["opencl"][1].replace("#include <stdint.h>", "")
                open(clpath, "w").write("typedef long int64_t; typedef int int32_t; typedef short int16_t; typedef char int8_t;\n"
                                        "typedef ulong uint64_t; typedef uint uint32_t; typedef ushort uint16_t; typedef uchar uint8_t;\n" + body)
                p = subprocess.run(["clang", "-x", "cl", "-cl-std=CL1.2", "-fsyntax-only", "-Xclang", "-finclude-default-header", "-w", clpath], capture_output=True, text=True)
                stats["opencl_frontend_runs"] += 1
                if p.returncode != 0:
                    first_err = [ln for ln in p.stderr.splitlines() if "error" in ln][:1]
                    msg = first_err[0] if first_err else p.stderr[-300:]
                    kind = "address-space" if "address space" in p.stderr else "other"
                    run.report(f"opencl-frontend:{kind}", f"clang -x cl rejects the OpenCL form: {msg}", dict(seed=seed, world=idxs[0], target="opencl"))
            # (d) the positive half of the address-space clause: the front end only objects to conversions BETWEEN address spaces, so a
            # form that carries no qualifier anywhere is consistent for it.  Every pointer type written in the generated API points
            # into object memory: each must be spelled with __global.
            if "opencl" in per_target:
                txt = per_target["opencl"][1]
                bare = [m.group(0) for m in re.finditer(r"(?<![\w])(?:const\s+)?(?:struct\s+\w+|char|double|float|u?int(?:8|16|32|64)_t)\s*\*", txt)
                        if not re.search(r"__global\s+(?:const\s+)?$", txt[max(0, m.start() - 24):m.start()])]
                stats["opencl_pointer_types_scanned"] += len(re.findall(r"__global", txt))
                if bare:
                    run.report("opencl-form:pointer-into-object-memory-without-global", f"{len(bare)} pointer types of the OpenCL form carry no __global, e.g. `{bare[0]}`",
                               dict(seed=seed, world=idxs[0], target="opencl"))
            val_targets = ["opencl", "cuda"]
        else:
            val_targets = ["cpu_serial"]
        for tgt in val_targets:
            if tgt not in results:
                continue
            recs = to_records(images, meta, results[tgt])
            for r, (w, key, desc) in zip(recs, meta):
                all_recs.append(r)
                keys_by_rec.append((w, key, desc, tgt))
                df_by_rec.append(state["decl_first"])
        if sanitize:
            exe, table2, spec, err = build_driver(run.tmp, classes, "cpu_serial", sanitize=True, tag=f"_san{g0}")
            if exe is None:
                raise C.MachineryError("sanitizer build failed:\n" + err)
            res, rc, last, err = run_driver(exe, images, env={"ASAN_OPTIONS": "detect_leaks=0:abort_on_error=0", "UBSAN_OPTIONS": "print_stacktrace=0"})
            stats["sanitized_calls"] += sum(len(c) for _, c in images)
            if rc != 0:
                # which call: the driver announces every call on stderr
                m = re.match(r"CALL (\d+) (\d+)", last or "")
                where = "?"
                if m:
                    w, key, desc = meta[int(m.group(1))]
                    d = desc[int(m.group(2))]
                    where = f"{d['k']}:{path_class(w.handles[key]['tx'], d['path'])}"
                    widx = w.index
                else:
                    widx = idxs[0]
                kind = "heap-buffer-overflow" if "heap-buffer-overflow" in err else ("misaligned" if "misaligned" in err else ("overflow" if "overflow" in err else "runtime-error"))
                run.report(f"sanitizer:{kind}:{where}", f"sanitizer report at {last}: " + " | ".join([ln for ln in err.splitlines() if "ERROR" in ln or "runtime error" in ln][:3]),
                           dict(seed=seed, world=widx))
    if pid in ("C02", "C07") and not run.replay:
        t2 = time.time()
        lrecs, linfo = live_records(run, pid)
        all_recs += lrecs
        keys_by_rec += linfo
        df_by_rec += [False] * len(lrecs)
        run.notes["live_kernel_records"] = len(lrecs)
        run.notes["live_kernel_calls"] = sum(len(r["q"]) for r in lrecs)
        run.notes["t_live"] = round(time.time() - t2, 1)
    run.notes["t_execute"] = round(time.time() - t0, 1)
    t1 = time.time()
    verdicts, tot = validate(all_recs)
    run.notes["t_validate"] = round(time.time() - t1, 1)
    run.cov["states"] += tot["distinct"]
    run.cov["transitions"] += tot["generated"]
    run.cov["traces_validated_against_impl"] = len(all_recs)
    kinds = collections.Counter()
    for v, (w, key, desc, tgt), rec, df in zip(verdicts, keys_by_rec, all_recs, df_by_rec):
        state["decl_first"] = df
        for d in desc:
            kinds[d["k"]] += 1
        if not v:
            continue
        if v.startswith("image:"):
            run.count("abandoned_precondition:" + v)
            continue
        for item in v.split(";"):
            i, clause = item.split("=", 1)
            d = desc[int(i) - 1]
            mine = {"C02": not clause.startswith("set:"), "C07": clause.startswith("set:"), "C15": True,
                    "C08": clause.startswith(("typeid:", "member:")) or (not clause.startswith("set:") and any("d" in st_ for st_ in d["path"]))}[pid]
            if not mine:
                run.count("other_property:" + clause)
                continue
            key_ = ("capi:" if pid == "C08" else "") + f"{clause}:{path_class(w.handles[key]['tx'], d['path'])}" + (f":{tgt}" if pid == "C15" else "")
            run.report(key_, f"{d['name']} idx={d['idx']} on an object of {X.key(w.handles[key]['tx'])[:200]} at offset {key[1]} ({tgt}): {clause}; call record {rec['q'][int(i) - 1]}",
                       dict(seed=run.seed if not run.replay else seed, world=w.index, name=d["name"], idx=d["idx"]))
    run.notes["calls_validated_by_kind"] = dict(kinds)
    run.notes.update({k: v for k, v in stats.items()})
    for r, (w, key, desc, tgt) in list(zip(all_recs, keys_by_rec))[:3]:
        run.sample(dict(type=X.key(r["t"])[:300], offset=r["a"], target=tgt, calls=[dict(name=d["name"], idx=d["idx"], result=q.get("r", q.get("d"))) for d, q in zip(desc, r["q"])][:6]))
    run.cov["exhaustive"] = False


if __name__ == "__main__":
    import sys
    if len(sys.argv) == 5 and sys.argv[1] == "--live":
        _live_child(int(sys.argv[2]), sys.argv[3], sys.argv[4])
