"""runs (part of) the repository's own test-suite under vlib/observe_plugin.py and lets TLC judge the recorded objects"""
import json, os, shutil, subprocess, sys
from . import common as C

FILES = {"quick": ["test_struct.py", "test_array.py", "test_ref.py", "test_string.py", "test_unionref.py", "test_align.py", "test_scalars.py"],
         "thorough": None}


def observe(run):
    wd = C.scratch("obs")
    out = os.path.join(wd, "obs.json")
    env = C.child_env()
    env["VERIF_OBS_OUT"] = out
    files = FILES[run.tier]
    targets = [os.path.join(C.REPO, "tests", f) for f in files] if files else [os.path.join(C.REPO, "tests")]
    p = subprocess.run([sys.executable, "-m", "pytest", "-q", "-x", "-p", "vlib.observe_plugin", "-p", "no:cacheprovider", "--timeout=900",
                        "--rootdir", C.REPO, "-c", os.path.join(C.REPO, "pyproject.toml") if os.path.exists(os.path.join(C.REPO, "pyproject.toml")) else os.devnull] + targets,
                       cwd=wd, env=env, capture_output=True, text=True)
    if not os.path.exists(out):
        shutil.rmtree(wd, ignore_errors=True)
        raise C.MachineryError("observing the repository's tests produced no record:\n" + (p.stdout + p.stderr)[-1500:])
    data = json.load(open(out))
    recs = data["recs"]
    path = os.path.join(wd, "trace.json")
    json.dump([{k: r[k] for k in ("t", "a", "mem", "size", "v")} for r in recs], open(path, "w"))
    open(os.path.join(wd, "tr.cfg"), "w").write("SPECIFICATION Spec\nCHECK_DEADLOCK FALSE\n")
    info = dict(objects_recorded=len(recs), skipped=data["skip"], pytest_tail=(p.stdout.strip().splitlines() or [""])[-1][:120])
    if recs:
        res = C.run_tlc("XoObsTrace", "tr.cfg", workdir=wd, workers=1, timeout=3000, env={"TRACE_FILE": path})
        vs = C.tlc_tuples(res["out"], "VERDICT")
        if res["rc"] != 0 or len(vs) != len(recs):
            raise C.MachineryError(f"XoObsTrace: rc={res['rc']} verdicts={len(vs)}/{len(recs)}\n" + res["out"][-2000:])
        run.add_tlc(res)
        bad = [(recs[v[1] - 1], str(v[2])) for v in vs if v[2]]
        info["rejected"] = len(bad)
        for r, clause in bad:
            run.report(f"tests:{clause}", f"object of class {r['cls']} constructed by {r['test'][:120]} at offset {r['a']}: {clause}", dict(record={k: r[k] for k in ("t", "a", "size", "v", "cls", "test")}))
        run.cov["traces_validated_against_impl"] += len(recs)
    run.notes["repo_test_suite_objects"] = info
    shutil.rmtree(wd, ignore_errors=True)
