"""Implementation-shaped model of the accessor generator (spec/XoCapi.tla) and its binding to capi.py, both ways.

Model level: TLC enumerates a bounded type grammar (MC_XoCapi) and checks that the program the MODELLED generator emits for
every access path computes, with every in-range index tuple, the address the documented format gives (XoLayout!Nav) on the
image the format prescribes (XoEncode) - with a deliberately wrong generator variant (`offset=` for arrays of dynamically
sized items, the pinned tree's defect) that TLC must reject (vacuity self-test).

spec -> code: the program table of every enumerated type is exported; the REAL generator (the tree's capi.py) is run on a real
class of that type, the offset program of every `getp` accessor is parsed from the emitted C text and compared instruction by
instruction with the model's (difference = `model drift`, reported in the evidence, never a verdict).

code -> spec: the parsed real programs are executed by TLC (XoCapiProg: XoCapi!Run on the prescribed images, all extents of the
dynamic dimensions in Exts, all paths, ALL in-range index tuples) and must arrive at Nav's address: that is the verdict
(C02 for the CPU form, C15 for the OpenCL and CUDA forms of the same functions).
A function whose text the parser does not understand is counted (`unparsed`) and left to the executing engine.
"""
import json, os, re, shutil, itertools
from concurrent.futures import ThreadPoolExecutor
from . import common as C
from . import xtypes as X
from .layoutmc import with_kinds, sig

CFG = """SPECIFICATION Spec
CONSTANTS Depth = {depth} MaxFields = {nf} MaxNd = {nd} StaticDims = {{2}} DynExt = {{{ext}}} Widths = {{{widths}}}
          Parts = {parts} Part = {part} Export = {export} MemOrder = TRUE GenMode = "{mode}"
INVARIANT GeneratorRefinesFormat
INVARIANT ProgramsWellScoped
CHECK_DEADLOCK FALSE
"""
TIERS = {
    "quick": [dict(depth=1, nf=2, nd=3, widths="1, 8", parts=4, run=4, ext="0, 1, 2"),
              dict(depth=2, nf=2, nd=2, widths="8", parts=64, run=6, ext="1, 2")],
    "thorough": [dict(depth=1, nf=3, nd=3, widths="1, 2, 4, 8", parts=8, run=8, ext="0, 1, 2, 3"),
                 dict(depth=2, nf=2, nd=2, widths="1, 8", parts=64, run=64, ext="0, 1, 2")],
}
PROG_CFG = "SPECIFICATION Spec\nCONSTANTS Exts = {%s} MemOrder = TRUE GenMode = \"asis\"\nCHECK_DEADLOCK FALSE\n"
PROG_EXTS = {"quick": "0, 1, 2", "thorough": "0, 1, 2, 3"}


def _tlc(tag, cfg):
    wd = C.scratch("cmc")
    open(os.path.join(wd, tag + ".cfg"), "w").write(cfg)
    res = C.run_tlc("MC_XoCapi", tag + ".cfg", workdir=wd, workers=1, timeout=3000)
    shutil.rmtree(wd, ignore_errors=True)
    return res


# ----------------------------------------------------------------------------- parsing the emitted C
ERASE = re.compile(r"/\*.*?\*/|__global__|__global|__kernel|__device__|__host__|__forceinline__|\brestrict\b|\bstatic\b|\binline\b|\bconst\b")
_LOAD = r"\*\(int64_t\*\)\(\(char\*\)obj\+offset(?:\+([^()]+))?\)"
_RE_INIT = re.compile(r"^int64_toffset=0;$")
_RE_ADD = re.compile(r"^offset(\+?=)([^*()]+|[^()]*i\d+\*[^()]*);$")
_RE_LD = re.compile(r"^offset(\+?=)" + _LOAD + r";$")
_RE_SV = re.compile(r"^int64_t(\w+?)_s(\d+)=" + _LOAD + r";$")
_RE_RET = re.compile(r"^return\([^()]*\)\(\(char\*\)obj\+offset\);$")


def _expr(e):
    """'32+i0*A_s0+i1*8' -> (constant, [[ivar, stride]..]) ; None when not of that form"""
    k, st = 0, []
    if e is None or e == "":
        return 0, []
    for term in e.split("+"):
        if re.fullmatch(r"\d+", term):
            k += int(term)
            continue
        m = re.fullmatch(r"i(\d+)\*(\d+)", term)
        if m:
            st.append([int(m.group(1)), int(m.group(2))])
            continue
        m = re.fullmatch(r"i(\d+)\*\w+?_s(\d+)", term)
        if m:
            st.append([int(m.group(1)), -(int(m.group(2)) + 1)])
            continue
        return None
    return k, st


CWIDTH = {"int8_t": 1, "uint8_t": 1, "int16_t": 2, "uint16_t": 2, "int32_t": 4, "uint32_t": 4, "int64_t": 8, "uint64_t": 8, "float": 4, "double": 8,
          "char": 1}
_AT = r"\*(?:\((\w+)\*\)\(\(char\*\)obj\+offset\)|\(\((\w+)\*\)obj\+offset\))"          # *(T*)((char*)obj+offset)  |  *((T*)obj+offset)
_RE_GET = re.compile(r"^return" + _AT + r";$")
_RE_SET = re.compile(r"^" + _AT + r"=value;$")
_RE_ARR = re.compile(r"^int64_t\*arr=\(int64_t\*\)\(\(char\*\)obj\+offset\);$")
_RE_RETEXPR = re.compile(r"^return([\w\[\]*]+);$")


def parse_function(text, kind="getp"):
    """one generated accessor (text of the whole function) -> dict(ops, c, w) in the terms of XoCapi!AccOf, or None (not understood)"""
    body = text[text.index("{") + 1:text.rindex("}")]
    body = ERASE.sub("", body)
    lines = [re.sub(r"\s+", "", raw) for raw in body.split("\n")]
    lines = [ln for ln in lines if ln]
    ops, c, w = [], 0, []
    if kind == "len" and len(lines) == 1:           # static shape: the constant is returned, no offset program
        m = re.fullmatch(r"return(\d+);", lines[0])
        return dict(ops=[], c=int(m.group(1)), w=[]) if m else None
    if not lines or not _RE_INIT.match(lines[0]):
        return None
    i = 1
    while i < len(lines):
        ln = lines[i]
        m = _RE_SV.match(ln)
        if m:
            e = _expr(m.group(3))
            if e is None or e[1]:
                return None
            ops.append(dict(op="sv", k=e[0], st=[[int(m.group(2)), 0]], **{"as": 0}))
            i += 1
            continue
        m = _RE_LD.match(ln)
        if m:
            e = _expr(m.group(2))
            if e is None:
                return None
            ops.append(dict(op="lx" if e[1] else "ld", k=e[0], st=e[1], **{"as": 0 if m.group(1) == "+=" else 1}))
            i += 1
            continue
        m = _RE_ADD.match(ln)
        if m:
            e = _expr(m.group(2))
            if e is None:
                return None
            ops.append(dict(op="ix" if e[1] else "add", k=e[0], st=e[1], **{"as": 0 if m.group(1) == "+=" else 1}))
            i += 1
            continue
        break
    tail = lines[i:]
    if kind in ("getp", "member"):
        return dict(ops=ops, c=0, w=[]) if len(tail) == 1 and _RE_RET.match(tail[0]) else None
    if kind in ("get", "typeid"):
        m = _RE_GET.match(tail[0]) if len(tail) == 1 else None
        if not m or (m.group(1) or m.group(2)) not in CWIDTH:
            return None
        wd = CWIDTH[m.group(1) or m.group(2)]
        if kind == "typeid":
            return dict(ops=ops, c=0, w=[]) if wd == 8 else None
        return dict(ops=ops, c=wd, w=[])
    if kind == "set":
        m = _RE_SET.match(tail[0]) if len(tail) == 1 else None
        if not m or (m.group(1) or m.group(2)) not in CWIDTH:
            return None
        return dict(ops=ops, c=CWIDTH[m.group(1) or m.group(2)], w=[])
    if kind == "len":
        if len(tail) != 2 or not _RE_ARR.match(tail[0]):
            return None
        m = _RE_RETEXPR.match(tail[1])
        if not m:
            return None
        c = 1
        for term in m.group(1).split("*"):
            if re.fullmatch(r"\d+", term):
                c *= int(term)
            elif re.fullmatch(r"arr\[(\d+)\]", term):
                w.append(int(term[4:-1]))
            else:
                return None
        return dict(ops=ops, c=c, w=w)
    return None


def norm(ops):
    return [dict(op=o["op"], k=int(o["k"]), st=[[int(a), int(b)] for a, b in o["st"]], **{"as": int(o["as"])}) for o in ops]


def real_programs(cls, tx, target, kinds=None):
    """(type path, kind, function name, text) of every get / set / getp / len / typeid accessor the tree's generator emits for class cls"""
    from xobjects import capi
    from xobjects.typeutils import default_conf
    from xobjects.specialize_source import specialize_source
    out = []
    for path in cls._gen_data_paths():
        steps, t, ok = [], tx, True
        for part in path[1:]:
            if capi.is_field(part):
                steps.append({"f": part.index + 1})
                t = t["f"][part.index]
            elif capi.is_index(part):
                steps.append({"i": [0] * len(part.cls._shape)})
                t = t["it"]
            elif capi.is_ref(part):
                if t["k"] != "ref":
                    ok = False          # paths below a union member are not part of the model
                    break
                steps.append({"d": 1})
                t = t["to"]
        if not ok:
            continue
        for src, kernel in capi.methods_from_path(cls, path, default_conf):
            m = None if kernel is None else re.match(re.escape(cls._c_type) + r"_(getp|get|set|len|typeid|member)\d*(_|$)", kernel.c_name)
            if not m or (kinds and m.group(1) not in kinds):
                continue
            text = src if target == "cpu_serial" else specialize_source(src, specialize_for=target)
            out.append((steps, m.group(1), kernel.c_name, text))
    return out


# ----------------------------------------------------------------------------- the check
def model_level(run, pid):
    targets = {"C02": ["cpu_serial"], "C07": ["cpu_serial"], "C15": ["opencl", "cuda"]}[pid]
    kinds = {"C07": ("set", "get")}.get(pid)
    jobs = []
    for inst in TIERS[run.tier]:
        for part in range(inst["run"]):
            jobs.append((f"d{inst['depth']}p{part}", CFG.format(depth=inst["depth"], nf=inst["nf"], nd=inst["nd"], widths=inst["widths"], ext=inst["ext"],
                                                                 parts=inst["parts"], part=part, export="TRUE", mode="asis")))
    mutant = CFG.format(depth=2, nf=2, nd=1, widths="8", ext="2", parts=4, part=0, export="FALSE", mode="assign")
    cases, info = [], dict(instances=0, states=0)
    with ThreadPoolExecutor(max_workers=C.NCPU) as ex:
        fut_m = ex.submit(_tlc, "mutant", mutant)
        for res in ex.map(lambda j: _tlc(j[0], j[1]), jobs):
            if not res["ok"]:
                raise C.MachineryError("the modelled generator does not refine the documented format according to TLC (specification error):\n" + res["out"][-3000:])
            run.add_tlc(res)
            info["instances"] += 1
            info["states"] += res["distinct"]
            for line in res["out"].splitlines():
                if line.startswith('"{'):
                    cases.append(json.loads(json.loads(line)))
        m = fut_m.result()
        if not m["violated"] or "GeneratorRefinesFormat" not in m["out"]:
            raise C.MachineryError("vacuity self-test failed: TLC accepted a generator that ASSIGNS the offset for arrays of dynamically sized items")
        info["mutant_rejected"] = True
    # ---- the real generator on real classes of the enumerated types
    C.use_repo()
    ns = X.Namespace(prefix="G")
    counter = itertools.count(run.seed)
    recs, meta = [], []
    stats = dict(types=0, functions=0, identical_to_model=0, drift=0, unparsed=0, no_model_path=0)
    drift_examples, unparsed_examples = [], []
    for c in cases:
        tx = with_kinds(c["t"], counter)
        try:
            cls = ns.cls(tx)
        except Exception as ex:      # noqa
            raise C.MachineryError(f"could not build a class for {X.key(tx)[:200]}: {ex}")
        model = {json.dumps([e["p"], e["kind"]], sort_keys=True): dict(ops=norm(e["ops"]), c=int(e["c"]), w=[int(x) for x in e["w"]]) for e in c["progs"]}
        stats["types"] += 1
        for tgt in targets:
            progs = []
            for steps, kind, name, text in real_programs(cls, tx, tgt, kinds):
                stats["functions"] += 1
                ops = parse_function(text, kind)
                if ops is None:
                    stats["unparsed"] += 1
                    if len(unparsed_examples) < 3:
                        unparsed_examples.append(dict(function=name, target=tgt, text=text[:600]))
                    continue
                key = json.dumps([steps, kind], sort_keys=True)
                if key not in model:
                    stats["no_model_path"] += 1
                    continue
                if ops == model[key]:
                    stats["identical_to_model"] += 1
                else:
                    stats["drift"] += 1
                    if len(drift_examples) < 3:
                        drift_examples.append(dict(function=name, target=tgt, real=ops, model=model[key]))
                progs.append(dict(p=steps, kind=kind, name=name, **ops))
            if progs:
                recs.append(dict(t=c["t"], progs=[dict(p=e["p"], kind=e["kind"], ops=e["ops"], c=e["c"], w=e["w"]) for e in progs]))
                meta.append(dict(tx=tx, target=tgt, progs=progs))
    # ---- code -> spec: TLC executes the real programs
    verdicts, tot = validate(recs, PROG_EXTS[run.tier])
    run.cov["states"] += tot["distinct"]
    run.cov["transitions"] += tot["generated"]
    for v, mt, rec in zip(verdicts, meta, recs):
        if v:
            clause = v.split("@")[0]
            if pid == "C07" and clause.split(":")[-1] not in ("set", "get", "ill-scoped"):
                continue
            run.report(f"genmodel:{clause}:{mt['target']}:{sig(mt['tx'])}",
                       f"offset program emitted by the tree's generator for a class of type {X.key(mt['tx'])[:300]} ({mt['target']} form) executed by TLC on the image the "
                       f"documented format prescribes: {v[:300]}", dict(genmodel=dict(rec=rec, tx=mt["tx"], names=[e["name"] for e in mt["progs"]], target=mt["target"])))
    info.update(stats)
    info["records_validated_by_TLC"] = len(recs)
    info["model_drift_examples"] = drift_examples
    info["unparsed_examples"] = unparsed_examples
    run.notes["generator_model"] = info
    run.cov["traces_validated_against_impl"] += len(recs)
    if recs:
        run.sample(dict(generator_program=dict(t=recs[0]["t"], function=meta[0]["progs"][-1]["name"], kind=meta[0]["progs"][-1]["kind"], ops=meta[0]["progs"][-1]["ops"])))


def validate(recs, exts):
    if not recs:
        return [], dict(generated=0, distinct=0)
    nb = min(C.NCPU, max(1, len(recs) // 20))
    size = (len(recs) + nb - 1) // nb
    batches = [recs[i:i + size] for i in range(0, len(recs), size)]
    out = [None] * len(recs)
    tot = dict(generated=0, distinct=0)

    def one(bi):
        wd = C.scratch("cpg")
        path = os.path.join(wd, "trace.json")
        json.dump(batches[bi], open(path, "w"))
        open(os.path.join(wd, "tr.cfg"), "w").write(PROG_CFG % exts)
        res = C.run_tlc("XoCapiProg", "tr.cfg", workdir=wd, workers=1, timeout=3000, env={"TRACE_FILE": path})
        vs = C.tlc_tuples(res["out"], "VERDICT")
        if res["rc"] != 0 or len(vs) != len(batches[bi]):
            keep = os.path.join(C.OUT, f"tlc_failure_capiprog_{os.getpid()}_{bi}")
            shutil.rmtree(keep, ignore_errors=True)
            shutil.copytree(wd, keep)
            raise C.MachineryError(f"generator-program validation batch {bi}: rc={res['rc']} verdicts={len(vs)}/{len(batches[bi])} (kept {keep})\n" + res["out"][-3000:])
        shutil.rmtree(wd, ignore_errors=True)
        return bi, vs, res

    with ThreadPoolExecutor(max_workers=C.NCPU) as ex:
        for bi, vs, res in ex.map(one, range(len(batches))):
            for v in vs:
                out[bi * size + v[1] - 1] = str(v[2])
            tot["generated"] += res["generated"]
            tot["distinct"] += res["distinct"]
    return out, tot


def replay(run, pid, rp):
    """regenerate the accessors of the recorded type with the tree's generator, parse and validate them again"""
    C.use_repo()
    ns = X.Namespace(prefix="G")
    tx = rp["tx"]
    cls = ns.cls(tx)
    progs = []
    for steps, kind, name, text in real_programs(cls, tx, rp["target"], {"C07": ("set", "get")}.get(pid)):
        ops = parse_function(text, kind)
        if ops is not None:
            progs.append(dict(p=steps, kind=kind, **ops))
    verdicts, _ = validate([dict(t=rp["rec"]["t"], progs=progs)], PROG_EXTS["thorough"])
    if verdicts[0]:
        run.report(f"genmodel:{verdicts[0].split('@')[0]}:{rp['target']}:{sig(tx)}", verdicts[0][:400], dict(genmodel=rp))
