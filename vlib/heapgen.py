"""spec -> code for the heap engine: TLC enumerates EVERY history of the reference-graph model spec/XoHeapGen.tla
(events of C08/C09/C10 over a small type family), each exported history is executed on the real library with the
reference bindings the model prescribes, and the recorded execution is validated by TLC against XoHeap/XoHeapTrace
like any other history.  The model's final reference graph is compared with the bindings the harness observed.
"""
import json, os, random, shutil
from . import common as C
from . import xtypes as X
from .world import World

I64, F64, I8 = X.sc("Int64"), X.sc("Float64"), X.sc("Int8")
ARR2 = X.arr(F64, [2])
# two realisations of the model's type family: a dynamically sized and a statically sized Leaf
FAMILIES = []
for _leaf in (X.struct(I64, X.arr(F64, [-1])), X.struct(I64, X.arr(F64, [3]))):
    FAMILIES.append((_leaf, X.struct(I8, X.ref(_leaf), X.arr(X.uref(_leaf, ARR2), [2]), X.STR)))
for _leaf in (X.struct(I64, X.arr(F64, [-1])), X.struct(I64, X.arr(F64, [3]))):
    # the two further slots as an array of PLAIN references (the model only ever binds leaves to them)
    FAMILIES.append((_leaf, X.struct(I8, X.ref(_leaf), X.arr(X.ref(_leaf), [2]), X.STR)))
LEAF, HOLDER = FAMILIES[0]
SLOT = {"r": [("f", 1)], "u1": [("f", 2), ("i", [0])], "u2": [("f", 2), ("i", [1])]}

CFG = """SPECIFICATION Spec
CONSTANTS MaxLen = {L} MaxObj = {M} Export = TRUE
INVARIANT RefsStayInBuffer
INVARIANT FreshIsIndependent
INVARIANT CopySharesNothingAcrossBuffers
INVARIANT Exported
CHECK_DEADLOCK FALSE
"""
TIERS = {"quick": dict(L=3, M=5, sample=700), "thorough": dict(L=4, M=6, sample=12000)}


def export(run):
    t = TIERS[run.tier]
    wd = C.scratch("hgen")
    open(os.path.join(wd, "g.cfg"), "w").write(CFG.format(L=t["L"], M=t["M"]))
    res = C.run_tlc("XoHeapGen", "g.cfg", workdir=wd, workers=1, timeout=3000)
    shutil.rmtree(wd, ignore_errors=True)
    if not res["ok"]:
        raise C.MachineryError("XoHeapGen: the reference-graph model violates its own invariants:\n" + res["out"][-2000:])
    run.add_tlc(res)
    hs = [json.loads(json.loads(ln)) for ln in res["out"].splitlines() if ln.startswith('"{')]
    return hs, res


def replay(model, seed, index):
    """execute one model history; returns the recorded history (with gen info) or None when the harness cannot follow it"""
    rng = random.Random(f"{seed}:gen:{index}")
    LEAF, HOLDER = FAMILIES[index % len(FAMILIES)]
    w = World(rng, caps=[rng.choice([0, 64, 256]), rng.choice([0, 64, 256]), 64])
    w.index = index
    keys = []                 # model object index (1-based) -> world key

    def choice(c, o, hb):
        if c == "null":
            return ("null",)
        if c == "new":
            return ("new", 0)
        k = keys[o - 1]
        h = w.fetch(k, rng.choice(["view", "ctor"] if w.handles[k].get("ctor") is not None else ["view"]))
        if c == "alias":
            return ("alias", k[1], 0, h)
        return ("foreign", 0, (k[0] + 1, k[1]), h)

    def slot_target(hk, s):
        v = w.shadow[hk]
        r = v[1] if s == "r" else v[2]["it"][0 if s == "u1" else 1]
        return None if r["null"] else (hk[0], r["at"])

    ok = True
    stopped = ""
    try:
        ok = _run(model, w, rng, keys, choice, slot_target, LEAF, HOLDER)
    except C.MachineryError:
        raise
    except Exception as ex:      # noqa: see heap.make_history
        ok = False
        stopped = type(ex).__name__ + ": " + str(ex)[:200]
    return _finish(model, w, keys, ok, stopped, seed, index, slot_target)


def _run(model, w, rng, keys, choice, slot_target, LEAF=None, HOLDER=None):
    ok = True
    for ev in model["hist"]:
        op = ev["op"]
        if op == "newleaf":
            k = w.new(LEAF, ev["b"] - 1, allow=("null",))
            if k is None:
                ok = False
                break
            keys.append(k)
        elif op == "newholder":
            b = ev["b"] - 1
            w.forced = [choice(ev["c"], ev["o"], b), ("null",), ("null",)]
            k = w.new(HOLDER, b)
            w.forced = None
            if k is None:
                ok = False
                break
            keys.append(k)
            if ev["c"] in ("new", "foreign"):
                keys.append(slot_target(k, "r"))
        elif op == "bind":
            hk = keys[ev["h"] - 1]
            w.forced = [choice(ev["c"], ev["o"], hk[0])]
            good = w.set(hk, target=SLOT[ev["s"]], no_from=True)
            w.forced = None
            if not good:
                ok = False
                break
            if ev["c"] in ("new", "foreign"):
                keys.append(slot_target(hk, ev["s"]))
        elif op == "writeref":
            hk = keys[ev["h"] - 1]
            tgt = SLOT[ev["s"]] + [rng.choice([("f", 0), ("f", 1)])]
            t = slot_target(hk, ev["s"])
            if tgt[-1] == ("f", 1) and t is not None and len(w.shadow[t][1]["it"]) > 0 and rng.random() < 0.5:
                tgt = tgt + [("i", [0])]
            if not w.set(hk, target=tgt, no_from=True):
                ok = False
                break
        elif op == "writeorig":
            if not w.set(keys[ev["o"] - 1], target=[("f", 0)], no_from=True):
                ok = False
                break
        elif op == "setplain":
            if not w.set(keys[ev["h"] - 1], target=[rng.choice([("f", 0), ("f", 3)])], no_from=True):
                ok = False
                break
        elif op == "grow":
            w.grow(ev["b"] - 1)
        elif op == "copy":
            src = keys[ev["o"] - 1]
            nk = w.copy(src, ev["b"] - 1, whole=True)
            if nk is None:
                ok = False
                break
            keys.append(nk)
            if X.key(w.handles[src]["tx"]) == X.key(HOLDER):
                if src[0] != ev["b"] - 1:
                    for s in ("r", "u1", "u2"):
                        if slot_target(src, s) is not None:
                            keys.append(slot_target(nk, s))
    return ok


def _finish(model, w, keys, ok, stopped, seed, index, slot_target):
    h = w.history()
    h["prog"] = w.prog
    h["harness_stopped"] = stopped
    h["gen"] = dict(kind="model", seed=seed, index=index, model=model)
    # the reference graph the model ends in vs the bindings observed (only when the whole history was followed)
    graph = ""
    if ok and len(keys) == len(model["objs"]) and None not in keys:
        for hi, o in enumerate(model["objs"]):
            if o["kind"] != "holder":
                continue
            for s in ("r", "u1", "u2"):
                want = model["slot"][hi][s]
                got = slot_target(keys[hi], s)
                if (want == 0) != (got is None) or (want and keys[want - 1] != got):
                    graph = f"holder {hi + 1} slot {s}: model says object {want}, observed {got}"
    h["graph_mismatch"] = graph
    h["followed"] = ok
    return h
