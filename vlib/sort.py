"""Engine for C14: every class API is emitted once, after all of its dependencies (sort_classes / topological_sort).

model level : TLC checks the implementation-shaped model of sort_classes + topological_sort (XoSort.tla PART 2, a
              statement-by-statement transliteration) against the contract (PART 1) over ALL dependency graphs on
              <= 3 (quick) / <= 4 (thorough) classes x API flags x root lists; termination under weak fairness; and, as a
              vacuity self-test, that TLC does find the duplicate-seed counterexample of the pinned algorithm (Fixed = FALSE).
spec -> code: every case TLC enumerates is exported (XoSortGen) together with the model's result; for each one REAL xobjects
              classes are built (edges realised as struct fields, array item types, xo.Ref, UnionRef members, _depends_on;
              field-less structs; scalars and plain python classes as API-less nodes; cycles through _depends_on / _reftypes
              mutated after class creation) and the real xo.context.sort_classes and the real source assembly
              (ContextCpu.build_kernels(compile=False)) are run; result compared with the model (difference = model-drift note).
code -> spec: the real result and the def/use events read off the assembled source go back to TLC, which validates them
              against the CONTRACT (XoSortTrace.tla; any valid order is accepted); the verdict names the failing clause.
aux         : "the emitted source compiles": every assembled source is syntax-checked with the C compiler (batched translation
              units, unique names per case), a stratified sample is really built with ctx.add_kernels (cffi) in a scratch cwd.
"""
import collections, json, os, random, re, shutil, subprocess, sys, time
from concurrent.futures import ThreadPoolExecutor
from . import common as C

PROPERTIES = ["C14"]

SCALARS = ["Int8", "Int16", "Int32", "Int64", "UInt8", "UInt16", "UInt32", "UInt64", "Float32", "Float64", "String"]
KERNEL_FLAGS = ("-O0", "-Wno-unused-function")
# many short single-worker TLC processes run side by side (other checks may be running too): small heaps, one GC thread, C1 only
JVM = ("-XX:ParallelGCThreads=1", "-Xmx1500m", "-XX:TieredStopAtLevel=1")


# ----------------------------------------------------------------------------- realisation of an abstract case
def _closure(deps, roots):
    seen, todo = [], list(roots)
    while todo:
        c = todo.pop(0)
        if c not in seen:
            seen.append(c)
            todo += deps[c - 1]
    return seen


def plan(case, rseed, force=None):
    """decide, for one abstract case, the kind of every node and of every edge.  Pure (no xobjects needed).

    returns dict(kinds={id: kind}, edges={id: [(to, edgekind)]}, names={id: name}, order=[ids in creation order])"""
    deps, api, roots = case["deps"], case["api"], case["roots"]
    rng = random.Random(rseed)
    nodes = _closure(deps, roots)
    # creation order: dependencies first where the graph allows it (post-order DFS)
    order, state = [], {}

    def dfs(c):
        state[c] = 1
        for t in deps[c - 1]:
            if t not in state:
                dfs(t)
        state[c] = 2
        order.append(c)
    for r in roots:
        if r not in state:
            dfs(r)
    letters = list("ABCDEFGH"[:max(4, len(deps))])
    rng.shuffle(letters)                       # names must not follow the numbering of the model
    tag = case.get("tag", "K")
    base = {c: f"{tag}_{letters[c - 1]}" for c in nodes}
    if len(nodes) >= 2 and rng.random() < 0.3:
        # two classes whose names differ ONLY BY CASE (class names are case-sensitive, in Python and in C)
        c1, c2 = rng.sample(list(nodes), 2)
        base[c2] = base[c1].swapcase()
    kinds, edges, names, derive = {}, {}, {}, {}
    # a FAMILY of hybrid classes (a quarter of the plans): every struct of the graph is the struct behind an xo.HybridClass, and classes
    # name several hybrid classes next to each other in their _depends_on (the metaclass resolves each of them to its struct)
    family = rng.random() < 0.25
    scal = SCALARS[:]
    rng.shuffle(scal)
    ref_targets = set()
    for c in order:
        D = deps[c - 1]

        def exists(t):
            return t in kinds and t != c
        if force and c in force:
            want = force[c]
        else:
            want = None
        if not api[c - 1]:
            if not D:
                kinds[c] = "scalar"
                names[c] = scal.pop()
                edges[c] = []
            else:
                kinds[c] = "duck"
                names[c] = base[c]
                edges[c] = [(t, "declared") for t in D]
            continue
        cand = ["struct"]
        if len(D) == 1 and exists(D[0]) and kinds[D[0]] != "duck":
            cand.append("array")
        if len(D) == 1 and exists(D[0]) and api[D[0] - 1] and D[0] not in ref_targets:
            cand.append("ref")
        if len(D) >= 1 and all(api[t - 1] for t in D) and len(set(D)) == len(D):
            cand.append("union")
        if want == "hybrid" or want in cand:
            k = want
        else:
            k = rng.choice(cand)
            if k == "struct" and (family or rng.random() < 0.3):
                k = "hybrid"      # the struct behind an xo.HybridClass: fields through _xofields, dependencies through the class body
        kinds[c] = k
        if k in ("struct", "hybrid"):
            pmax = 0
            while pmax < len(D) and exists(D[pmax]) and kinds[D[pmax]] != "duck":
                pmax += 1
            split = pmax if rng.random() < 0.5 else rng.randint(0, pmax)
            if family and k == "hybrid" and rng.random() < 0.6:
                split = 0
            edges[c] = [(t, "field" if x < split else "declared") for x, t in enumerate(D)]
            names[c] = base[c]
        elif k == "array":
            edges[c] = [(D[0], "item")]
            names[c] = None                     # decided at creation (natural name unless it would clash)
            # a NAMED array class DERIVED from another array class of the graph with the same item type (`class Polygon(Points): pass`):
            # same dependencies, an API of its own, and it inherits every class attribute of its base
            sib = [b for b in kinds if b != c and kinds[b] == "array" and edges[b][0][0] == D[0]]
            if sib and rng.random() < 0.6:
                derive[c] = rng.choice(sib)
        elif k == "ref":
            edges[c] = [(D[0], "ref")]
            ref_targets.add(D[0])
            names[c] = None
        else:
            # a union's members; the trailing entries may instead be DECLARED dependencies of the union class (_depends_on)
            nm = len(D) if rng.random() < 0.6 else rng.randint(1, len(D))
            edges[c] = [(t, "member" if x < nm else "declared") for x, t in enumerate(D)]
            names[c] = base[c]
    return dict(kinds=kinds, edges=edges, names=names, order=order, nodes=nodes, base=base, rseed=rseed, derive=derive)


def build(case, pl):
    """create the real classes of a planned case; returns {id: object}"""
    xo = C.use_repo()
    from xobjects.struct import MetaStruct
    from xobjects.array import MetaArray
    from xobjects.ref import MetaUnionRef
    rng = random.Random(pl["rseed"] + "/b")
    kinds, edges, names, base = pl["kinds"], pl["edges"], pl["names"], pl["base"]
    obj, late, hyb, inbody = {}, [], {}, {}
    used_names = set()

    def body_decl(c):
        """declared dependencies that can be written in the class body: the leading ones whose classes exist already"""
        res = []
        for t, ek in edges[c]:
            if ek == "declared":
                if t not in obj:
                    break
                res.append(t)
        return res
    for c in pl["order"]:
        k = kinds[c]
        if k == "scalar":
            obj[c] = getattr(xo, names[c])
        elif k == "duck":
            obj[c] = type(names[c], (), {"_depends_on": []})
            late.append(c)
        elif k == "struct":
            data = {}
            for x, (t, ek) in enumerate(edges[c]):
                if ek == "field":
                    data[f"f{x}"] = obj[t]
            inbody[c] = body_decl(c)
            data["_depends_on"] = [obj[t] for t in inbody[c]]
            obj[c] = MetaStruct(names[c], (xo.Struct,), data)
            late.append(c)
        elif k == "hybrid":
            # hybrid classes may name other hybrid classes as field types / dependencies; HybridClass swaps in their _XoStruct
            inbody[c] = body_decl(c)
            data = {"_cname": names[c],
                    "_xofields": {f"f{x}": hyb.get(t, obj.get(t)) for x, (t, ek) in enumerate(edges[c]) if ek == "field"},
                    "_depends_on": [hyb.get(t, obj[t]) for t in inbody[c]]}
            hyb[c] = type(xo.HybridClass)("Py" + names[c], (xo.HybridClass,), data)
            obj[c] = hyb[c]._XoStruct
            late.append(c)
        elif k == "array":
            t = edges[c][0][0]
            shape = rng.choice([(None,), (2,), (None, 2), (3, None)])
            order = tuple(range(len(shape)))
            it = obj[t]
            nat = xo.Array.mk_arrayclass(it, tuple(slice(None) if s is None else s for s in shape))
            if pl.get("derive", {}).get(c) in obj:
                nat = MetaArray(base[c], (obj[pl["derive"][c]],), {})
            elif kinds[t] == "scalar" or nat.__name__ in used_names:
                # xobjects names array classes after shape and item type only; sort_classes identifies classes by name, so a second
                # array class of the same item type (or one over a scalar, shared between cases) gets a name of its own
                nat = MetaArray(base[c], (xo.Array,), {"_itemtype": it, "_shape": nat._shape, "_order": nat._order})
            obj[c] = nat
            names[c] = nat.__name__
        elif k == "ref":
            obj[c] = xo.Ref[obj[edges[c][0][0]]]
            names[c] = obj[c].__name__
        elif k == "union":
            if all(t in obj for t, _ in edges[c]):
                data = {"_reftypes": [obj[t] for t, ek in edges[c] if ek == "member"]}
                if any(ek == "declared" for _, ek in edges[c]):
                    data["_depends_on"] = [obj[t] for t, ek in edges[c] if ek == "declared"]
                obj[c] = MetaUnionRef(names[c], (xo.UnionRef,), data)
            else:
                obj[c] = MetaUnionRef(names[c], (xo.UnionRef,), {"_reftypes": [], "_depends_on": []})
                late.append(c)
        used_names.add(names[c])
    # edges that can only exist through mutation after class creation (this is also how cycles arise)
    for c in late:
        if kinds[c] in ("struct", "hybrid", "duck"):
            decl = [t for t, ek in edges[c] if ek == "declared"]
            obj[c]._depends_on.extend(obj[t] for t in decl[len(inbody.get(c, [])):])
        else:
            obj[c]._reftypes.extend(obj[t] for t, ek in edges[c] if ek == "member")
            obj[c]._depends_on.extend(obj[t] for t, ek in edges[c] if ek == "declared")
    # what _depends_on is for: extra C sources of a class that use the API of the classes it depends on
    for c in pl["order"]:
        if kinds[c] in ("struct", "hybrid"):
            used = []
            for t, _ in edges[c]:
                if case["api"][t - 1] and names[t] not in used:
                    used.append(names[t])
            if used:
                args = ", ".join(f"{nm} a{x}" for x, nm in enumerate(used))
                obj[c]._extra_c_sources.append(f"void {names[c]}_uses({args});")
    # the graph handed to TLC is the planned one: make sure the built classes really carry exactly these edges
    # (read from the declaring attributes, not through _get_inner_types, which is code under test)
    for c in pl["order"]:
        o, k = obj[c], kinds[c]
        real = ([f.ftype for f in o._fields] + list(o._depends_on) if k in ("struct", "hybrid") else [o._itemtype] if k == "array"
                else [o._reftype] if k == "ref" else list(o._reftypes) + list(getattr(o, "_depends_on", [])) if k == "union" else list(o._depends_on) if k == "duck" else [])
        # (a hybrid class is declared with the hybrid classes of its targets; swapping in their structs is the library's job and under test)
        if k == "hybrid":
            # the harness handed the metaclass exactly the planned list (inbody / late extension above); what the metaclass makes of the
            # declared part (_depends_on: resolution of hybrid classes to their structs) is code under test - a list it mangles is judged
            # by the contract on the PLANNED graph (a dependency that is never emitted), not reported as a harness failure
            nf = len(o._fields)
            real, planned = real[:nf], edges[c][:nf]
        else:
            planned = edges[c]
        if len(real) != len(planned) or any(r is not obj[t] and not (k == "hybrid" and r is hyb.get(t)) for r, (t, _) in zip(real, planned)):
            raise C.MachineryError(f"harness: class {c} ({k}) was not built with the planned edges {edges[c]}: {real}")
    return obj


def node_desc(case, pl, c):
    if c not in pl["kinds"]:
        return "foreign-object"
    k = pl["kinds"][c] + ("-derived-from-array-class" if c in pl.get("derive", {}) else "")
    return k + ("-without-dependencies" if not case["deps"][c - 1] and k not in ("scalar",) else "")


# ----------------------------------------------------------------------------- running the real library on a case
_CTX = None


def _ctx():
    global _CTX
    if _CTX is None:
        xo = C.use_repo()
        _CTX = xo.ContextCpu()
    return _CTX


def _ident(obj, names, x):
    for c, o in obj.items():
        if o is x:
            return c
    nm = getattr(x, "__name__", None)
    for c, n in names.items():
        if n == nm:
            return c
    return 0


_TYPEDEF = re.compile(r"typedef\b[^;]*?\bstruct\s+(\w+)_s\s*\*\s*(\w+)\s*;")


def source_events(src, api_names):
    """[0, c] = typedef of class c emitted, [1, c] = first use of the type name of class c; in textual order"""
    if not api_names:
        return []
    ev, skip = [], set()
    for m in _TYPEDEF.finditer(src):
        if m.group(1) == m.group(2) and m.group(2) in api_names:
            ev.append((m.start(2), 0, api_names[m.group(2)]))
            skip.add(m.start(2))
    tok = re.compile(r"\b(" + "|".join(re.escape(n) for n in sorted(api_names, key=len, reverse=True)) + r")\b")
    first = {}
    for m in tok.finditer(src):
        if m.start() in skip:
            continue
        c = api_names[m.group(1)]
        if c not in first:
            first[c] = m.start()
    ev += [(p, 1, c) for c, p in first.items()]
    ev.sort()
    return [[k, c] for _, k, c in ev]


def run_case(case, rseed, want_source=True):
    """realise, call the real sort_classes and the real source assembly; returns (record for TLC, aux)"""
    xo = C.use_repo()
    pl = plan(case, rseed, case.get("force"))
    obj = build(case, pl)
    names = pl["names"]
    roots = [obj[r] for r in case["roots"]]
    # a class superseded by a later class of the same name (how kernels are rebuilt after a class was redefined: the class the
    # sort resolves a name to is the LAST one listed): an older, dependency-free namesake in front of the roots changes nothing
    # of what the contract prescribes for the graph
    rs = random.Random(rseed + "/superseded")
    older = [c for c in case["roots"] if pl["kinds"][c] == "struct" and case["deps"][c - 1]]
    superseded = 0
    if older and rs.random() < 0.25:
        from xobjects.struct import MetaStruct
        superseded = rs.choice(older)
        roots = [MetaStruct(names[superseded], (xo.Struct,), {})] + roots
    n = len(case["deps"])
    rec = dict(n=n, deps=[[[t, ek] for t, ek in pl["edges"].get(c, [])] for c in range(1, n + 1)],
               api=[1 if (c in obj and hasattr(obj[c], "_gen_c_api")) else 0 for c in range(1, n + 1)],
               roots=list(case["roots"]), k="ok", res=[], sk="none", ev=[])
    aux = dict(exc="", sexc="", src=None, pl=pl, superseded=superseded)
    try:
        res = xo.context.sort_classes(list(roots))
        rec["res"] = [_ident(obj, names, x) for x in res]
    except Exception as ex:                    # noqa: the contract only asks for "an error"
        rec["k"] = "error"
        aux["exc"] = f"{type(ex).__name__}: {ex}"[:200]
    if want_source:
        kd = {"c14_probe": xo.Kernel(args=[xo.Arg(xo.Int32, name="n")])}
        try:
            out = _ctx().build_kernels(kernel_descriptions=kd, extra_classes=list(roots), compile=False)
            src = out["c14_probe"].specialized_source
            api_names = {names[c]: c for c in obj if hasattr(obj[c], "_gen_c_api")}
            rec["sk"] = "ok"
            rec["ev"] = source_events(src, api_names)
            aux["src"] = src
        except Exception as ex:                # noqa
            rec["sk"] = "error"
            aux["sexc"] = f"{type(ex).__name__}: {ex}"[:200]
    return rec, aux


def real_build(case, rseed):
    """the whole path a user takes: ctx.add_kernels(kernels={}, extra_classes=roots) with cffi, in a scratch cwd"""
    xo = C.use_repo()
    pl = plan(case, rseed, case.get("force"))
    obj = build(case, pl)
    try:
        ctx = xo.ContextCpu()
        ctx._compile_kernels_info = False          # quiet; no influence on what is built
        ctx.add_kernels(kernels={}, extra_classes=[obj[r] for r in case["roots"]], extra_compile_args=KERNEL_FLAGS)
        return "ok", ""
    except Exception as ex:                    # noqa
        return "error", f"{type(ex).__name__}: {str(ex)[:160]}"


def syntax_check(items, wd, tag):
    """items: [(idx, source)] -> {idx: first error line} using one translation unit (names are unique per case)"""
    if not items:
        return {}
    path = os.path.join(wd, f"tu_{tag}.c")
    with open(path, "w") as f:
        for idx, src in items:
            f.write(f'\n#line 1 "case_{idx}"\n')
            f.write(src)
            f.write("\n")
    p = subprocess.run(["cc", "-std=c99", "-fsyntax-only", "-w", "-fmax-errors=0", path], capture_output=True, text=True)
    bad = {}
    if p.returncode != 0:
        for ln in p.stderr.splitlines():
            m = re.match(r"case_(\d+):\d+:\d+: (?:fatal )?error: (.*)", ln)
            if m and int(m.group(1)) not in bad:
                bad[int(m.group(1))] = m.group(2)[:200]
        if not bad:
            raise C.MachineryError("C compiler failed without a case-attributable error:\n" + p.stderr[-1500:])
    os.remove(path)
    return bad


def _work(job):
    """one chunk, in a worker process: [(idx, case)] -> [(idx, rec, small aux)]"""
    seed, chunk, wd, tag = job
    os.chdir(wd)
    out, srcs = [], []
    for idx, case in chunk:
        rseed = f"{seed}:{case['tag']}"
        rec, aux = run_case(case, rseed)
        pl = aux["pl"]
        if aux["src"] is not None:
            srcs.append((idx, aux["src"]))
        out.append([idx, rec, dict(exc=aux["exc"], sexc=aux["sexc"], superseded=aux.get("superseded", 0), kinds={str(c): k for c, k in pl["kinds"].items()},
                                   names={str(c): v for c, v in pl["names"].items()}, rseed=rseed, cc="")])
    bad = syntax_check(srcs, wd, tag)
    for o in out:
        if o[0] in bad:
            o[2]["cc"] = bad[o[0]]
    return out


def _work_build(job):
    case, rseed, wd = job
    os.chdir(wd)
    return real_build(case, rseed)


# ----------------------------------------------------------------------------- TLC: model checking + export
CONFIGS = {
    # Most digraphs are cyclic, so every tier spends its budget separately on acyclic graphs (ordering half of the contract,
    # rich variation: duplicates, long lists, root lists with repeats) and on cyclic ones (error half).
    "quick": [
        # acyclic graphs on <= 3 classes, dependency lists up to 3 entries with duplicates, root lists with repeats
        dict(tag="A3", consts='N = 3 MaxDeps = 3 DepMode = "lists" SelfDeps = FALSE MaxRoots = 3 DupRoots = TRUE ApiAll = FALSE Shape = "acyclic" SplitModes = {"half"}', parts=5),
        # cyclic graphs on <= 3 classes with duplicate entries
        dict(tag="C3", consts='N = 3 MaxDeps = 2 DepMode = "lists" SelfDeps = FALSE MaxRoots = 2 DupRoots = TRUE ApiAll = FALSE Shape = "cyclic" SplitModes = {"half"}', parts=3),
        # all graphs on <= 3 classes as dependency SETS, self-dependencies included, all root orders
        dict(tag="S3", consts='N = 3 MaxDeps = 3 DepMode = "sets" SelfDeps = TRUE MaxRoots = 3 DupRoots = FALSE ApiAll = FALSE Shape = "any" SplitModes = {"half"}', parts=4),
    ],
    "thorough": [
        dict(tag="A3", consts='N = 3 MaxDeps = 3 DepMode = "lists" SelfDeps = FALSE MaxRoots = 3 DupRoots = TRUE ApiAll = FALSE Shape = "acyclic" SplitModes = {"inner", "decl", "half"}', parts=6),
        dict(tag="C3", consts='N = 3 MaxDeps = 2 DepMode = "lists" SelfDeps = TRUE MaxRoots = 2 DupRoots = TRUE ApiAll = FALSE Shape = "cyclic" SplitModes = {"half"}', parts=8),
        dict(tag="S3", consts='N = 3 MaxDeps = 3 DepMode = "sets" SelfDeps = TRUE MaxRoots = 3 DupRoots = TRUE ApiAll = FALSE Shape = "any" SplitModes = {"half"}', parts=6),
        # every DAG on <= 4 classes, every order of every dependency list, every API flag, all root choices and orders
        dict(tag="A4", consts='N = 4 MaxDeps = 3 DepMode = "nodup" SelfDeps = FALSE MaxRoots = 4 DupRoots = FALSE ApiAll = FALSE Shape = "acyclic" SplitModes = {"half"}', parts=16),
        # DAGs on <= 4 classes with duplicate entries
        dict(tag="D4", consts='N = 4 MaxDeps = 2 DepMode = "lists" SelfDeps = FALSE MaxRoots = 2 DupRoots = FALSE ApiAll = TRUE Shape = "acyclic" SplitModes = {"half"}', parts=4),
        # every cyclic graph on <= 4 classes (dependency sets)
        dict(tag="C4", consts='N = 4 MaxDeps = 3 DepMode = "sets" SelfDeps = FALSE MaxRoots = 2 DupRoots = FALSE ApiAll = TRUE Shape = "cyclic" SplitModes = {"half"}', parts=4),
    ],
}
GEN_CFG = """SPECIFICATION GSpec
CONSTANTS {c} Fixed = TRUE NParts = {n} Part = {p}
INVARIANT ImplMeetsContract
INVARIANT ClosureComplete
INVARIANT CountsSane
"""
LIVE_CFG = """SPECIFICATION FairSpec
CONSTANTS {c} Fixed = TRUE NParts = 1 Part = 0
PROPERTY Terminates
"""
PINNED_CFG = """SPECIFICATION Spec
CONSTANTS N = 2 MaxDeps = 2 DepMode = "lists" SelfDeps = FALSE MaxRoots = 2 DupRoots = FALSE ApiAll = FALSE Shape = "any" SplitModes = {"half"} Fixed = FALSE NParts = 1 Part = 0
INVARIANT ImplMeetsContract
"""
LIVE = {"quick": 'N = 2 MaxDeps = 2 DepMode = "lists" SelfDeps = TRUE MaxRoots = 2 DupRoots = TRUE ApiAll = FALSE Shape = "any" SplitModes = {"half"}',
        "thorough": 'N = 3 MaxDeps = 3 DepMode = "sets" SelfDeps = TRUE MaxRoots = 2 DupRoots = TRUE ApiAll = FALSE Shape = "any" SplitModes = {"half"}'}


def tlc_jobs(run, tier):
    """runs all TLC model-checking/export processes concurrently; returns the exported cases"""
    jobs = []
    for cf in CONFIGS[tier]:
        for p in range(cf["parts"]):
            jobs.append(("gen", cf["tag"], p, "XoSortGen", GEN_CFG.format(c=cf["consts"], n=cf["parts"], p=p), 1))
    jobs.append(("live", "live", 0, "XoSort", LIVE_CFG.format(c=LIVE[tier]), 2))
    jobs.append(("pinned", "pinned", 0, "XoSort", PINNED_CFG, 1))

    def one(job):
        kind, tag, p, mod, cfg, workers = job
        wd = C.scratch("c14mc")
        open(os.path.join(wd, "x.cfg"), "w").write(cfg)
        res = C.run_tlc(mod, "x.cfg", workdir=wd, workers=workers, timeout=3000, jvm=JVM)
        shutil.rmtree(wd, ignore_errors=True)
        return job, res

    cases, mc = [], collections.OrderedDict()
    with ThreadPoolExecutor(max_workers=min(len(jobs), max(2, C.NCPU - 2))) as ex:
        for (kind, tag, p, mod, cfg, workers), res in ex.map(one, jobs):
            if kind == "pinned":
                # vacuity: on the algorithm of the pinned tree TLC has to find the duplicate
                if not res["violated"] or "ImplMeetsContract" not in res["violated"][0]:
                    raise C.MachineryError("self-test failed: TLC did not reject the pinned (unfixed) seeding\n" + res["out"][-1500:])
                mc["pinned_algorithm_counterexample_found"] = True
                continue
            if not res["ok"]:
                raise C.MachineryError(f"model-level check {tag}/{p} failed: the implementation model does not meet the contract "
                                       f"(design-level defect of the modelled algorithm) or TLC broke:\n" + res["out"][-3000:])
            run.add_tlc(res)
            e = mc.setdefault(tag, dict(states=0, generated=0, cases=0, wall=0))
            e["states"] += res["distinct"]
            e["generated"] += res["generated"]
            e["wall"] = max(e["wall"], round(res["wall"], 1))
            if kind == "gen":
                k = 0
                for line in res["out"].splitlines():
                    if line.startswith('"{'):
                        rec = json.loads(json.loads(line))
                        k += 1
                        rec["tag"] = f"{tag}p{p}c{k}"
                        cases.append(rec)
                e["cases"] += k
    run.notes["model_checking"] = mc
    return cases


# ----------------------------------------------------------------------------- TLC: validation of real results
def validate(recs):
    """TLC validates the records against the contract; returns [(sort clause, witness, src clause, witness)]"""
    if not recs:
        return [], dict(generated=0, distinct=0)
    size = 4000
    batches = [recs[i:i + size] for i in range(0, len(recs), size)]
    verdicts = [None] * len(recs)
    tot = dict(generated=0, distinct=0)

    def one(bi):
        wd = C.scratch("c14tr")
        path = os.path.join(wd, "trace.json")
        json.dump(batches[bi], open(path, "w"))
        open(os.path.join(wd, "tr.cfg"), "w").write("SPECIFICATION TraceSpec\nCHECK_DEADLOCK FALSE\n")
        res = C.run_tlc("XoSortTrace", "tr.cfg", workdir=wd, workers=1, timeout=3000, env={"TRACE_FILE": path}, jvm=JVM)
        vs = C.tlc_tuples(res["out"], "VERDICT")
        if res["rc"] != 0 or len(vs) != len(batches[bi]):
            raise C.MachineryError(f"validation batch {bi}: rc={res['rc']} verdicts={len(vs)}/{len(batches[bi])}\n" + res["out"][-3000:])
        shutil.rmtree(wd, ignore_errors=True)
        return bi, vs, res

    with ThreadPoolExecutor(max_workers=max(2, C.NCPU - 2)) as ex:
        for bi, vs, res in ex.map(one, range(len(batches))):
            for v in vs:
                verdicts[bi * size + v[1] - 1] = tuple(v[2:6])
            tot["generated"] += res["generated"]
            tot["distinct"] += res["distinct"]
    if any(v is None for v in verdicts):
        raise C.MachineryError("validation: missing verdicts")
    return verdicts, tot


# ----------------------------------------------------------------------------- the check
BUILD_SAMPLE = {"quick": 24, "thorough": 300}


def _signature(case, aux):
    kinds = aux["kinds"]
    return (tuple(sorted(kinds.values())), sum(len(d) for d in case["deps"]), case["k"])


def check(pid, argv=None):
    run = C.Run(pid, argv)
    tier = run.tier
    xo = C.use_repo()
    for ep in ("sort_classes", "topological_sort", "sources_from_classes"):
        if not hasattr(xo.context, ep):
            raise C.MachineryError(f"entry point xobjects.context.{ep} is missing")
    if not hasattr(xo.ContextCpu, "build_kernels") or not hasattr(xo.ContextCpu, "add_kernels"):
        raise C.MachineryError("entry point ContextCpu.build_kernels / add_kernels is missing")
    run.assumptions += [
        "contract (XoSort.tla PART 1): result duplicate-free, equal to the transitive dependency closure of the roots restricted to "
        "API-bearing classes, every class after everything it depends on (transitively, also through API-less classes); cyclic => error",
        "classes are identified by name (as sort_classes documents); all names of a case are unique",
        "a dependency cycle may be reported by any exception",
        "API-less classes with dependencies are realised as plain python classes carrying _depends_on (sort_classes duck-types it)",
        "only ContextCpu's assembly path is exercised (cupy / pyopencl call the same sort_classes but are not installed here)",
    ]
    import multiprocessing as mp
    t1 = time.time()
    if run.replay:
        rp = json.load(open(run.replay))["replay"]
        cases = [rp["case"]]
        seed = rp["seed"]
    else:
        cases = tlc_jobs(run, tier)
        seed = run.seed
        if tier == "thorough":
            # a second, differently seeded realisation (other node / edge kinds, other names) of every acyclic case
            cases += [dict(c, tag=c["tag"] + "b") for c in cases if c["k"] == "ok"]
    run.notes["t_tlc_model_and_export"] = round(time.time() - t1, 1)

    # ---- spec -> code: realise every case, run the real library
    t1 = time.time()
    nproc = max(2, min(C.NCPU - 2, 10))
    csize = max(1, min(400, (len(cases) + nproc - 1) // nproc))
    chunks = [[(i, cases[i]) for i in range(s, min(len(cases), s + csize))] for s in range(0, len(cases), csize)]
    jobs = [(seed, ch, run.tmp, str(n)) for n, ch in enumerate(chunks)]
    results = [None] * len(cases)
    with mp.get_context("fork").Pool(nproc) as pool:
        for out in pool.imap_unordered(_work, jobs):
            for idx, rec, aux in out:
                results[idx] = (rec, aux)
    run.notes["t_replay"] = round(time.time() - t1, 1)

    # ---- code -> spec: TLC validates every real result against the contract
    t1 = time.time()
    verdicts, tot = validate([r[0] for r in results])
    run.cov["states"] += tot["distinct"]
    run.cov["transitions"] += tot["generated"]
    run.notes["t_validate"] = round(time.time() - t1, 1)
    run.cov["traces_validated_against_impl"] = len(cases)

    stats = collections.Counter()
    for case, (rec, aux), v in zip(cases, results, verdicts):
        pl_kinds = {int(c): k for c, k in aux["kinds"].items()}
        pl = dict(kinds=pl_kinds)
        for k in pl_kinds.values():
            stats["node:" + k] += 1
        for c in range(rec["n"]):
            for t, ek in rec["deps"][c]:
                stats["edge:" + ek] += 1
        stats["real:" + rec["k"]] += 1
        stats["source:" + rec["sk"]] += 1
        if len(set(case["roots"])) < len(case["roots"]):
            stats["roots_with_repeats"] += 1
        if aux.get("superseded"):
            stats["roots_with_a_superseded_namesake"] += 1
        if any(len(set(d)) < len(d) for d in case["deps"]):
            stats["duplicate_dependency_entries"] += 1
        if "k" in case:
            same = (case["k"] == rec["k"] and list(case.get("res", [])) == list(rec["res"]))
            stats["model_match" if same else "model_drift"] += 1
            if not same and not v[0]:
                run.notes.setdefault("model_drift_example", dict(case=case, real=rec["res"], real_outcome=rec["k"]))
        rp = dict(case=case, seed=seed, realised=dict(kinds=aux["kinds"], names=aux["names"], deps=rec["deps"]),
                  real=dict(k=rec["k"], res=rec["res"], exc=aux["exc"], sk=rec["sk"], ev=rec["ev"], sexc=aux["sexc"]))
        if v[0] == "malformed-record":
            raise C.MachineryError(f"harness produced a malformed record: {rec}")
        if v[0]:
            who = node_desc(case, pl, v[1])
            run.report(f"sort_classes:{v[0]}:{who}" + (":superseded-namesake-listed-first" if aux.get("superseded") else ""),
                       f"sort_classes: {v[0]} (class {v[1]} = {who}); deps={case['deps']} api={case['api']} roots={case['roots']} "
                       f"realised={rec['deps']} kinds={aux['kinds']} -> {rec['k']} {rec['res']} {aux['exc']}", rp)
        if v[2]:
            who = node_desc(case, pl, v[3])
            run.report(f"source:{v[2]}:{who}",
                       f"assembled source: {v[2]} (class {v[3]} = {who}); deps={case['deps']} api={case['api']} roots={case['roots']} "
                       f"realised={rec['deps']} kinds={aux['kinds']} events={rec['ev']} {aux['sexc']}", rp)
        if aux["cc"]:
            stats["syntax_errors"] += 1
            run.report("compile:emitted-source-rejected-by-C-compiler",
                       f"cc -std=c99 -fsyntax-only rejects the assembled source: {aux['cc']}; deps={case['deps']} roots={case['roots']} "
                       f"kinds={aux['kinds']} names={aux['names']}", rp)
        elif rec["sk"] == "ok":
            stats["syntax_checked_ok"] += 1

    # ---- the whole user path on a stratified sample: ctx.add_kernels(kernels={}, extra_classes=roots)
    t1 = time.time()
    groups = collections.OrderedDict()
    for i, (case, (rec, aux)) in enumerate(zip(cases, results)):
        groups.setdefault(_signature(dict(case, k=rec["k"]), aux), []).append(i)
    rng = random.Random(f"{seed}:sample")
    pick = []
    for want_ok, quota in ((True, BUILD_SAMPLE[tier] - BUILD_SAMPLE[tier] // 6), (False, BUILD_SAMPLE[tier] // 6)):
        # one case per signature (kinds of the nodes, number of edges) in turn; mostly acyclic cases, they are the ones that get built
        pools = [rng.sample(g, len(g)) for sig, g in groups.items() if (sig[2] == "ok") == want_ok]
        rng.shuffle(pools)
        got = 0
        while got < quota and any(pools):
            for g in pools:
                if g and got < quota:
                    pick.append(g.pop())
                    got += 1
    bjobs = [(cases[i], results[i][1]["rseed"], run.tmp) for i in pick]
    with mp.get_context("fork").Pool(nproc) as pool:
        bres = pool.map(_work_build, bjobs)
    for i, (st, msg) in zip(pick, bres):
        case, (rec, aux) = cases[i], results[i]
        cyclic = _cyclic(case)
        stats["built:" + st + (":cyclic" if cyclic else "")] += 1
        rp = dict(case=case, seed=seed, realised=dict(kinds=aux["kinds"], names=aux["names"], deps=rec["deps"]), build=[st, msg])
        if cyclic and st == "ok":
            run.report("build:cycle-accepted-by-add_kernels", f"add_kernels built a cyclic graph: deps={case['deps']} roots={case['roots']}", rp)
        if not cyclic and st != "ok":
            run.report("build:add_kernels-fails:" + msg.split(":")[0],
                       f"ctx.add_kernels(kernels={{}}, extra_classes=roots) fails: {msg}; deps={case['deps']} api={case['api']} "
                       f"roots={case['roots']} kinds={aux['kinds']} names={aux['names']}", rp)
    run.notes["t_real_builds"] = round(time.time() - t1, 1)
    ndefs = sum(1 for rec, _ in results for e in rec["ev"] if e[0] == 0)
    if stats["source:ok"] and any(rec["sk"] == "ok" and any(rec["api"]) for rec, _ in results) and not ndefs:
        raise C.MachineryError("no class typedef was recognised in any assembled source: the generator's typedef format changed, "
                               "adapt sort._TYPEDEF")
    run.notes["typedefs_recognised"] = ndefs
    run.cov["real_builds"] = len(pick)
    run.notes["counts"] = dict(sorted(stats.items()))
    run.notes["cyclic_cases"] = sum(1 for c in cases if _cyclic(c))
    for i in (0, len(cases) // 3, 2 * len(cases) // 3, len(cases) - 1):
        case, (rec, aux) = cases[i], results[i]
        run.sample(dict(deps=case["deps"], api=case["api"], roots=case["roots"], kinds=aux["kinds"], names=aux["names"],
                        realised=rec["deps"], real=[rec["k"], rec["res"]], model=[case.get("k"), case.get("res")]))
    if not run.replay:
        # vacuity: every kind of node and edge and both outcomes must have been exercised
        need = ["node:struct", "node:hybrid", "node:array", "node:ref", "node:union", "node:scalar", "node:duck", "edge:field", "edge:item", "edge:ref",
                "edge:member", "edge:declared", "roots_with_repeats", "duplicate_dependency_entries", "roots_with_a_superseded_namesake"]
        miss = [k for k in need if not stats[k]]
        if miss or not run.notes["cyclic_cases"]:
            raise C.MachineryError(f"vacuous run: never exercised {miss} / cyclic={run.notes['cyclic_cases']}")
    run.cov["exhaustive"] = False      # exhaustive over the abstract cases within the bounds; node/edge kinds are sampled per case
    run.finish()


def _cyclic(case):
    deps = case["deps"]
    for c in _closure(deps, case["roots"]):
        if c in _closure(deps, deps[c - 1]):
            return True
    return False
