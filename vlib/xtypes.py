"""Type expressions (TX) <-> real xobjects classes, value generation, reading values back in normal form.

TX (JSON, shared with spec/XoLayout.tla):
  {"k":"sc","w":w,"np":"Int16"} | {"k":"str"} | {"k":"struct","f":[TX..]} |
  {"k":"arr","it":TX,"sh":[n|-1..],"ord":[perm]} | {"k":"ref","to":TX} | {"k":"uref","of":[TX..]}
Normal form of values (what TLC's Decode produces): scalar = list of w bytes, string = list of bytes,
struct = list of field values, array = {"sh":[..],"it":[.. C index order ..]}, reference = {"null","at","tid"}.
Input form: as normal form, but a reference is {"r":"null"} | {"r":"alias","at","tid"} | {"r":"new","tid","v"} |
{"r":"foreign","tid","src":[b,a]} and a scalar may be [] (left unspecified).
"""
import copy, itertools, json
import numpy as np
from . import common as C

KINDS = {"Int8": 1, "UInt8": 1, "Int16": 2, "UInt16": 2, "Int32": 4, "UInt32": 4, "Float32": 4,
         "Int64": 8, "UInt64": 8, "Float64": 8}
BY_WIDTH = {w: [k for k, v in KINDS.items() if v == w] for w in (1, 2, 4, 8)}
_uid = itertools.count()


def sc(kind):
    return {"k": "sc", "w": KINDS[kind], "np": kind}


STR = {"k": "str"}


def struct(*fields):
    return {"k": "struct", "f": list(fields)}


def arr(it, sh, order=None):
    return {"k": "arr", "it": it, "sh": list(sh), "ord": list(order) if order is not None else list(range(len(sh)))}


def ref(to):
    return {"k": "ref", "to": to}


def uref(*of):
    return {"k": "uref", "of": list(of)}


def key(tx):
    return json.dumps(tx, sort_keys=True)


def is_static(tx):
    k = tx["k"]
    if k in ("sc", "ref", "uref"):
        return True
    if k == "str":
        return False
    if k == "struct":
        return all(is_static(f) for f in tx["f"])
    return is_static(tx["it"]) and all(d >= 0 for d in tx["sh"])


def has_refs(tx):
    k = tx["k"]
    if k in ("ref", "uref"):
        return True
    if k == "struct":
        return any(has_refs(f) for f in tx["f"])
    if k == "arr":
        return has_refs(tx["it"])
    return False


def depth(tx):
    k = tx["k"]
    if k in ("sc", "str"):
        return 0
    if k == "struct":
        return 1 + max([depth(f) for f in tx["f"]] + [0])
    if k == "arr":
        return 1 + depth(tx["it"])
    if k == "ref":
        return 1 + depth(tx["to"])
    return 1 + max(depth(t) for t in tx["of"])


PICKLE_MODULE = "xv_generated_types"


def importable(c):
    """make a generated class importable (pickle stores classes by module + name)"""
    import sys, types
    mod = sys.modules.get(PICKLE_MODULE)
    if mod is None:
        mod = types.ModuleType(PICKLE_MODULE)
        sys.modules[PICKLE_MODULE] = mod
    c.__module__ = PICKLE_MODULE
    c.__qualname__ = c.__name__
    setattr(mod, c.__name__, c)
    return c


class Namespace:
    """builds real xobjects classes for type expressions; one class per distinct TX, uniquely named"""

    def __init__(self, prefix=None):
        self.xo = C.use_repo()
        self.prefix = prefix or f"V{next(_uid)}"
        self.cache = {}
        self.names = {}

    def fresh(self):
        """a number not used by any other class of this namespace (names are assigned AFTER the nested classes exist)"""
        self.nnames = getattr(self, "nnames", 0) + 1
        return self.nnames

    def fname(self, i):
        return f"f{i}"

    def make_default(self, tx, i):
        """a DECLARED default (xo.Field(type, default=...)) for field i of struct tx, or None: (input form, python data).
        Scalars, static arrays of scalars, and references to such arrays (the default data becomes a referent of its own)."""
        import random as _r
        rng = _r.Random(f"default:{getattr(self, 'default_seed', 0)}:" + key(tx) + f":{i}")
        f = tx["f"][i]
        if rng.random() < getattr(self, "no_default_p", 0.45):
            return None
        if f["k"] == "sc":
            return gen_scalar(f["np"], rng)
        plain = lambda a: a["k"] == "arr" and a["it"]["k"] == "sc" and all(d >= 0 for d in a["sh"]) and len(a["sh"]) == 1

        def arrval(a):
            vs = [gen_scalar(a["it"]["np"], rng) for _ in range(a["sh"][0])]
            return {"sh": list(a["sh"]), "it": [v[0] for v in vs]}, [v[1] for v in vs]
        if plain(f):
            return arrval(f)
        if f["k"] == "ref" and plain(f["to"]):
            v, py = arrval(f["to"])
            return {"r": "new", "tid": 0, "v": v}, py
        return None

    def default_of(self, tx, i):
        """input form of what the constructor supplies for an omitted field i of struct tx (None: the field cannot be omitted)"""
        self.cls(tx)
        d = getattr(self, "defaults", {}).get(key(tx), {}).get(i)
        if d is not None:
            return copy.deepcopy(d)
        f = tx["f"][i]
        if f["k"] == "sc":
            return [0] * f["w"]
        if f["k"] == "arr" and f["it"]["k"] == "sc" and all(x >= 0 for x in f["sh"]):
            return {"sh": list(f["sh"]), "it": [[0] * f["it"]["w"] for _ in range(int(np.prod(f["sh"])))]}
        if f["k"] in ("ref", "uref"):
            return {"r": "null"}
        if f["k"] == "struct" and is_static(f):
            sub = [self.default_of(f, j) for j in range(len(f["f"]))]
            return None if any(x is None for x in sub) else sub
        return None

    def cls(self, tx):
        k = key(tx)
        if k in self.cache:
            return self.cache[k]
        xo = self.xo
        kind = tx["k"]
        if kind == "sc":
            c = getattr(xo, tx["np"])
        elif kind == "str":
            c = xo.String
        elif kind == "struct":
            data, dfl = {}, {}
            for i, f in enumerate(tx["f"]):
                fc = self.cls(f)
                d = self.make_default(tx, i) if getattr(self, "with_defaults", False) else None
                if d is not None:
                    data[self.fname(i)] = xo.Field(fc, default=d[1])
                    dfl[i] = d[0]
                else:
                    data[self.fname(i)] = fc
            self.defaults = getattr(self, "defaults", {})
            self.defaults[k] = dfl
            c = type(xo.Struct)(f"{self.prefix}S{self.fresh()}", (xo.Struct,), data)
        elif kind == "arr":
            it = self.cls(tx["it"])
            spec = tuple(slice(None if d < 0 else d, o) for d, o in zip(tx["sh"], tx["ord"]))
            base = it[spec]
            # (native_arrays: the class exactly as the library creates and NAMES it - after item type and shape only, so that
            #  arrays of different axis order are namesakes)
            native = getattr(self, "native_arrays", False)
            if native == "first":       # the library's own name for the first type that claims it in this namespace, unique names for later
                taken = self.__dict__.setdefault("native_taken", set())     # namesakes (no two classes of one namespace share a name)
                native = base.__name__ not in taken
                taken.add(base.__name__)
            c = base if native else type(base)(f"{self.prefix}A{self.fresh()}", (base,), {})
        elif kind == "ref":
            c = xo.Ref[self.cls(tx["to"])]
        elif kind == "uref":
            members = [self.cls(t) for t in tx["of"]]
            c = type(xo.UnionRef)(f"{self.prefix}U{self.fresh()}", (xo.UnionRef,), {"_reftypes": members})
        else:
            raise C.MachineryError(f"bad TX {tx}")
        if kind in ("struct", "arr", "uref"):
            importable(c)
        self.cache[k] = c
        return c


# ----------------------------------------------------------------------------- values
INT_RANGE = {"Int8": (-2**7, 2**7 - 1), "UInt8": (0, 2**8 - 1), "Int16": (-2**15, 2**15 - 1), "UInt16": (0, 2**16 - 1),
             "Int32": (-2**31, 2**31 - 1), "UInt32": (0, 2**32 - 1), "Int64": (-2**63, 2**63 - 1), "UInt64": (0, 2**64 - 1)}
STRINGS = ["", "a", "ab", "xyz", "héé", "日本", "1234567", "12345678", "éééé", "abcdefghijklmnop", "q" * 15, "\U0001F600x",
           "éèêëà", "日本語日本語日", "ß" * 9, "\U0001F600" * 3]


class Dims(tuple):
    """constructor arguments that are the dynamic dimensions of an array (passed as separate positional arguments)"""


class StrVal(list):
    """string value (its bytes) that also remembers, for generation only, the capacity of the box it lives in:
    cap = bytes available for text + NUL as fixed at creation, None = unknown (e.g. after a copy of a box with slack)"""
    cap = None


def natural_cap(nbytes):
    """capacity of the box the library creates for a text of nbytes bytes"""
    return (nbytes + 1 + 7) // 8 * 8


def strval(data, cap):
    v = StrVal(data)
    v.cap = cap
    return v


def has_slack(tx, v):
    """does the value contain a string whose box is not exactly as large as a fresh box for its text would be (or unknown)?"""
    k = tx["k"]
    if k == "str":
        return getattr(v, "cap", None) is None or v.cap != natural_cap(len(v))
    if k == "struct":
        return any(has_slack(f, w) for f, w in zip(tx["f"], v))
    if k == "arr":
        return any(has_slack(tx["it"], w) for w in v["it"])
    return False


def gen_scalar(kind, rng):
    """-> (bytes list, python value)"""
    if kind.startswith("Float"):
        dt = np.dtype(kind.lower())
        x = rng.random()
        if x < 0.35:
            v = dt.type(rng.choice([0.0, -0.0, 1.0, -1.5, float("inf"), float("-inf"), float("nan"),
                                    np.finfo(dt).max, np.finfo(dt).tiny, np.finfo(dt).smallest_subnormal]))
        else:
            v = dt.type((rng.random() - 0.5) * 10 ** rng.randint(-3, 6))
        return list(v.tobytes()), (float(v) if rng.random() < 0.7 else v)
    lo, hi = INT_RANGE[kind]
    x = rng.random()
    if x < 0.3:
        v = rng.choice([lo, hi, 0, 1, hi - 1, lo + 1 if lo < 0 else 2])
    elif x < 0.6:
        v = rng.randint(max(lo, -100), min(hi, 100))
    else:
        v = rng.randint(lo, hi)
    dt = np.dtype(kind.lower())
    return list(dt.type(v).tobytes()), (v if rng.random() < 0.7 else dt.type(v))


def nested(items, shape):
    """C-order flat list -> nested lists of the given shape"""
    if len(shape) == 1:
        return list(items)
    step = int(np.prod(shape[1:]))
    return [nested(items[i * step:(i + 1) * step], shape[1:]) for i in range(shape[0])]


class Gen:
    """generates (input-form value, python constructor data) for a TX.
    refchoice(tx_ref, b) -> ("null",) | ("alias", at, tid, handle) | ("new", tid) | ("foreign", tid, (b2, a2), handle)"""

    def __init__(self, ns, rng, refchoice=None, maxdim=3, np_forms=True, allow_uninit=False, mindim=0, capacity_p=0.15, lookup=None, dims_p=0.1, xobj=None, xobj_p=0.12):
        self.mindim = mindim
        self.ns, self.rng, self.refchoice, self.maxdim, self.np_forms = ns, rng, refchoice, maxdim, np_forms
        self.shorter_strings = True
        self.capacity_p = capacity_p
        self.lookup = lookup
        self.dims_p = dims_p
        self.xobj = xobj
        self.xobj_p = xobj_p

    def shape(self, tx, inarr=False):
        sh = [d if d >= 0 else max(self.mindim, self.rng.choice([0, 1, 1, 2, 2, 3][: self.maxdim + 3])) for d in tx["sh"]]
        if getattr(self, "force_ext", None) is not None and not inarr:
            sh = [d if d >= 0 else self.force_ext for d in tx["sh"]]
        if inarr and len(sh) > 1:      # inside a list only nested lists are a promised form, and they lose the rank when a leading extent is 0
            sh = [max(d, 1) if (i < len(sh) - 1 and tx["sh"][i] < 0) else d for i, d in enumerate(sh)]
        return sh

    def value(self, tx, b=None, like=None, _top=True, _inarr=False, _noxobj=False, _keep=None):
        """like: an existing input-form value whose every dynamic size must be kept (fitting assignment)
        _keep: None at the top; True while the path from the assigned element down to here consists of structs only (a dict
        assigned to an existing struct sets the fields it NAMES, recursively; the others keep their values)"""
        rng, k = self.rng, tx["k"]
        if _keep is None:
            _keep = bool(_top and like is not None and k == "struct" and getattr(self, "keep", None) is not None)
        if k == "sc":
            return gen_scalar(tx["np"], rng)
        if k == "str":
            if like is not None:
                nat = natural_cap(len(like))
                cap = getattr(like, "cap", nat)
                fits = lambda t, c: len(t.encode()) + 1 <= c
                if cap is None:                     # capacity unknown: anything not larger than the current text certainly fits
                    cands, ncap = [t for t in STRINGS if len(t.encode()) <= len(like)], None
                elif _top and self.shorter_strings and rng.random() < 0.3:      # leaf assignment: any text that fits the box
                    cands, ncap = [t for t in STRINGS if fits(t, cap)], cap
                elif _top:                          # leaf assignment filling the box as far as possible
                    cands, ncap = [t for t in STRINGS if fits(t, cap) and natural_cap(len(t.encode())) >= min(cap, nat)], cap
                else:                               # inside a compound value: same natural box, every stored size stays what it is
                    cands, ncap = [t for t in STRINGS if natural_cap(len(t.encode())) == cap], cap
                s = rng.choice(cands) if cands else bytes(like).decode()
                if not cands:
                    ncap = cap
                if _top and not _noxobj and rng.random() < getattr(self, "strobj_p", 0.15):
                    # the text carried by a String OBJECT (a box of its own, usually smaller than the one assigned to): the element
                    # keeps its box, only the text changes
                    try:
                        return strval(s.encode("utf8"), ncap), self.ns.xo.String(s)
                    except Exception:       # noqa
                        pass
                return strval(s.encode("utf8"), ncap), s
            if rng.random() < self.capacity_p:      # created from a capacity: reads back as the empty string
                n = rng.choice([1, 3, 5, 8, 10, 13, 16, 24])
                return strval(b"", n), n
            s = rng.choice(STRINGS)
            if not _top and not _noxobj and rng.random() < getattr(self, "strobj_p", 0.15) * 0.5:
                try:            # a String object (naturally sized box) as the value of a string part at construction
                    return strval(s.encode("utf8"), natural_cap(len(s.encode()))), self.ns.xo.String(s)
                except Exception:       # noqa
                    pass
            return strval(s.encode("utf8"), natural_cap(len(s.encode()))), s
        if k in ("struct", "arr") and not _top and not _noxobj and like is None and self.xobj is not None and rng.random() < self.xobj_p:
            got = self.xobj(tx, b)           # "another xobject" as the value of a nested part: the part becomes a copy of it
            if got is not None:
                return got
        if k == "struct":
            if like is not None and getattr(self, "permute_fields", False) and not has_refs(tx) and rng.random() < 0.6:
                # same total size, the dynamic fields distributed differently (only an object of the type can carry such a
                # value into an existing object: field-by-field assignment of plain data refuses the parts that differ)
                like = list(like)
                groups = {}
                for i, f in enumerate(tx["f"]):
                    if not is_static(f):
                        groups.setdefault(key(f), []).append(i)
                for idxs in groups.values():
                    if len(idxs) > 1:
                        vals = [like[i] for i in idxs]
                        rng.shuffle(vals)
                        for i, w in zip(idxs, vals):
                            like[i] = w
            vs = [self.value(f, b, None if like is None else like[i], False, _inarr, False, _keep and f["k"] == "struct") for i, f in enumerate(tx["f"])]
            omit = set()
            if _keep and like is not None and rng.random() < 0.35:
                # a PARTIAL dictionary: the fields it does not name keep their current values
                for i, f in enumerate(tx["f"]):
                    if rng.random() < 0.4:
                        kept = self.keep(f, like[i])
                        if kept is not None:
                            vs[i] = (kept, None)
                            omit.add(i)
            if like is None and getattr(self, "omit_p", 0.08):
                # fields left out of the dictionary: the constructor supplies the natural default (zero, zeros, no referent)
                for i, f in enumerate(tx["f"]):
                    if rng.random() < getattr(self, "omit_p", 0.08) * (3 if getattr(self.ns, "with_defaults", False) else 1):
                        dv = self.ns.default_of(tx, i)       # the declared default of the field, else the natural one (zero, zeros, no referent)
                        if dv is None:
                            continue
                        vs[i] = (dv, None)
                        omit.add(i)
            return [v[0] for v in vs], {self.ns.fname(i): v[1] for i, v in enumerate(vs) if i not in omit}
        if k == "arr":
            sh = list(like["sh"]) if like is not None else self.shape(tx, _inarr)
            n = int(np.prod(sh))
            tmpl = None if like is None else list(like["it"])
            if tmpl is not None and n > 1 and not is_static(tx["it"]) and rng.random() < 0.6:
                rng.shuffle(tmpl)       # same total size, item sizes redistributed: still a value of fitting size for the whole array
            vs = [self.value(tx["it"], b, None if tmpl is None else tmpl[i], False, True) for i in range(n)]
            inp = {"sh": sh, "it": [v[0] for v in vs]}
            it = tx["it"]
            if (it["k"] == "sc" and like is None and not _inarr and not _noxobj and self.dims_p and rng.random() < self.dims_p
                    and any(d < 0 for d in tx["sh"])):
                # built from its dimensions: the items are left unspecified (whatever the memory holds)
                dims = tuple(int(d) for d, decl in zip(sh, tx["sh"]) if decl < 0)
                return {"sh": sh, "it": [[] for _ in range(n)]}, (Dims(dims) if len(dims) > 1 else dims[0])
            if (it["k"] == "struct" and is_static(it) and like is None and not _inarr and not _noxobj and self.dims_p and rng.random() < self.dims_p * 1.5
                    and any(d < 0 for d in tx["sh"]) and n <= 6):
                # built from its dimensions: every item is the DEFAULT item (each with referents of its own)
                items = [[self.ns.default_of(it, j) for j in range(len(it["f"]))] for _ in range(n)]
                if all(x is not None for row in items for x in row):
                    dims = tuple(int(d) for d, decl in zip(sh, tx["sh"]) if decl < 0)
                    return {"sh": sh, "it": items}, (Dims(dims) if len(dims) > 1 else dims[0])
            if (it["k"] == "arr" and it["it"]["k"] == "sc" and is_static(it) and like is None and not _inarr and not _noxobj and self.dims_p
                    and rng.random() < self.dims_p * 1.5 and any(d < 0 for d in tx["sh"]) and n <= 6):
                # built from its dimensions, items that are static arrays of scalars: every item all zeros
                ni = int(np.prod(it["sh"]))
                items = [{"sh": list(it["sh"]), "it": [[0] * it["it"]["w"] for _ in range(ni)]} for _ in range(n)]
                dims = tuple(int(d) for d, decl in zip(sh, tx["sh"]) if decl < 0)
                return {"sh": sh, "it": items}, (Dims(dims) if len(dims) > 1 else dims[0])
            if (it["k"] == "sc" and len(sh) > 1 and n > 0 and like is None and not _inarr and not _noxobj and self.np_forms
                    and rng.random() < getattr(self, "namesake_p", 0.15)):
                # "another xobject" of a NAMESAKE class: the library names array classes after item type and shape only, so an array of
                # the same item type and shape with ANOTHER axis order carries the same class name; as a source it holds the same items
                # (by index) in another memory order
                others = [list(p) for p in itertools.permutations(range(len(sh))) if list(p) != list(tx["ord"])]
                o2 = rng.choice(others)
                try:
                    ncls = self.ns.cls(it)[tuple(slice(None if d < 0 else d, o) for d, o in zip(tx["sh"], o2))]
                    a = np.array([np.frombuffer(bytes(v[0]), dtype=it["np"].lower())[0] for v in vs], dtype=it["np"].lower()).reshape(sh)
                    return inp, ncls(a)
                except Exception:       # noqa (the source could not be built: fall through to the other forms)
                    pass
            if it["k"] == "sc" and self.np_forms and not _inarr and rng.random() < 0.5:     # (a list of ndarrays is not a promised input form)
                a = np.array([np.frombuffer(bytes(v[0]), dtype=it["np"].lower())[0] for v in vs], dtype=it["np"].lower()).reshape(sh)
                form = rng.choice(["C", "F", "strided"]) if len(sh) > 1 or n > 1 else "C"
                if rng.random() < 0.1 and n > 0:       # the same numbers in the non-native byte order
                    a = a.astype(a.dtype.newbyteorder())
                if rng.random() < 0.25 and n > 0:      # any convertible dtype: a wider type that holds the same numbers exactly
                    for other in rng.sample(["int64", "float64", "int32", "uint64"], 4):
                        try:
                            with np.errstate(all="ignore"):
                                b2 = a.astype(other)
                                if b2.dtype != a.dtype and np.array_equal(b2.astype(a.dtype), a) and a.astype(other).astype(a.dtype).tobytes() == a.tobytes():
                                    a = b2
                                    break
                        except Exception:       # noqa
                            pass
                if form == "F":
                    a = np.asfortranarray(a)
                elif form == "strided":
                    big = np.zeros([2 * d for d in sh], dtype=a.dtype)
                    big[tuple(slice(None, None, 2) for _ in sh)] = a
                    a = big[tuple(slice(None, None, 2) for _ in sh)]
                return inp, a
            if len(sh) > 1 and ((n == 0 and 0 in sh[:-1]) or (not is_static(it) and rng.random() < 0.4)) and not _inarr:
                o = np.empty(sh, dtype=object)          # nested lists cannot express these (rank not inferable / not accepted)
                for i, idx in enumerate(np.ndindex(*sh)):
                    o[idx] = vs[i][1]
                return inp, o
            return inp, nested([v[1] for v in vs], sh)
        # references
        ch = self.refchoice(tx, b) if self.refchoice else ("null",)
        if ch[0] == "null":
            return {"r": "null"}, None
        if ch[0] == "alias":
            return {"r": "alias", "at": ch[1], "tid": ch[2]}, ch[3]
        if ch[0] == "foreign":
            return {"r": "foreign", "tid": ch[1], "src": list(ch[2])}, ch[3]
        tid = ch[1]
        tt = tx["to"] if k == "ref" else tx["of"][tid]
        tlike = None
        if like is not None and not like["null"] and like["tid"] == tid and self.lookup is not None and rng.random() < 0.6:
            got = self.lookup(like["at"])               # plain data of exactly the size of the object currently referred to
            if got is not None and key(got[0]) == key(tt) and not has_slack(tt, got[1]):
                tlike = got[1]
        v, py = self.value(tt, b, tlike, False, _inarr, True)       # plain data: an xobject here would be bind-to-existing / bind-to-foreign
        if k == "uref":
            py = (self.ns.cls(tt).__name__, py)
        return {"r": "new", "tid": tid, "v": v}, py


# ----------------------------------------------------------------------------- reading back through the library
def read_value(ns, tx, x):
    """value returned by a library accessor -> normal form (shallow at references)"""
    k = tx["k"]
    if k == "sc":
        dt = np.dtype(tx["np"].lower())
        if not isinstance(x, np.generic) or x.dtype != dt:
            x = np.array(x).astype(dt)     # accessor returned something else: normalise through the declared dtype
        return list(x.tobytes())
    if k == "str":
        if not isinstance(x, str):
            raise TypeError(f"string accessor returned {type(x).__name__}")
        return list(x.encode("utf8"))
    if k == "struct":
        return [read_value(ns, f, getattr(x, ns.fname(i))) for i, f in enumerate(tx["f"])]
    if k == "arr":
        if isinstance(x, np.ndarray):          # hybrid attributes expose numeric arrays as ndarrays
            dt = np.dtype(tx["it"]["np"].lower())
            if x.dtype != dt:
                raise TypeError("ndarray attribute of another dtype")
            return {"sh": [int(d) for d in x.shape], "it": [list(x[idx].tobytes()) for idx in np.ndindex(*x.shape)]}
        sh = [int(d) for d in x._shape]
        if any(d < 0 for d in sh) or int(np.prod(sh, dtype=object)) > getattr(ns, "max_items", 4096):
            raise OverflowError(f"implausible shape {sh[:4]}")      # read from corrupted bytes: reported as a raising accessor
        return {"sh": sh, "it": [read_value(ns, tx["it"], x[idx]) for idx in np.ndindex(*sh)]}
    if x is None:
        return {"null": True, "at": -1, "tid": -1}
    if k == "ref":
        return {"null": False, "at": int(x._offset), "tid": 0}
    names = [ns.cls(t).__name__ for t in tx["of"]]
    return {"null": False, "at": int(x._offset), "tid": names.index(type(x).__name__)}


def meta_of(tx, x):
    """size and strides as the handle REPORTS them (cached attributes first)"""
    size, strides = -1, []
    if tx["k"] in ("struct", "arr"):
        s = getattr(x, "_size", None)
        size = int(s if s is not None else x._get_size())
    if tx["k"] == "arr":
        strides = [int(v) for v in x._strides]
    return size, strides
