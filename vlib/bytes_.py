"""Engine for C13: the CPU byte store (BufferNumpy / BufferByteArray copy primitives).

model level : TLC checks XoBytes.tla (two buffers, copies, views, one action per primitive) exhaustively within small
              capacities: TypeOK, Independent, Aliases, action properties Frame and CapStable.
spec -> code: every transition TLC generates (XoBytesGen.tla, exhaustive for short sequences, `-simulate` for 3-step
              sequences) is replayed on REAL buffers - both kinds in both roles, one shared ContextCpu and two different
              ones - and after every step the projection (raw storage of both buffers, `to_bytearray(0, capacity)`, every
              held copy, every held view of the current generation) is compared with the model post-state.  Each abstract
              action is realised in every concrete form the documentation names (bytes / bytearray / memoryview /
              ndarray.data of every dtype, 1-D and 2-D; every NumPy numeric kind of a width; C / F / strided sources;
              scalar and array helpers of xobjects/scalar.py).
code -> spec: seeded random walks on larger buffers (up to 4 KiB) are logged (primitive, small-int arguments, raw byte
              diffs) and TLC validates them against the contract actions (XoBytesTrace.tla); the verdict names the clause.
Aux (not in TLA+): the numeric result of a dtype conversion is NumPy's `astype`; the model fixes only how many bytes land
              where, the landed bytes are compared with `np.asarray(src).astype(dest).tobytes()`.
"""
import collections, json, os, random, shutil, sys, time, zlib
from concurrent.futures import ThreadPoolExecutor
from . import common as C

PROPERTIES = ["C13"]

KINDS = {"np": "BufferNumpy", "ba": "BufferByteArray"}
# (kind of A, kind of B, same context).  A context creates buffers of ONE kind (ContextCpu.new_buffer -> BufferNumpy;
# a BufferByteArray brings its own context), so two buffers of different kinds sharing a context are not a supported
# configuration: update_from_xbuffer then hands the source's native storage to the other kind.  Not explored.
CONFIGS = [(ka, kb, same) for ka in ("np", "ba") for kb in ("np", "ba") for same in (True, False) if not (same and ka != kb)]
NP_KINDS = {1: ["int8", "uint8"], 2: ["int16", "uint16"], 4: ["int32", "uint32", "float32"], 8: ["int64", "uint64", "float64"]}
ALL_KINDS = [k for w in (1, 2, 4, 8) for k in NP_KINDS[w]]
XO_SCALAR = {"int8": "Int8", "uint8": "UInt8", "int16": "Int16", "uint16": "UInt16", "int32": "Int32", "uint32": "UInt32",
             "float32": "Float32", "int64": "Int64", "uint64": "UInt64", "float64": "Float64"}
PRIM = {"ufb": "update_from_buffer", "ufn": "update_from_native", "ctn": "copy_to_native", "ctf": "copy_to_native(fresh)",
        "ton": "to_native", "tob": "to_bytearray", "tpa": "to_pointer_arg", "tnp": "to_nplike", "unp": "update_from_nplike",
        "ufx": "update_from_xbuffer", "wv": "write-through-view", "wc": "write-into-copy", "grow": "grow"}
ENTRY_POINTS = ["update_from_native", "to_native", "copy_to_native", "update_from_buffer", "to_nplike", "to_nparray",
                "update_from_nplike", "to_bytearray", "to_pointer_arg", "update_from_xbuffer", "grow", "_new_buffer"]

_L = {}
_OBS = collections.Counter()      # open choices of the contract as observed on the real code


def lib():
    if not _L:
        xo = C.use_repo()
        import numpy as np
        from xobjects import context_cpu as cc
        for cls in (cc.BufferNumpy, cc.BufferByteArray):
            for m in ENTRY_POINTS:
                if not callable(getattr(cls, m, None)):
                    raise C.MachineryError(f"entry point {cls.__name__}.{m} is missing: the check cannot drive the library")
        for k in XO_SCALAR.values():
            for m in ("_to_buffer", "_from_buffer", "_array_to_buffer", "_array_from_buffer"):
                if not callable(getattr(getattr(xo, k, None), m, None)):
                    raise C.MachineryError(f"entry point xobjects.{k}.{m} is missing")
        _L.update(xo=xo, np=np, cls={"np": cc.BufferNumpy, "ba": cc.BufferByteArray}, ctx=[xo.ContextCpu(), xo.ContextCpu()])
        if _L["ctx"][0] == _L["ctx"][1]:
            raise C.MachineryError("two ContextCpu instances compare equal: the 'different context' configuration cannot be built")
    return _L


# ----------------------------------------------------------------------------- raw access (never through a primitive under test)
def raw(obj):
    np = _L["np"]
    if isinstance(obj, (np.ndarray, np.generic)):
        return obj.tobytes()
    return bytes(obj)


def raw_set(storage, data):
    np = _L["np"]
    if isinstance(storage, np.ndarray):
        storage.reshape(-1).view(np.uint8)[:] = np.frombuffer(bytes(data), dtype=np.uint8)
    else:
        storage[:] = bytes(data)


def raw_flip(storage, pos):
    np = _L["np"]
    if isinstance(storage, np.ndarray):
        storage.view(np.uint8)[pos] ^= 0xFF
    else:
        storage[pos] ^= 0xFF


def fresh(step, n):
    return [48 + 16 * step + i for i in range(n)]


def fill(n):
    return [112 + i for i in range(n)]


def divisors(n):
    return [r for r in range(1, n + 1) if n % r == 0]


# ----------------------------------------------------------------------------- concrete realisations of the abstract actions
def variants(c):
    """every concrete form of command c; first element = class name used in failure keys"""
    op, n = c["op"], c["n"]
    if op == "ufb":
        v = [("bytes",), ("bytearray",), ("memoryview",), ("ndarray.data-1byte", "uint8"), ("ndarray.data-1byte", "int8")]
        v += [("ndarray.data-multibyte", k) for w in (2, 4, 8) if n > 0 and n % w == 0 for k in NP_KINDS[w]]
        # other bytes-like objects of python whose items are wider than one byte (buffer protocol, no .nbytes attribute)
        v += [("array.array", tc) for w, tc in ((2, "H"), (4, "i"), (8, "d")) if n > 0 and n % w == 0]
        v += [("ctypes-array", w) for w in (2, 8) if n > 0 and n % w == 0]
        if n >= 2:
            v += [("ndarray.data-2D", r) for r in divisors(n) if r < n][:3]
        v += [("Scalar._to_buffer", k) for k in NP_KINDS.get(n, [])]
        v += [("Scalar._array_to_buffer", k) for w in (1, 2, 4, 8) if n % w == 0 for k in NP_KINDS[w]]
        return v
    if op == "tob":
        return [("to_bytearray",)] + [("Scalar._from_buffer", k) for k in NP_KINDS.get(n, [])]
    if op == "tnp":
        w, cnt = c["w"], c["cnt"]
        shapes = [("1d", cnt), ("list", cnt)] + [("2d", r) for r in (divisors(cnt) if cnt > 0 else [0, 2])]
        v = [(m, k, sh) for m in ("to_nplike", "to_nparray") for k in NP_KINDS[w] for sh in shapes]
        v += [("Scalar._array_from_buffer", k, ("1d", cnt)) for k in NP_KINDS[w]]
        return v
    if op == "unp":
        wd, cnt = c["w"], c["cnt"]
        lays = ["C1", "C2", "F", "S", "R", "B"]        # B: source in the non-native byte order of its kind (same values)
        v = [("ndarray", dk, sk, lay) for dk in NP_KINDS[wd] for sk in ALL_KINDS for lay in lays]
        v += [("list", dk, "int64", "L") for dk in NP_KINDS[wd]]
        return v
    return [(PRIM[op],)]


def vclass(c, var):
    op = c["op"]
    if op == "unp":
        conv = "same-dtype" if var[1] == var[2] else "converting"
        return f"{var[0]}:{ {'C1': 'C', 'C2': 'C-2D', 'F': 'F-2D', 'S': 'strided', 'R': 'reversed', 'L': 'list', 'B': 'byteswapped'}[var[3]] }:{conv}"
    if op == "tnp":
        return f"{var[0]}:{var[2][0]}"
    return var[0]


class Skip(Exception):
    """the behaviour asks for something the contract does not cover in this configuration (not a verdict)"""


class World:
    big = False
    """two real buffers + the handles the model says are held"""

    def __init__(self, cfg, initA, initB):
        L = lib()
        ka, kb, same = cfg
        self.cfg = cfg
        self.kind = {"A": ka, "B": kb}
        self.bufs = {"A": L["cls"][ka](capacity=len(initA), context=L["ctx"][0]),
                     "B": L["cls"][kb](capacity=len(initB), context=L["ctx"][0 if same else 1])}
        raw_set(self.bufs["A"].buffer, initA)
        raw_set(self.bufs["B"].buffer, initB)
        self.store = {1: ("buf", "A"), 2: ("buf", "B")}      # model store id -> real object
        self.nst = 2
        self.cur = {"A": 1, "B": 2}
        self.copies = []          # [obj, sid, native kind or None, origin]
        self.views = []           # [obj, b, sid, off, n, origin]
        self.tokmap = {}
        self.step = 0
        self.keep = []            # old storages stay alive (stale views point into them)

    # -- helpers
    def storage(self, sid):
        s = self.store[sid]
        return self.bufs[s[1]].buffer if s[0] == "buf" else self.copies[s[1]][0]

    def native_kind(self, sid):
        s = self.store[sid]
        return self.kind[s[1]] if s[0] == "buf" else self.copies[s[1]][2]

    def new_copy(self, obj, nkind, origin=""):
        self.nst += 1
        self.copies.append([obj, self.nst, nkind, origin])
        self.store[self.nst] = ("copy", len(self.copies) - 1)

    def typed(self, data, kind):
        np = _L["np"]
        return np.frombuffer(bytes(data), dtype=kind).copy()

    def nplike_source(self, data, var, wd, cnt):
        """-> (source object, source width, layout tag, bytes that must land)"""
        np = _L["np"]
        _, dk, sk, lay = var
        if lay == "L":
            vals = [int(data[i * wd]) for i in range(cnt)]
            src = vals
            arr = np.array(vals)
        else:
            if dk == sk:
                arr = self.typed(data, sk)
            else:
                arr = np.array([int(data[i * wd]) for i in range(cnt)]).astype(sk)      # small positive values, exact in every kind
            if lay == "C1":
                src = arr
            elif lay in ("C2", "F"):
                ds = [r for r in divisors(cnt) if 1 < r < cnt] if cnt > 0 else []
                r = ds[len(ds) // 2] if ds else 1
                a2 = arr.reshape(r, cnt // r if r else 0) if cnt > 0 else arr.reshape(0, 2)
                src = np.asfortranarray(a2) if lay == "F" else a2
            elif lay == "S":
                base = np.zeros(2 * cnt, dtype=sk)
                base[::2] = arr
                src = base[::2]
            elif lay == "B":
                src = arr.astype(arr.dtype.newbyteorder())
            else:
                base = arr[::-1].copy()
                src = base[::-1]
        want = np.asarray(src).astype(dk).tobytes()       # Aux: NumPy's own conversion, elements in index (C) order
        ws = np.asarray(src).dtype.itemsize
        return src, ws, {"C1": "C", "C2": "C", "F": "F", "S": "S", "R": "S", "L": "C", "B": "C"}[lay], want

    # -- one primitive
    def do(self, c, var, data):
        """executes command c in concrete form var; data = the byte values the environment supplies (list of ints).
        returns dict(exc, data (bytes that the contract says land / fill / []), ws, lay, kind, new, vnew)"""
        L = _L
        np, xo = L["np"], L["xo"]
        op, b, off, n = c["op"], c["b"], c["off"], c["n"]
        buf = self.bufs.get(b)
        out = dict(exc="", msg="", data=[], ws=0, lay="", kind=c.get("kind", ""), new=None, vnew=None)
        call = None
        if op == "ufb":
            out["data"] = list(data)
            bd = bytes(data)
            t = var[0]
            if t == "bytes":
                src = bd
            elif t == "bytearray":
                src = bytearray(bd)
            elif t == "memoryview":
                src = memoryview(bd)
            elif t in ("ndarray.data-1byte", "ndarray.data-multibyte"):
                self._hold = self.typed(data, var[1])
                src = self._hold.data
            elif t == "ndarray.data-2D":
                self._hold = self.typed(data, "uint8").reshape(var[1], n // var[1])
                src = self._hold.data
            elif t == "array.array":
                import array as _array
                src = _array.array(var[1])
                src.frombytes(bd)
                if src.itemsize * len(src) != len(bd):
                    raise Skip("array-itemsize")
            elif t == "ctypes-array":
                import ctypes
                ct = {2: ctypes.c_uint16, 8: ctypes.c_int64}[var[1]]
                src = (ct * (len(bd) // var[1])).from_buffer_copy(bd)
            if t == "Scalar._to_buffer":
                sc, val = getattr(xo, XO_SCALAR[var[1]]), self.typed(data, var[1])[0]
                call = lambda: sc._to_buffer(buf, off, val)
            elif t == "Scalar._array_to_buffer":
                sc, val = getattr(xo, XO_SCALAR[var[1]]), self.typed(data, var[1])
                call = lambda: sc._array_to_buffer(buf, off, val)
            else:
                call = lambda: buf.update_from_buffer(off, src)
        elif op == "unp":
            src, ws, lay, want = self.nplike_source(data, var, c["w"], c["cnt"])
            out.update(data=list(want), ws=ws, lay=lay)
            dt = np.dtype(var[1])
            call = lambda: buf.update_from_nplike(off, dt, src)
        elif op == "ufn":
            if self.native_kind(c["st"]) != self.kind[b]:
                raise Skip("foreign-native")
            src = self.storage(c["st"])
            call = lambda: buf.update_from_native(off, src, c["soff"], n)
        elif op == "ctn":
            if self.native_kind(c["st"]) != self.kind[b]:
                raise Skip("foreign-native")
            dest = self.storage(c["st"])
            call = lambda: buf.copy_to_native(dest, off, c["soff"], n)
        elif op == "ctf":
            dest = buf._new_buffer(c["len"])
            if len(raw(dest)) != c["len"]:
                raise C.MachineryError("_new_buffer(n) did not return n bytes of storage")
            out["data"] = list(data)
            raw_set(dest, data)
            call = lambda: buf.copy_to_native(dest, off, c["soff"], n)
        elif op == "ton":
            call = lambda: buf.to_native(off, n)
        elif op == "tob":
            if var[0] == "to_bytearray":
                call = lambda: buf.to_bytearray(off, n)
            else:
                sc = getattr(xo, XO_SCALAR[var[1]])
                call = lambda: sc._from_buffer(buf, off)
        elif op == "tpa":
            call = lambda: buf.to_pointer_arg(off, n)
        elif op == "tnp":
            dt = np.dtype(var[1])
            cnt = c["cnt"]
            sh = var[2]
            shape = (cnt,) if sh[0] == "1d" else [cnt] if sh[0] == "list" else ((sh[1], cnt // sh[1]) if cnt > 0 else ((0, 3) if sh[1] == 0 else (2, 0)))
            if var[0] == "Scalar._array_from_buffer":
                sc = getattr(xo, XO_SCALAR[var[1]])
                call = lambda: sc._array_from_buffer(buf, off, cnt)
            else:
                meth = getattr(buf, var[0])
                call = lambda: meth(off, dt, shape)
        elif op == "ufx":
            src = self.bufs[c["src"]]
            call = lambda: buf.update_from_xbuffer(off, src, c["soff"], n)
        elif op == "wv":
            v = self.views[c["st"] - 1][0]
            out["data"] = list(data)
            if isinstance(v, np.ndarray):
                item = np.frombuffer(bytes(data), dtype=v.dtype)[0]
                flat = v.reshape(-1)
                if not np.shares_memory(flat, v) and v.size:
                    raise C.MachineryError("harness: flattened view does not share memory with the view")
                k = c["k"]

                def call():
                    flat[k] = item
            else:
                def call():
                    v[c["k"]] = data[0]
        elif op == "wc":
            obj = self.copies[c["st"] - 1][0]
            out["data"] = list(data)
            if isinstance(obj, np.ndarray):
                def call():
                    obj.reshape(-1).view(np.uint8)[off] = data[0]
            elif isinstance(obj, bytearray):
                def call():
                    obj[off] = data[0]
            else:
                raise Skip("immutable-copy")
        elif op == "grow":
            old = buf.buffer
            call = lambda: buf.grow(n)
        else:
            raise C.MachineryError("unknown op " + op)
        try:
            ret = call()
        except Exception as ex:          # noqa: the contract covers the request, so raising is a verdict for TLC / the comparison
            out["exc"], out["msg"] = type(ex).__name__, str(ex)[:160]
            return out
        self.step += 1
        origin = f"{PRIM[op]}:{vclass(c, var)}:{KINDS.get(self.kind.get(b, ''), '-')}"
        if op in ("ton", "ctf"):
            obj = dest if op == "ctf" else ret
            self.new_copy(obj, self.kind[b], origin)
            out["new"] = obj
        elif op == "tob":
            self.new_copy(ret, None, origin)
            out["new"] = ret
        elif op == "tpa":
            k = c.get("kind") or "copy"
            if n > 0:                    # bind the open choice (copy or view) from the observation
                st = buf.buffer
                before = raw(ret)
                raw_flip(st, off)
                k = "view" if raw(ret) != before else "copy"
                raw_flip(st, off)
            out["kind"] = k
            if n > 0:
                _OBS[f"to_pointer_arg returns a {k} on {KINDS[self.kind[b]]}"] += 1
            if k == "view":
                self.views.append([ret, b, self.cur[b], off, n, origin])
                out["vnew"] = ret
            else:
                self.new_copy(ret, None, origin)
                out["new"] = ret
        elif op == "tnp":
            self.views.append([ret, b, self.cur[b], off, n, origin])
            out["vnew"] = ret
            if not hasattr(self, "view_cmds"):
                self.view_cmds = []
            self.view_cmds.append((dict(c), var))
        elif op == "grow":
            self.keep.append(old)
            self.nst += 1
            self.store[self.nst] = ("buf", b)
            del self.store[self.cur[b]]
            self.cur[b] = self.nst
            out["new"] = buf.buffer
        return out

    def observe(self):
        """raw bytes of every observable storage and of every held view of the current generation"""
        st = {sid: raw(self.storage(sid)) for sid in self.store}
        vw = [raw(v[0]) if v[2] == self.cur[v[1]] else None for v in self.views]
        return st, vw


# ----------------------------------------------------------------------------- spec -> code: replay of TLC behaviours
def _diffpos(a, b_):
    return [i for i in range(min(len(a), len(b_))) if a[i] != b_[i]]


def compare(w, post, newcopy, newview):
    """real projection vs model post-state -> clause or ''"""
    mem = post["mem"]

    def exp(sid):
        return bytes(w.tokmap.get(t, t) for t in mem[sid - 1])
    last = post["last"]
    for b, sid in (("A", post["bufA"]), ("B", post["bufB"])):
        if w.cur[b] != sid:
            raise C.MachineryError(f"harness store numbering drifted from the model: buffer {b} is store {w.cur[b]}, model says {sid}")
        buf = w.bufs[b]
        real, want = raw(buf.buffer), exp(sid)
        if len(real) != len(want):
            return f"length-changed", f"storage of buffer {b} has {len(real)} bytes, capacity {len(want)}"
        if buf.capacity != len(want):
            return "capacity-field", f"buffer {b}.capacity={buf.capacity}, model {len(want)}"
        if real != want:
            d = _diffpos(real, want)
            if last["st"] != sid:
                return "frame:other-storage-changed", f"buffer {b} changed at {d[:8]} although it is not the destination: real={list(real)} model={list(want)}"
            if any(x < last["off"] or x >= last["off"] + last["n"] for x in d):
                return "frame:outside-window", f"buffer {b} differs outside [{last['off']},{last['off'] + last['n']}) at {d[:8]}: real={list(real)} model={list(want)}"
            return "window:wrong-bytes", f"buffer {b} window [{last['off']},{last['off'] + last['n']}): real={list(real)} model={list(want)}"
        try:
            tb = bytes(buf.to_bytearray(0, len(want)))
        except Exception as ex:      # noqa
            return "to_bytearray-raised", f"to_bytearray(0, capacity) of buffer {b}: {type(ex).__name__} {ex}"
        if tb != real:
            return "to_bytearray:differs-from-storage", f"to_bytearray(0,{len(want)}) of buffer {b} = {list(tb)}, storage = {list(real)}"
    if len(post["copies"]) != len(w.copies) or len(post["views"]) != len(w.views):
        raise C.MachineryError("harness handle bookkeeping drifted from the model")
    for i, cm in enumerate(post["copies"]):
        obj, sid, _, origin = w.copies[i]
        if sid != cm["st"]:
            raise C.MachineryError("harness copy numbering drifted from the model")
        real, want = raw(obj), exp(sid)
        if real != want:
            if obj is newcopy and last["st"] != sid:
                return "extract:wrong-bytes", f"returned copy holds {list(real)}, model {list(want)}"
            if last["st"] == sid:
                d = _diffpos(real, want)
                if len(real) != len(want) or any(x < last["off"] or x >= last["off"] + last["n"] for x in d):
                    return "frame:outside-window", f"native destination differs outside [{last['off']},{last['off'] + last['n']}): real={list(real)} model={list(want)}"
                return "window:wrong-bytes", f"native destination window: real={list(real)} model={list(want)}"
            return "independence:held-copy-changed", f"held copy #{i + 1} (from {origin}) now {list(real)}, snapshot {list(want)}", origin
    for i, vm in enumerate(post["views"]):
        if not vm["cur"]:
            continue                      # stale by design: aliasing is claimed within one storage generation only
        obj = w.views[i][0]
        real = raw(obj)
        want = exp(vm["st"])[vm["off"]:vm["off"] + vm["n"]]
        if real != want:
            if obj is newview:
                return "view:wrong-bytes", f"returned view shows {list(real)}, buffer window [{vm['off']},{vm['off'] + vm['n']}) is {list(want)}"
            return ("aliases:view-differs-from-buffer", f"held view #{i + 1} (from {w.views[i][5]}) of {vm['b']}[{vm['off']},{vm['off'] + vm['n']}) shows {list(real)}, buffer holds {list(want)}",
                    w.views[i][5])
        if vm["n"] > 0 and obj is newview:
            # aliasing probed directly: a byte of the CURRENT storage under the view is flipped and restored; a view that only
            # happens to show equal bytes (because it looks at storage the buffer has abandoned) does not follow
            st = w.bufs[vm["b"]].buffer
            raw_flip(st, vm["off"])
            follows = raw(obj) != real
            raw_flip(st, vm["off"])
            if not follows:
                return ("aliases:returned-view-does-not-alias-current-storage", f"view returned by {w.views[i][5]} of {vm['b']}[{vm['off']},{vm['off'] + vm['n']}) does not change when the buffer byte under it changes",
                        w.views[i][5])
    return "", ""


def key_of(w, c, var, clause):
    b = c["b"]
    k = f"{PRIM[c['op']]}:{vclass(c, var)}:{KINDS.get(w.kind.get(b, ''), '-')}"
    if c["op"] == "ufx":
        k += f":from-{KINDS[w.kind[c['src']]]}:{'same' if w.cfg[2] else 'other'}-context"
    return k + ":" + clause


def init_tokens(b, n):
    return [(16 if b == "A" else 32) + i for i in range(n)]


def run_behaviour(beh, caps, cfg, choice):
    """returns ('ok', nsteps) | ('skip', reason) | ('viol', key, desc, upto)"""
    w = World(cfg, init_tokens("A", caps[0]), init_tokens("B", caps[1]))
    for i, st in enumerate(beh):
        c, var = st["cmd"], choice[i]
        op = c["op"]
        if op in ("ufb", "unp", "wv", "wc"):
            data = fresh(i, c["n"])
        elif op == "ctf":
            data = fill(c["len"])
        else:
            data = []
        try:
            out = w.do(c, var, data)
        except Skip as s:
            return ("skip", str(s))
        if out["exc"]:
            return ("viol", key_of(w, c, var, "raised:" + out["exc"]),
                    f"{PRIM[op]} raised {out['exc']}: {out['msg']} on a request inside the capacity; cmd={_short(c)} form={var} config={cfg} caps={caps}", i + 1)
        if op == "tpa" and c["n"] > 0 and out["kind"] != c["kind"]:
            return ("skip", "to_pointer_arg-other-branch:" + KINDS[w.kind[c["b"]]] + "=" + out["kind"])
        if op == "unp":                   # Aux: bind the fresh tokens of this step to what NumPy's astype produces
            for j, t in enumerate(fresh(i, c["n"])):
                w.tokmap[t] = out["data"][j]
        if op == "grow":                  # content of the new bytes is unspecified: bound from the observation
            real = raw(w.bufs[c["b"]].buffer)
            for j, t in enumerate(fresh(i, c["n"])):
                if c["off"] + j < len(real):
                    w.tokmap[t] = real[c["off"] + j]
        clause, desc, *origin = compare(w, st["post"], out["new"], out["vnew"])
        if clause:
            return ("viol", (origin[0] + ":" + clause) if origin else key_of(w, c, var, clause), f"{PRIM[op]}: {desc}; cmd={_short(c)} form={var} config={cfg} caps={caps} step={i + 1}/{len(beh)}", i + 1)
    return ("ok", len(beh))


def _short(c):
    return {k: v for k, v in c.items() if v not in (0, "", None) or k in ("off", "n")}


def caps_of(beh):
    """initial capacities of a behaviour: stores 1 and 2 never change length"""
    m = beh[0]["post"]["mem"]
    return (len(m[0]), len(m[1]))


def choose(rng, c, last, nlast, tier):
    vs = variants(c)
    if not last:
        vs2 = [v for v in vs if not v[0].startswith("Scalar._from_buffer")] or vs
        return [rng.choice(vs2)]
    if nlast is None or len(vs) <= nlast:
        return vs
    # stratified: one of every class first, then random
    by = collections.OrderedDict()
    for v in vs:
        by.setdefault(vclass(c, v), []).append(v)
    cls = list(by)
    rng.shuffle(cls)
    return [rng.choice(by[k]) for k in cls[:nlast]]


def replay_file(args):
    """worker: replays the share (idx % nmod == k) of one TLC output file"""
    path, k, nmod, seed, nlast, ncfg, tier = args
    lib()
    st = collections.Counter()
    viol = {}
    samples = []
    idx = -1
    with open(path) as f:
        for line in f:
            if not line.startswith('"{'):
                continue
            idx += 1
            if idx % nmod != k:
                continue
            beh = json.loads(json.loads(line))["beh"]
            caps = caps_of(beh)
            rng = random.Random(zlib.crc32(f"{seed}:{os.path.basename(path)}:{idx}".encode()))
            cfgs = CONFIGS if ncfg >= len(CONFIGS) else rng.sample(CONFIGS, ncfg)
            lastc = beh[-1]["cmd"]
            st["behaviours"] += 1
            st["op:" + lastc["op"]] += 1
            for cfg in cfgs:
                for lv in choose(rng, lastc, True, nlast, tier):
                    choice = [choose(rng, s["cmd"], False, 1, tier)[0] for s in beh[:-1]] + [lv]
                    # the SAME view request (buffer, window, dtype, shape, entry point) issued again later in the behaviour
                    for i2 in range(len(beh)):
                        for i1 in range(i2):
                            c1, c2 = beh[i1]["cmd"], beh[i2]["cmd"]
                            if c1["op"] == c2["op"] == "tnp" and (c1["b"], c1["off"], c1["w"], c1["cnt"]) == (c2["b"], c2["off"], c2["w"], c2["cnt"]) and rng.random() < 0.6:
                                choice[i1] = choice[i2]
                    r = run_behaviour(beh, caps, cfg, choice)
                    st["executions"] += 1
                    if r[0] == "ok":
                        st["steps_compared"] += r[1]
                        st["form:" + PRIM[lastc["op"]] + ":" + vclass(lastc, lv)] += 1
                    elif r[0] == "skip":
                        st["skip:" + r[1]] += 1
                    else:
                        st["steps_compared"] += r[3]
                        if r[1] not in viol:
                            viol[r[1]] = [r[2], dict(kind="behaviour", beh=beh[:r[3]], caps=caps, cfg=list(cfg), choice=[list(x) for x in choice[:r[3]]]), 0]
                        viol[r[1]][2] += 1
            if len(samples) < 2 and idx % 997 == 0:
                samples.append(dict(caps=caps, cmds=[_short(s["cmd"]) for s in beh]))
    for k_, v_ in _OBS.items():
        st["obs:" + k_] += v_
    _OBS.clear()
    return dict(st), viol, samples


# ----------------------------------------------------------------------------- TLC runs
BASE = 'Widths = {1,2,4,8} Layouts = {"C","F","S"}'
# gen entries: (tag, constants, simulate?, concrete forms tried for the last step (None = all), configurations per behaviour)
TIERS = {
    "quick": dict(
        mc=[("d1", "CapA = {0,1,2,3,4,5,6,8} CapB = {0,1,2,3,4,5,6,8} MaxCap = 10 MaxSteps = 1 GrowAmounts = {1,2} NativeLens = {0,1,2,3,4,8}", 2),
            ("d2", "CapA = {0,1,2,3,4} CapB = {4} MaxCap = 6 MaxSteps = 2 GrowAmounts = {1,2} NativeLens = {0,1,2,3,4}", 4),
            ("d3", "CapA = {0,1} CapB = {1,2} MaxCap = 3 MaxSteps = 3 GrowAmounts = {1} NativeLens = {0,1,2}", 4)],
        gen=[("g1", "CapA = {0,1,2,3,4} CapB = {0,1,2,3,4} MaxCap = 6 MaxSteps = 1 GrowAmounts = {1,2} NativeLens = {0,1,2,3,4}", None, 3, 8),
             ("g1w", "CapA = {3,8} CapB = {8} MaxCap = 10 MaxSteps = 1 GrowAmounts = {2} NativeLens = {0,8}", None, 3, 8),
             ("g2a", "CapA = {0} CapB = {3} MaxCap = 4 MaxSteps = 2 GrowAmounts = {1} NativeLens = {2}", None, 2, 3),
             ("g2b", "CapA = {1} CapB = {2} MaxCap = 3 MaxSteps = 2 GrowAmounts = {1} NativeLens = {2}", None, 2, 3),
             ("s3", "CapA = {0,1,2,3,4} CapB = {2,3,4} MaxCap = 6 MaxSteps = 3 GrowAmounts = {1,2} NativeLens = {0,2,4}", "num=150", 2, 4)],
        walks=160, steps=30, procs=8),
    "thorough": dict(
        mc=[("d1", "CapA = {0,1,2,3,4,5,6,7,8} CapB = {0,1,2,3,4,5,6,7,8} MaxCap = 10 MaxSteps = 1 GrowAmounts = {1,2} NativeLens = {0,1,2,3,4,5,6,8}", 2),
            ("d2", "CapA = {0,1,2,3,4,5,6} CapB = {6} MaxCap = 8 MaxSteps = 2 GrowAmounts = {1,2} NativeLens = {0,2,4,6}", 6),
            ("d3", "CapA = {0,1} CapB = {2,3} MaxCap = 4 MaxSteps = 3 GrowAmounts = {1} NativeLens = {0,1,2,3}", 4),
            ("d3b", "CapA = {2} CapB = {2} MaxCap = 3 MaxSteps = 3 GrowAmounts = {1} NativeLens = {0,1,2}", 3)],
        gen=[("g1", "CapA = {0,1,2,3,4,5,6} CapB = {0,1,2,3,4,5,6} MaxCap = 8 MaxSteps = 1 GrowAmounts = {1,2} NativeLens = {0,1,2,3,4,5,6}", None, None, 8),
             ("g1w", "CapA = {0,3,8} CapB = {8} MaxCap = 10 MaxSteps = 1 GrowAmounts = {2} NativeLens = {0,4,8}", None, None, 8),
             ("g2a", "CapA = {0} CapB = {4} MaxCap = 5 MaxSteps = 2 GrowAmounts = {1} NativeLens = {2,4}", None, 3, 4),
             ("g2b", "CapA = {1} CapB = {3} MaxCap = 4 MaxSteps = 2 GrowAmounts = {1} NativeLens = {2}", None, 3, 4),
             ("g2c", "CapA = {2} CapB = {2} MaxCap = 3 MaxSteps = 2 GrowAmounts = {1} NativeLens = {1,2}", None, 3, 4),
             ("g2d", "CapA = {2} CapB = {3} MaxCap = 4 MaxSteps = 2 GrowAmounts = {1} NativeLens = {2}", None, 3, 4),
             ("s3a", "CapA = {0,1,2,3,4,5,6} CapB = {2,3,4,5,6} MaxCap = 8 MaxSteps = 3 GrowAmounts = {1,2} NativeLens = {0,2,4,6}", "num=1500", 4, 8),
             ("s3b", "CapA = {0,4,8} CapB = {8} MaxCap = 10 MaxSteps = 3 GrowAmounts = {2} NativeLens = {0,8}", "num=500", 4, 8)],
        walks=1500, steps=40, procs=12),
}
MC_CFG = """SPECIFICATION Spec
CONSTANTS {c} {base} Caps <- McCaps
INVARIANT TypeOK
INVARIANT Independent
INVARIANT Aliases
PROPERTY Frame
PROPERTY CapStable
CHECK_DEADLOCK FALSE
"""
GEN_CFG = """SPECIFICATION {spec}
CONSTANTS {c} {base} Caps <- McCaps
CHECK_DEADLOCK FALSE
"""


def model_check(run, tier):
    jobs = TIERS[tier]["mc"]

    def one(job):
        tag, consts, workers = job
        wd = C.scratch("c13mc")
        open(os.path.join(wd, tag + ".cfg"), "w").write(MC_CFG.format(c=consts, base=BASE))
        res = C.run_tlc("MC_XoBytes", tag + ".cfg", workdir=wd, workers=workers, timeout=3000, jvm=("-Xmx3g",))
        shutil.rmtree(wd, ignore_errors=True)
        return tag, res

    out = {}
    with ThreadPoolExecutor(max_workers=len(jobs)) as ex:
        for tag, res in ex.map(one, jobs):
            out[tag] = dict(states=res["distinct"], generated=res["generated"], ok=res["ok"], wall=round(res["wall"], 1))
            run.add_tlc(res)
            if not res["ok"] or res["distinct"] == 0:
                raise C.MachineryError(f"model-level check {tag} failed (the specification itself is inconsistent):\n" + res["out"][-3000:])
    return out


def export(run, tier):
    """runs the generator instances; returns list of (tag, path of TLC stdout, number of behaviours)"""
    jobs = TIERS[tier]["gen"]

    def one(job):
        tag, consts, sim = job[:3]
        wd = C.scratch("c13gen")
        open(os.path.join(wd, tag + ".cfg"), "w").write(GEN_CFG.format(c=consts, base=BASE, spec="SSpec" if sim else "GSpec"))
        extra = ["-seed", str(run.seed + 1), "-depth", "6"] if sim else []
        res = C.run_tlc("XoBytesGen", tag + ".cfg", workdir=wd, workers=1, timeout=3000, simulate=sim, extra=extra, jvm=("-Xmx2g",))
        path = os.path.join(run.tmp, tag + ".out")
        n = 0
        with open(path, "w") as f:
            for ln in res["out"].splitlines():
                if ln.startswith('"{'):
                    f.write(ln + "\n")
                    n += 1
        shutil.rmtree(wd, ignore_errors=True)
        if res["rc"] != 0 and not (sim and n > 0):
            raise C.MachineryError(f"generator {tag} failed:\n" + res["out"][-2000:])
        if n == 0:
            raise C.MachineryError(f"generator {tag} exported nothing:\n" + res["out"][-2000:])
        return tag, path, n, res, job[3], job[4]

    with ThreadPoolExecutor(max_workers=len(jobs)) as ex:
        return list(ex.map(one, jobs))


# ----------------------------------------------------------------------------- code -> spec: random deep walks, validated by TLC
def _runs(a, b_):
    """[start, bytes] of the span first..last differing byte (same length)"""
    if a == b_:
        return None
    n = len(a)
    i = 0
    while a[i] == b_[i]:
        i += 1
    j = n
    while a[j - 1] == b_[j - 1]:
        j -= 1
    return [i, list(b_[i:j])]


def walk(args):
    seed, steps = args
    lib()
    rng = random.Random(seed)
    cfg = rng.choice(CONFIGS)
    capA = rng.choice([0, 1, 5, 16, 33, 64, 100, 256, 1000, 4096])
    capB = rng.choice([1, 8, 16, 40, 64, 128, 300, 1024, 4096])
    big = seed % 16 == 7
    if big:
        # transfers larger than any block a primitive might stage through (64 KiB and its neighbours): few steps, windows up to
        # the whole capacity, source and destination offsets that differ
        capA, capB = rng.choice([65536 + 9, 66000, 70001, 131072 + 24]), rng.choice([65536 + 64, 69000, 140000])
        steps = min(steps, 10)
    initA = [rng.randrange(256) for _ in range(capA)]
    initB = [rng.randrange(256) for _ in range(capB)]
    w = World(cfg, initA, initB)
    tr = dict(init=dict(A=initA, B=initB), ev=[], cfg=list(cfg), seed=seed, forms=[], origins=dict(copy={}, view=[]))
    small = rng.random() < 0.6 and not big
    w.big = big
    before = w.observe()
    for _ in range(steps):
        c, var, data = _random_cmd(rng, w, small)
        if c is None:
            continue
        try:
            out = w.do(c, var, data)
        except Skip:
            continue
        after = w.observe()
        ev = dict(op=c["op"], b=c["b"], off=c["off"], n=c["n"], st=c.get("st", 0), src=c.get("src", ""), soff=c.get("soff", 0),
                  w=c.get("w", 0), ws=out["ws"] or c.get("w", 0) or 1, cnt=c.get("cnt", 0), lay=out["lay"] or "C", k=c.get("k", 0),
                  kind=out["kind"], len=c.get("len", 0), data=[int(x) for x in out["data"]], exc=out["exc"],
                  chg=[], lens=[], new=[0, []], vnew=[0, []], vchg=[])
        broken = False
        for sid, old in before[0].items():
            if sid not in after[0]:
                continue                                # storage replaced by growth: no longer observed
            new = after[0][sid]
            if len(new) != len(old):
                ev["lens"].append([sid, list(new)])
                broken = True
            else:
                r = _runs(old, new)
                if r:
                    ev["chg"].append([sid, r[0], r[1]])
        if out["new"] is not None:
            ev["new"] = [1, list(raw(out["new"]))]
        if out["vnew"] is not None:
            ev["vnew"] = [1, list(raw(out["vnew"]))]
        for i, old in enumerate(before[1]):
            new = after[1][i]
            if old is None or new is None:
                continue
            if len(old) != len(new):
                raise C.MachineryError("a held NumPy view changed its length")
            r = _runs(old, new)
            if r:
                ev["vchg"].append([i + 1, r[0], r[1]])
        tr["ev"].append(ev)
        tr["forms"].append([PRIM[c["op"]] + ":" + vclass(c, var), KINDS.get(w.kind.get(c["b"], ""), "-"),
                            (KINDS[w.kind[c["src"]]] if c["op"] == "ufx" else "")])
        tr["origins"] = dict(copy={str(cp[1]): cp[3] for cp in w.copies}, view=[v[5] for v in w.views])
        before = after
        if broken or any(len(raw(w.bufs[b].buffer)) != w.bufs[b].capacity for b in "AB"):
            break                                       # the real buffer is no longer a buffer of its capacity: stop recording
    return tr


def _window(rng, cap, small, mult=1, big=False):
    """random (off, n) inside cap, n multiple of mult"""
    if cap == 0:
        return 0, 0
    x = rng.random()
    if x < 0.08:
        off, n = 0, cap
    elif x < 0.16:
        off = rng.randrange(cap + 1)
        n = cap - off
    else:
        n = rng.randrange(0, min(cap, 24 if small else 700) + 1)
        if big and rng.random() < 0.7:
            n = rng.randrange(min(cap, 65000), cap + 1)
        off = rng.randrange(0, cap - n + 1)
    n -= n % mult
    return off, n


def _random_cmd(rng, w, small):
    np = _L["np"]
    b = rng.choice("AB")
    cap = w.bufs[b].capacity
    c = dict(op="", b=b, off=0, n=0, st=0, src="", soff=0, w=0, cnt=0, k=0, kind="", len=0)
    ops = ["ufb"] * 4 + ["unp"] * 4 + ["ufx"] * 4 + ["ufn"] * 2 + ["ctn"] * 2 + ["ctf", "ton", "tob", "tob", "tpa", "tnp", "tnp", "tnp"] + ["wv"] * 3 + ["wc", "grow"]
    op = rng.choice(ops)
    if w.big and rng.random() < 0.5:
        op = "ufx"
    if (op in ("ton", "tob", "tpa", "tnp", "ctf") and len(w.copies) + len(w.views) >= 14) or (op == "grow" and cap + 64 > 5000):
        op = "ufb"
    c["op"] = op
    if op == "ufb":
        c["off"], c["n"] = _window(rng, cap, small, big=w.big)
    elif op == "unp":
        wd = rng.choice([1, 2, 4, 8])
        c["off"], c["n"] = _window(rng, cap, small, wd, big=w.big)
        c["w"], c["cnt"] = wd, c["n"] // wd
    elif op in ("ufn", "ctn"):
        cands = [sid for sid in w.store if w.native_kind(sid) == w.kind[b] and (op == "ufn" or sid != w.cur[b])]
        if not cands:
            return None, None, None
        st = rng.choice(cands)
        ln = len(raw(w.storage(st)))
        off, n = _window(rng, min(cap, ln), small, big=w.big)
        c["n"], c["st"] = n, st
        if op == "ufn":
            c["off"], c["soff"] = rng.randrange(0, cap - n + 1), rng.randrange(0, ln - n + 1)
        else:
            c["soff"], c["off"] = rng.randrange(0, cap - n + 1), rng.randrange(0, ln - n + 1)
    elif op == "ctf":
        c["soff"], c["n"] = _window(rng, cap, True)
        c["len"] = c["n"] + rng.choice([0, 1, 3, 9])
        c["off"] = rng.randrange(0, c["len"] - c["n"] + 1)
    elif op in ("ton", "tob", "tpa"):
        c["off"], c["n"] = _window(rng, cap, True)
        if op == "tob" and rng.random() < 0.5 and cap >= 8:
            c["n"] = rng.choice([1, 2, 4, 8])
            c["off"] = rng.randrange(0, cap - c["n"] + 1)
    elif op == "tnp":
        wd = rng.choice([1, 2, 4, 8])
        c["off"], c["n"] = _window(rng, cap, True, wd)
        c["w"], c["cnt"] = wd, c["n"] // wd
        again = [x for x in getattr(w, "view_cmds", []) if x[0]["off"] + x[0]["n"] <= w.bufs[x[0]["b"]].capacity]
        if again and rng.random() < 0.4:        # the very same request as an earlier one (possibly of an earlier storage generation)
            c0, var0 = rng.choice(again)
            c.update(b=c0["b"], off=c0["off"], n=c0["n"], w=c0["w"], cnt=c0["cnt"])
            return c, var0, []
    elif op == "ufx":
        src = rng.choice("AB")
        scap = w.bufs[src].capacity
        _, n = _window(rng, min(cap, scap), small, big=w.big)
        c.update(src=src, n=n, off=rng.randrange(0, cap - n + 1), soff=rng.randrange(0, scap - n + 1))
    elif op == "wv":
        cands = [i for i, v in enumerate(w.views) if v[2] == w.cur[v[1]] and isinstance(v[0], np.ndarray) and v[0].size > 0]
        if not cands:
            return None, None, None
        i = rng.choice(cands)
        v = w.views[i]
        wd = v[0].dtype.itemsize
        k = rng.randrange(v[0].size)
        c.update(b=v[1], st=i + 1, k=k, off=v[3] + k * wd, n=wd, w=wd)
    elif op == "wc":
        cands = [i for i, cp in enumerate(w.copies) if isinstance(cp[0], (np.ndarray, bytearray)) and len(raw(cp[0])) > 0]
        if not cands:
            return None, None, None
        i = rng.choice(cands)
        c.update(b="", st=i + 1, off=rng.randrange(len(raw(w.copies[i][0]))), n=1)
    elif op == "grow":
        c["n"] = rng.choice([1, 2, 7, 64])
        c["off"] = cap
    var = rng.choice(variants(c))
    if op in ("ufb", "wv", "wc"):
        data = [rng.randrange(256) for _ in range(c["n"])]
        if op == "wv" and w.views[c["st"] - 1][0].dtype.kind == "f":
            data[-1] = data[-1] & 0x3F | 0x10          # keep float items finite so the item assignment is a plain bit copy
    elif op == "unp":
        data = [rng.randrange(1, 120) for _ in range(c["n"])]
        if var[1] in ("float32", "float64"):          # same-dtype float sources: avoid NaN payloads (bit pattern is NumPy's business)
            wd = c["w"]
            for i in range(c["cnt"]):
                data[i * wd + wd - 1] = 0x40
    elif op == "ctf":
        data = [rng.randrange(256) for _ in range(c["len"])]
    else:
        data = []
    return c, var, data


EV_FIELDS = ("op", "b", "off", "n", "st", "src", "soff", "w", "ws", "cnt", "lay", "k", "kind", "len", "data", "exc", "chg", "lens", "new", "vnew", "vchg")


def validate(traces, nbatch):
    """TLC validates traces against XoBytes (contract); returns per trace the list of (step, clause)"""
    if not traces:
        return [], dict(generated=0, distinct=0)
    order = sorted(range(len(traces)), key=lambda i: -sum(len(x) for x in (traces[i]["init"]["A"], traces[i]["init"]["B"])))
    batches = [order[i::nbatch] for i in range(nbatch) if order[i::nbatch]]
    fails = [[] for _ in traces]
    tot = dict(generated=0, distinct=0)

    def one(ids):
        wd = C.scratch("c13tr")
        path = os.path.join(wd, "trace.json")
        json.dump([dict(init=traces[i]["init"], ev=[{k: e[k] for k in EV_FIELDS} for e in traces[i]["ev"]]) for i in ids], open(path, "w"))
        cfg = ('SPECIFICATION TraceSpec\nCONSTANTS Caps = {} MaxCap = 0 Widths = {1,2,4,8} Layouts = {"C","F","S"} MaxSteps = 0 '
               'GrowAmounts = {} NativeLens = {}\nCHECK_DEADLOCK FALSE\n')
        open(os.path.join(wd, "tr.cfg"), "w").write(cfg)
        res = C.run_tlc("XoBytesTrace", "tr.cfg", workdir=wd, workers=1, timeout=3000, env={"TRACE_FILE": path}, jvm=("-Xmx2g",))
        done = C.tlc_tuples(res["out"], "DONE")
        if res["rc"] != 0 or len(done) != len(ids) or any(d[2] != len(traces[ids[d[1] - 1]]["ev"]) for d in done):
            raise C.MachineryError(f"trace validation: rc={res['rc']} done={len(done)}/{len(ids)}\n" + res["out"][-3000:])
        shutil.rmtree(wd, ignore_errors=True)
        return ids, C.tlc_tuples(res["out"], "FAIL"), res

    with ThreadPoolExecutor(max_workers=nbatch) as ex:
        for ids, fl, res in ex.map(one, batches):
            for f in fl:
                fails[ids[f[1] - 1]].append((f[2], f[3], f[4]))
            tot["generated"] += res["generated"]
            tot["distinct"] += res["distinct"]
    return fails, tot


def report_walks(run, traces, fails):
    ops = collections.Counter()
    for t, fl in zip(traces, fails):
        for e in t["ev"]:
            ops[e["op"]] += 1
        for pos, clause, who in sorted(fl):
            e, form = t["ev"][pos - 1], t["forms"][pos - 1]
            if clause in ("raised", "raised-after-partial-write"):
                clause += ":" + e["exc"]
            key = f"{form[0]}:{form[1]}" + (f":from-{form[2]}:{'same' if t['cfg'][2] else 'other'}-context" if form[2] else "") + ":" + clause
            if clause.startswith("independence:") and str(who) in t["origins"]["copy"]:
                key = t["origins"]["copy"][str(who)] + ":" + clause
            elif clause.startswith("aliases:") and 0 < who <= len(t["origins"]["view"]):
                key = t["origins"]["view"][who - 1] + ":" + clause
            small = {k: (v if not isinstance(v, list) or len(v) <= 12 else f"<{len(v)} items>") for k, v in e.items()}
            run.report(key, f"random walk seed={t['seed']} config={t['cfg']} step {pos}: TLC clause '{clause}'; event={small}",
                       dict(kind="walk", seed=t["seed"], steps=len(t["ev"]), upto=pos))
    return ops


# ----------------------------------------------------------------------------- the check
def check(pid, argv=None):
    import multiprocessing as mp
    run = C.Run(pid, argv)
    tier = run.tier
    T = TIERS[tier]
    lib()
    run.assumptions += [
        "contract XoBytes.tla transcribes C13 and the docstrings of the XBuffer primitives; requests are inside the capacity",
        "Aux: the numeric result of a dtype conversion is NumPy's astype - landed bytes are compared with np.asarray(src).astype(dest).tobytes(), the model fixes only how many bytes land where",
        "to_pointer_arg: C13 does not say copy or view; the model allows both and the choice is bound from the observation",
        "aliasing of a view is claimed only within one storage generation (views taken before grow() are stale by design)",
        "a foreign native storage type handed directly to update_from_native/copy_to_native is outside the contract (mixed buffer kinds meet only through update_from_xbuffer)",
        "observation reads the raw storage object (buffer.buffer) and cross-checks to_bytearray(0, capacity) against it",
        "GPU buffer kinds are out of scope"]
    rp = json.load(open(run.replay))["replay"] if run.replay else None
    os.chdir(run.tmp)
    ctx = mp.get_context("fork")
    if run.replay:
        if rp["kind"] == "behaviour":
            r = run_behaviour(rp["beh"], tuple(rp["caps"]), tuple(rp["cfg"]), [tuple(tuple(y) if isinstance(y, list) else y for y in x) for x in rp["choice"]])
            run.cov["traces_validated_against_impl"] = 1
            if r[0] == "viol":
                run.report(r[1], r[2], rp)
            run.sample(dict(replayed=rp["kind"], result=r[0]))
        else:
            tr = walk((rp["seed"], rp["steps"]))
            fails, tot = validate([tr], 1)
            run.cov["states"] += tot["distinct"]
            run.cov["transitions"] += tot["generated"]
            run.cov["traces_validated_against_impl"] = 1
            report_walks(run, [tr], fails)
        run.finish()
    t1 = time.time()
    P = T["procs"]
    pool = ctx.Pool(P)            # forked before any thread exists
    try:
        fw = pool.map_async(walk, [(run.seed * 100003 + i, T["steps"]) for i in range(T["walks"])], chunksize=8)
        with ThreadPoolExecutor(max_workers=2) as ex:
            fmc = ex.submit(model_check, run, tier)
            fex = ex.submit(export, run, tier)
            exported = fex.result()
            run.notes["t_export"] = round(time.time() - t1, 1)
            # ---- spec -> code
            t2 = time.time()
            jobs = []
            for tag, path, n, res, nlast, ncfg in exported:
                run.add_tlc(res)
                nmod = max(1, min(P * 2, n // 300))
                jobs += [(path, k, nmod, run.seed, nlast, ncfg, tier) for k in range(nmod)]
            jobs.sort(key=lambda j: j[1])
            stats = collections.Counter()
            for st, viol, samples in pool.imap_unordered(replay_file, jobs):
                stats.update(st)
                for k, (desc, rp, cnt) in viol.items():
                    for _ in range(cnt):
                        run.report(k, desc, rp)
                for s_ in samples:
                    run.sample(s_)
            traces = fw.get()
            run.notes["t_replay"] = round(time.time() - t2, 1)
            mc = fmc.result()
    finally:
        pool.terminate()
    run.notes["model_checking"] = mc
    run.notes["exported_behaviours"] = {e[0]: e[2] for e in exported}
    missing = [op for op in PRIM if not stats.get("op:" + op)]
    if missing:
        raise C.MachineryError(f"vacuity: no exported behaviour ends with {missing}")
    run.notes["spec_to_code"] = dict(
        behaviours=stats["behaviours"], real_executions=stats["executions"], steps_compared=stats["steps_compared"],
        last_step_by_primitive={PRIM[k[3:]]: v for k, v in sorted(stats.items()) if k.startswith("op:")},
        skipped={k[5:]: v for k, v in stats.items() if k.startswith("skip:")},
        open_choices_observed={k[4:]: v for k, v in stats.items() if k.startswith("obs:")},
        concrete_forms_passed={k[5:]: v for k, v in sorted(stats.items()) if k.startswith("form:")})
    run.cov["traces_validated_against_impl"] += stats["executions"]
    # ---- code -> spec
    t3 = time.time()
    fails, tot = validate(traces, min(T["procs"], max(1, len(traces) // 20)))
    run.notes["t_validate"] = round(time.time() - t3, 1)
    run.cov["states"] += tot["distinct"]
    run.cov["transitions"] += tot["generated"]
    ops = report_walks(run, traces, fails)
    run.cov["traces_validated_against_impl"] += len(traces)
    run.notes["code_to_spec"] = dict(walks=len(traces), real_steps_validated_by_tlc=sum(len(t["ev"]) for t in traces),
                                     steps_by_primitive={PRIM[k]: v for k, v in sorted(ops.items())},
                                     max_capacity=max(max(len(t["init"]["A"]), len(t["init"]["B"])) for t in traces))
    if traces:
        t = traces[0]
        run.sample(dict(walk_seed=t["seed"], config=t["cfg"], caps=[len(t["init"]["A"]), len(t["init"]["B"])],
                        first_events=[{k: e[k] for k in ("op", "b", "off", "n", "exc")} for e in t["ev"][:4]]))
    run.cov["exhaustive"] = False
    run.finish()
