"""Engine for the typed-layer properties decided by the abstract heap XoHeap.tla with XoLayout!Decode on the real bytes:
C01 C03 C05 C06 C08 C09 C10 C11 (C20 in pickle.py shares the machinery).

Each property has its own program generator (what histories are executed on the real library) and owns a set of
clauses of spec/XoHeapTrace.tla (OWN below).  A history whose first failing step fails only clauses of OTHER
properties is abandoned (counted under abandoned_precondition), never reported under this property's id.
"""
import collections, json, os, random, re, shutil, time
from concurrent.futures import ThreadPoolExecutor
from . import common as C
from . import xtypes as X
from .world import World

PROPERTIES = ["C01", "C03", "C05", "C06", "C08", "C09", "C10", "C11", "C20"]


# ----------------------------------------------------------------------------- clause ownership
def owners(op, clause, e=None, nbuf0=3):
    """every property a failing clause belongs to: the primary owner plus the properties whose statement the same
    observation contradicts as well (a copy that does not decode to the source's value breaks C09 AND the format C05;
    an assignment that writes into another object breaks C03's frame AND C10's locality AND, for references, C08)"""
    o = {owner(op, clause)}
    if clause.startswith("copy-decode:") or clause.startswith("copy-fmt") or (op == "copy" and clause.startswith("fmt:")):
        o |= {"C05", "C09"}
    if op == "set" and clause.startswith("frame:set-wrote-outside-object"):
        o |= {"C03", "C10"}
    if op == "set" and clause.startswith("set:other-object-changed"):
        o |= {"C10", "C03"}
    if clause.startswith("free:") or clause.startswith("alloc:two-objects-at-one-address"):
        o |= {"C10", "C08", "C03"}       # an assignment released storage another element / reference still uses (and it was handed out again)
    if op == "copy" and clause.startswith("size:"):
        o |= {"C05", "C09"}              # the copy's stored size is not its extent
    if clause.startswith("alloc:") and e is not None and any(a[0] > nbuf0 for a in e.get("alloc", [])):
        o |= {"C20"}                     # an unpickled buffer handed out storage that is in use
    if (e is not None and op in ("grow", "new", "set", "noise") and clause.startswith(("frame:", "grow:", "read:", "decode:"))
            and e.get("memd") and all(d[0] > nbuf0 for d in e["memd"])):
        o |= {"C20"}                     # the step touched unpickled buffers only: objects that came back from pickle are not usable like others
    if op == "set" and clause.startswith("read:view:"):
        o |= {"C10"}                     # a view rebuilt from the bytes does not return what was just assigned: the assignment itself failed
    if op == "copy" and clause.startswith(("ref:", "copy-ref:", "fmt:ref-", "fmt:union-", "fmt:null-union")):
        o |= {"C08", "C09"}              # the references of a copy are references: valid, in their buffer, null stays null
    if op in ("new", "copy") and clause.startswith("ref:new-target-"):
        o |= {"C05"}          # a referent written by the construction does not decode to the value it was built from / is malformed
    if (op == "new" and e is not None and "xobject" in str(e.get("form", "")) and clause.startswith(("read:", "decode:", "fmt:", "frame:", "size:", "nest:"))):
        o |= {"C09"}          # a part built FROM AN XOBJECT (a struct, an array, a String object) is a copy-construction of that part
    if op == "new" and (clause.startswith("read:") or clause.startswith("ref:new-target-value")):
        o |= {"C01"}          # a nested accessor of the object just built does not return the value it was built from
    return o


def owner(op, clause):
    """which property a failing clause of XoHeapTrace primarily belongs to, given the operation it failed at"""
    if clause.startswith("pickle:") or op == "pickle":
        return "C20"
    if clause.startswith("alloc:"):
        return "C04"
    if clause.startswith("free:"):
        return "C10"
    if clause.startswith("fmt:"):
        return "C05"
    if clause.startswith("nest:") or clause.startswith("size:"):
        return "C03"
    if clause.startswith("frame:set-wrote-outside-element"):
        return "C10"
    if clause.startswith("frame:"):
        return "C03"
    if clause.startswith("decode:"):
        return "C05"
    if clause.startswith("copy-"):
        return "C09"
    if clause.startswith("ref:"):
        return "C09" if op == "copy" else "C08"
    if clause.startswith("set:"):
        return "C10"
    if clause.startswith("err:"):
        return "C11"
    if clause.startswith("grow:") or clause.startswith("noise:"):
        return "C08" if "ref" in clause else "C10"
    if clause.startswith("stale:"):
        return "C06"
    if clause.startswith("read:"):
        route = clause.split(":")[1]
        if op == "new":
            return "C01" if route in ("ctor", "nplike") else "C06"
        if op == "copy":
            return "C09"
        if op == "grow":
            return "C08" if clause.endswith(":ref") else "C10"
        if op == "err":
            return "C11"
        return "C06"
    return "??"


# ----------------------------------------------------------------------------- types
def rand_type(rng, depth, top=True, refs=True, allow_str=True):
    """a random type of the grammar; top-level types are structs or arrays"""
    kinds = ["struct", "arr"] if top else ["sc", "sc", "sc", "str", "struct", "arr", "ref", "uref"]
    if top and depth <= 0:      # reference targets and top-level objects are structs or arrays
        if rng.random() < 0.5:
            return X.struct(*[rand_type(rng, 0, False, False, allow_str) for _ in range(rng.choice([1, 2]))])
        return X.arr(X.sc(rng.choice(list(X.KINDS))), [rng.choice([-1, 2])])
    if depth <= 0:
        kinds = [k for k in kinds if k in ("sc", "str")] or ["sc"]
    if not refs:
        kinds = [k for k in kinds if k not in ("ref", "uref")] or ["sc"]
    if not allow_str:
        kinds = [k for k in kinds if k != "str"] or ["sc"]
    k = rng.choice(kinds)
    if k == "sc":
        return X.sc(rng.choice(list(X.KINDS)))
    if k == "str":
        return X.STR
    if k == "struct":
        n = rng.choice([1, 2, 2, 3, 4])
        return X.struct(*[rand_type(rng, depth - 1, False, refs, allow_str) for _ in range(n)])
    if k == "arr":
        nd = rng.choice([1, 1, 1, 2, 2, 3])
        sh = [rng.choice([-1, -1, 1, 2, 3]) for _ in range(nd)]
        order = list(range(nd))
        if rng.random() < 0.5:
            rng.shuffle(order)
        it = rand_type(rng, depth - 1, False, refs, allow_str)
        return X.arr(it, sh, order)
    if k == "ref":
        return X.ref(rand_type(rng, depth - 1, True, refs, allow_str))
    members = {}
    for _ in range(rng.choice([1, 2, 2, 3])):       # member types of a union are distinct classes
        m = rand_type(rng, depth - 1, True, refs, allow_str)
        members.setdefault(X.key(m), m)
    return X.uref(*members.values())


F64, I8, I16, U32, I64 = X.sc("Float64"), X.sc("Int8"), X.sc("Int16"), X.sc("UInt32"), X.sc("Int64")
_IN = X.struct(I64, X.arr(F64, [-1]))
SUITE = [
    X.struct(F64, I8, I16),
    X.struct(I8, X.STR, F64, X.STR),
    X.struct(X.arr(I16, [-1]), I8, X.arr(F64, [2, -1], [1, 0]), X.STR),
    X.arr(F64, [3]), X.arr(I8, [-1]), X.arr(U32, [2, 3], [1, 0]), X.arr(I16, [-1, 2, -1], [2, 0, 1]),
    X.arr(X.STR, [-1]), X.arr(X.struct(I8, X.STR), [-1]), X.arr(X.struct(F64, I16), [2, -1]),
    X.arr(X.arr(I8, [-1]), [-1, 2]), X.arr(X.arr(F64, [2]), [3]),
    X.struct(I8, X.ref(_IN), X.arr(X.uref(_IN, X.arr(F64, [2])), [-1]), X.STR),
    X.struct(X.ref(X.arr(I16, [-1])), X.struct(X.ref(_IN), I8)),
    X.arr(X.ref(_IN), [-1]), X.arr(X.struct(X.ref(X.arr(F64, [-1])), I64), [-1]),
    X.struct(X.uref(_IN, X.struct(I8)), X.uref(X.arr(F64, [2]))),
    X.struct(X.uref(X.arr(F64, [-1]), _IN), I8, X.ref(X.arr(I16, [-1, 2]))),
    X.arr(X.uref(X.arr(I16, [-1, 2]), X.arr(X.STR, [-1])), [-1]),
    X.struct(I8, X.struct(X.ref(X.arr(F64, [-1])), X.STR), X.STR),
    X.arr(X.struct(X.ref(X.arr(F64, [-1])), X.STR, X.arr(I8, [-1])), [-1]),
    X.struct(X.ref(X.struct(X.ref(X.arr(I16, [-1])), X.STR)), X.STR, I64),
    X.struct(I8, X.ref(X.arr(F64, [3])), X.ref(X.struct(F64, I16)), X.ref(X.arr(F64, [3]))),          # references to statically sized targets
    X.arr(X.ref(X.struct(I64, F64)), [-1]),
    X.struct(X.arr(X.ref(X.arr(I16, [2, 2])), [3]), X.STR),
    X.struct(X.uref(_IN, X.arr(F64, [2])), X.uref(X.arr(F64, [2]), _IN), I8, X.uref(X.struct(I8), X.arr(F64, [2]), _IN)),     # unions sharing members at other positions
    X.arr(X.struct(X.ref(X.arr(F64, [3])), I16), [-1]), X.struct(I8, X.arr(X.struct(X.ref(X.arr(I16, [2])), F64), [-1, 2])),     # items whose default may hold a referent
    X.struct(I8, X.struct(F64, X.struct(I16, I64, X.arr(I8, [2])), I8), X.STR),        # static structs nested in static structs
    X.arr(X.struct(I8, X.struct(I16, F64, X.struct(I8, I8))), [-1]),
    X.struct(I64, X.arr(F64, [-1]), X.arr(F64, [-1]), X.STR, X.STR),       # several dynamic fields of one type: same size, other distribution
    X.struct(X.arr(X.STR, [-1]), I8, X.arr(X.STR, [-1])),
]


import itertools
_SWEEP = []
for _nd in (2, 3):
    for _perm in itertools.permutations(range(_nd)):
        for _dyn in ("static", "dynamic", "mixed"):
            for _item in ("sc", "str", "struct"):
                _SWEEP.append((_nd, list(_perm), _dyn, _item))


def sweep_type(i, rng):
    """systematic part of the type space: every axis order of 2-D and 3-D arrays x static/dynamic shape x item kind, extents >= 2"""
    nd, perm, dyn, item = _SWEEP[i % len(_SWEEP)]
    ext = [rng.choice([2, 2, 3]) for _ in range(nd)]
    if dyn == "dynamic":
        sh = [-1] * nd
    elif dyn == "mixed":
        sh = [(-1 if rng.random() < 0.5 else e) for e in ext]
    else:
        sh = ext
    it = {"sc": X.sc(rng.choice(list(X.KINDS))), "str": X.STR, "struct": X.struct(X.sc("Int8"), X.STR)}[item]
    tx = X.arr(it, sh, perm)
    if rng.random() < 0.3:
        tx = X.struct(X.sc("Int16"), tx, X.STR)
    return tx, ext


def pick_type(rng, refs=True, maxdepth=3):
    if rng.random() < 0.45:
        c = [t for t in SUITE if refs or not X.has_refs(t)]
        return rng.choice(c)
    return rand_type(rng, rng.randint(1, maxdepth), True, refs)


# ----------------------------------------------------------------------------- programs (one per property)
def prog_construct(w, rng, refs=True):
    """C01 / C05 / C03 / C06: constructions of every form and placement, read back through every route"""
    keys = []
    for n in range(rng.randint(1, 3)):
        if n == 0 and w.index % 2 == 0:
            tx, ext = sweep_type(w.index // 2, rng)
            k = w.new(tx, rng.randrange(2), mindim=2)
        else:
            tx = pick_type(rng, refs)
            k = w.new(tx, rng.randrange(2))
        if k is None:
            return
        keys.append(k)
        if rng.random() < 0.3:
            # the same type once more, its nested compound parts taken from existing objects and from nested parts (views) of
            # the object just built, in either buffer
            w.xobj_p = 0.6
            k2 = w.new(tx, rng.randrange(2))
            w.xobj_p = 0.12
            if k2 is None:
                return
        if rng.random() < 0.25:
            w.grow(rng.randrange(2))
        if rng.random() < 0.35:
            # objects that later constructions may take as input (aliases, foreign objects, nested xobject values) change in between
            if w.set(rng.choice(list(w.handles)), allow=("null", "alias", "new")) is False and w.steps[-1].get("exc"):
                return


def prog_set(w, rng, refs=True, allow=("null", "alias", "new", "foreign")):
    """C10 / C03 / C06 / C08: constructions followed by fitting assignments through random routes, interleaved with growth"""
    keys = []
    for n in range(rng.randint(1, 3)):
        if n == 0 and w.index % 3 == 0:
            k = w.new(sweep_type(w.index // 3, rng)[0], rng.randrange(2), mindim=2)
        else:
            k = w.new(pick_type(rng, refs), rng.randrange(2), allow=allow)
        if k is None:
            return
        keys.append(k)
    for _ in range(rng.randint(2, 7)):
        x = rng.random()
        if x < 0.15:
            w.grow(rng.randrange(2))
        else:
            key = rng.choice(list(w.handles))
            if x > 0.85:                # the whole object, in place, through whichever handle is retained
                r = w.update(key, allow=allow)
                if r is not None:
                    if r is False and w.steps[-1]["op"] == "set" and w.steps[-1]["exc"]:
                        return
                    continue
            if w.set(key, allow=allow) is False and w.steps[-1]["op"] == "set" and w.steps[-1]["exc"]:
                return


def prog_copy(w, rng):
    """C09: copy-construction into the same buffer, another buffer, another context, then writes on either side"""
    keys = []
    for _ in range(rng.randint(1, 2)):
        tx = pick_type(rng, True)
        if rng.random() < 0.6:          # copies are only interesting where they are not a plain byte copy: types holding references
            for _ in range(20):
                if X.has_refs(tx):
                    break
                tx = pick_type(rng, True)
        k = w.new(tx, rng.randrange(2))
        if k is None:
            return
        keys.append(k)
    for _ in range(rng.randint(1, 3)):
        src = rng.choice(list(w.handles))
        w.last_copied_part = None
        nk = w.copy(src, rng.randrange(len(w.bufs)))
        if nk is None:
            return
        if w.last_copied_part is not None and rng.random() < 0.6:
            # the part the copy was made from is then assigned a new value of fitting size as a whole
            pk, accp = w.last_copied_part
            if w.set(pk, target=accp, no_from=rng.random() < 0.7) is False and w.steps[-1].get("exc"):
                return
        for _ in range(rng.randint(0, 3)):
            side = rng.choice([src, nk])
            if rng.random() < 0.25:     # either side as a whole, in place: the other side (and whatever it shares in Python) is unaffected
                r = w.update(side, allow=("null", "alias", "new"))
                if r is not None:
                    if r is False and w.steps[-1].get("exc"):
                        return
                    continue
            if w.set(side, allow=("null", "alias", "new")) is False and w.steps[-1].get("exc"):
                return


def prog_intlen(w, rng):
    """C11 / C03: arrays with exactly ONE dynamic dimension (2-D and 3-D, every position of that dimension, scalar and struct
    items, stand-alone and as a field), with live neighbours; then the integer (length) form with a number other than the
    stored extent of that dimension - the total number of items above all - which must be refused and change nothing"""
    i = w.index
    nd = 2 + (i % 2)
    dynax = (i // 2) % nd
    ext = [rng.choice([2, 3]) for _ in range(nd)]
    sh = [(-1 if a == dynax else ext[a]) for a in range(nd)]
    order = list(range(nd))
    if (i // 6) % 2:
        rng.shuffle(order)
    it = [X.sc(rng.choice(list(X.KINDS))), X.struct(X.sc("Int8"), X.sc("Float64"))][(i // 12) % 2]
    tx = X.arr(it, sh, order)
    if (i // 24) % 2:
        tx = X.struct(X.sc("Int16"), tx, X.arr(X.sc("Int64"), [2]))
    b = rng.randrange(2)
    if w.new(tx, b, mindim=2) is None or w.new(pick_type(rng, False), b, mindim=1) is None:
        return
    for _ in range(3):
        if not w.err("array-length", force="int"):
            break


ERR_KINDS = ["index-get", "index-set", "array-length", "string-too-long", "item-too-large", "struct-other-shape", "union-non-member", "wrong-context", "offset-without-buffer"]


def prog_bylen(w, rng):
    """C03 / C01 / C05: arrays built BY LENGTH (the dimensions form), systematically: every length 0, 1, 2 x item kind (scalar, static
    struct, static array of scalars) x 1-D / 2-D with one dynamic dimension x stand-alone in a hole between live neighbours / as the
    LAST dynamic field of a struct.  The reserved extent of a length-0 array is its header only: nothing may be written behind it"""
    i = w.index
    ext = i % 3
    itk = (i // 3) % 3
    nd = 1 + (i // 9) % 2
    infield = (i // 18) % 2 == 1
    leaf = X.sc(rng.choice(["Int8", "Int16", "Float32", "Float64", "UInt64"]))
    it = [leaf, X.struct(X.sc("Int16"), X.sc("Float64"), X.arr(X.sc("UInt8"), [3])), X.arr(X.sc(rng.choice(["Float64", "Int32", "Int8"])), [rng.choice([2, 3])])][itk]
    sh = [-1] if nd == 1 else rng.choice([[-1, 2], [3, -1]])
    atx = dict(X.arr(it, [2] * nd), sh=sh, ord=list(range(nd)))
    tx = X.struct(X.sc("Int32"), X.arr(X.sc("Int16"), [-1]), atx) if infield else atx
    b = rng.randrange(2)
    # a hole of used memory exactly in front of a live object: the new array (placed first-fit) lands in it when it fits
    buf = w.bufs[b]
    try:
        hsize = rng.choice([16, 24, 40, 64])
        hoff = int(buf.allocate(hsize, align=False))
        buf.update_from_buffer(hoff, bytes([0x6B]) * hsize)
    except Exception:       # noqa
        return
    w.record("noise", reads=False)
    if w.new(pick_type(rng, False), b, placement="packed") is None:
        return
    buf.free(hoff, hsize)
    w.prog.append(f"hole b={b} {hoff}+{hsize}")
    w.record("noise", reads=False)
    w.force_ext, w.capacity_p = ext, 0
    try:
        k = w.new(tx, b, placement=rng.choice(["packed", "default"]), dims_p=1.0, np_forms=False, allow=("null",))
    finally:
        w.force_ext = None
    if k is None:
        return
    for _ in range(rng.randint(0, 2)):
        if w.set(rng.choice(list(w.handles)), allow=("null",)) is False and w.steps[-1].get("exc"):
            return


def prog_npindex(w, rng):
    """C10 / C03: arrays long enough that index x stride leaves the range of a one-byte integer, assigned item by item with indices
    given as NumPy integers of every width that holds them (np.uint8(40) on Int64[50])"""
    i = w.index
    leaf = X.sc(rng.choice(["Int64", "Float64", "Float32", "UInt16", "Int8"]))
    form = i % 4
    if form == 0:
        tx, kw = X.arr(leaf, [rng.choice([33, 40, 50])]), {}
    elif form == 1:
        tx, kw = X.arr(leaf, [-1]), dict(mindim=rng.choice([34, 41]), maxdim=1)
    elif form == 2:
        tx, kw = X.arr(leaf, [rng.choice([5, 6]), rng.choice([7, 9])], rng.choice([[0, 1], [1, 0]])), {}
    else:
        tx, kw = X.struct(X.sc("Int16"), X.arr(leaf, [36])), {}
    b = rng.randrange(2)
    if rng.random() < 0.5:
        w.wedge(b)
    k = w.new(tx, b, dims_p=0, **kw)
    if k is None or w.new(pick_type(rng, False), b) is None:
        return
    w.npidx_p = 1.0
    atx = tx if tx["k"] == "arr" else tx["f"][1]
    sh = w.shadow[k]["sh"] if tx["k"] == "arr" else w.shadow[k][1]["sh"]
    for _ in range(rng.randint(3, 6)):
        idx = [rng.randrange(max(0, d - 8), d) if rng.random() < 0.7 else rng.randrange(d) for d in sh]
        steps = ([] if tx["k"] == "arr" else [("f", 1)]) + [("i", idx)]
        if w.set(k, target=steps, no_from=True, allow=("null",)) is False and w.steps[-1].get("exc"):
            return


def prog_large(w, rng):
    """C09 (thorough tier): a reference-free object LARGER THAN 64 KiB copied into a buffer of another context (and of the same one) at
    an offset that differs from the source's, then written on either side - whatever block size a transfer is staged in"""
    w.big_ok, w.capacity_p = True, 0
    w.ns.max_items = 20000
    n = rng.choice([8200, 8300, 9000])
    F64 = X.sc("Float64")
    tx = X.arr(F64, [-1]) if rng.random() < 0.6 else X.struct(X.sc("Int32"), X.arr(F64, [-1]), X.sc("Int8"))
    if w.new(X.arr(X.sc("Int16"), [rng.choice([3, 5, 9])]), 0, dims_p=0) is None:      # the source does not start at offset 0
        return
    k = w.new(tx, 0, mindim=n, maxdim=1, placement="default", dims_p=0)
    if k is None:
        return
    for db in [2]:
        w.wedge(db)
        nk = w.copy(k, db, whole=True)
        if nk is None:
            return
        for side in (nk, k):
            if w.set(side, allow=("null",), no_from=True) is False and w.steps[-1].get("exc"):
                return


def prog_err(w, rng):
    """C11: objects with live neighbours, then operations that cannot be honoured (each must raise and change no value)"""
    w.capacity_p = 0.4          # strings whose capacity was given explicitly (not a multiple of 8) are where "fits" is subtle
    for n in range(rng.randint(2, 4)):
        if n == 0 and w.index % 4 == 0:
            k = w.new(sweep_type(w.index // 4, rng)[0], rng.randrange(2), mindim=1)
        else:
            k = w.new(pick_type(rng, True), rng.randrange(2), mindim=1)
        if k is None:
            return
    kinds = list(ERR_KINDS)
    rng.shuffle(kinds)
    done = 0
    for kind in kinds:
        if w.err(kind):
            done += 1
        if done >= 4:
            break


def prog_refs(w, rng):
    """C08: the eight events of the property: construct, bind to existing / value / foreign object / null, write through the
    reference, write through the original, allocate until growth"""
    for _ in range(30):
        tx = pick_type(rng, True)
        if X.has_refs(tx):
            break
    b = rng.randrange(2)
    # candidate referents first, in the holder's buffer and in others (empty arrays included)
    targets = []

    def collect(t):
        if t["k"] == "ref":
            targets.append(t["to"]); collect(t["to"])
        elif t["k"] == "uref":
            for m in t["of"]:
                targets.append(m); collect(m)
        elif t["k"] == "struct":
            for f in t["f"]:
                collect(f)
        elif t["k"] == "arr":
            collect(t["it"])
    collect(tx)
    rng.shuffle(targets)
    for t in targets[:3]:
        if w.new(t, b if rng.random() < 0.7 else rng.randrange(len(w.bufs)), allow=("null", "new"), maxdim=rng.choice([0, 1, 3])) is None:
            return
    if w.new(tx, b) is None:
        return
    for _ in range(rng.randint(3, 8)):
        x = rng.random()
        if x < 0.2:
            w.grow(b)
        else:
            key = rng.choice(list(w.handles))
            if w.set(key, want="ref") is False and w.steps[-1]["op"] == "set" and w.steps[-1]["exc"]:
                return


def prog_pickle(w, rng):
    """C20: objects (structs, arrays, hybrid objects; with references; several per buffer, several buffers) pickled together,
    then reads, writes and allocations on both sides"""
    keys = []
    if w.index % 50 == 7:
        # the ordinary life of a context: a kernel was compiled and called in it before its objects are pickled
        w.compile_kernel(rng.randrange(2))
    for n in range(rng.randint(1, 4)):
        b = rng.randrange(2)
        if rng.random() < 0.35:
            for _ in range(10):
                tx = pick_type(rng, True)
                if tx["k"] == "struct" and tx["f"]:
                    break
            else:
                tx = SUITE[1]
            k = w.new_hybrid(tx, b)
            if k is None and w.steps[-1]["op"] == "rejected":
                return
            if k is None:
                k = w.new(tx, b)
        else:
            k = w.new(pick_type(rng, True), b)
        if k is None:
            return
        keys.append(k)
    pair = []
    if rng.random() < 0.3:
        # a hybrid object that another hybrid object refers to (the DRESSED object was given as the referent), both in the group
        b = rng.randrange(2)
        ltx = rng.choice([X.struct(F64, I8, I16), X.struct(I8, X.STR, F64), X.struct(I64, X.arr(F64, [-1]))])
        kl = w.new_hybrid(ltx, b)
        if kl is not None:
            w.forced = [("alias", kl[1], 0, w.handles[kl]["hybrid"])]
            kh = w.new_hybrid(X.struct(I8, X.ref(ltx), X.STR, I64), b)
            w.forced = None
            if kh is None:
                return
            pair = [kh, kl] if rng.random() < 0.5 else [kl, kh]
            keys += pair
    group = [k for k in keys if k in pair or rng.random() < 0.8] or keys[:1]
    if rng.random() < 0.3:       # referents may be pickled as members of the group as well
        extra = [k for k in w.handles if k not in group and rng.random() < 0.3]
        group += extra
    twins = w.pickle(group)
    if not twins:
        return
    again = rng.random() < 0.4
    for step in range(rng.randint(2, 6)):
        if again and step == 2:
            # the same objects (now changed) - or their unpickled twins - go through pickle once more while the first copies are
            # still in use: the new copies hold the CURRENT values and are independent of everything that exists
            more = w.pickle(group if rng.random() < 0.6 else twins)
            if not more:
                return
            twins = twins + more
        x = rng.random()
        side = rng.choice(group + twins)
        if x < 0.55:
            if w.set(side, allow=("null", "alias", "new")) is False and w.steps[-1].get("exc"):
                return
        elif x < 0.8:
            if w.new(pick_type(rng, False), rng.choice(twins)[0]) is None:      # the unpickled buffer is still a working allocator
                return
        else:
            w.grow(rng.choice(twins)[0])


def prog_repeat(w, rng):
    """C01 / C08: the same kind of object is built repeatedly from the same input objects (existing objects of the holder's
    buffer, objects of another buffer) while those input objects change in between: every construction must reflect the
    input as it is at that moment"""
    for _ in range(30):
        tx = pick_type(rng, True)
        if X.has_refs(tx):
            break
    else:
        return
    targets = []

    def collect(t):
        if t["k"] == "ref":
            targets.append(t["to"])
        elif t["k"] == "uref":
            targets.extend(t["of"])
        elif t["k"] == "struct":
            for f in t["f"]:
                collect(f)
        elif t["k"] == "arr":
            collect(t["it"])
    collect(tx)
    b = rng.randrange(2)
    cands = []
    for t in targets[:2]:
        for bb in (b, 1 - b):
            k = w.new(t, bb, allow=("null", "new"))
            if k is None:
                return
            cands.append(k)
    for n in range(rng.randint(2, 3)):
        if w.new(tx, b, allow=("alias", "foreign", "foreign", "new", "null")) is None:
            return
        for _ in range(rng.randint(1, 2)):
            if w.set(rng.choice(cands), allow=("null", "new")) is False and w.steps[-1].get("exc"):
                return


_TABLES = [X.struct(I64, X.arr(X.arr(F64, [-1]), [-1])), X.struct(X.arr(X.STR, [-1]), I8),
           X.arr(X.arr(X.arr(I16, [-1]), [-1]), [2]), X.struct(I8, X.arr(X.struct(I8, X.STR), [-1, 2], [1, 0])),
           X.arr(X.struct(X.arr(X.STR, [-1]), F64), [-1])]


def prog_view_copy(w, rng):
    """C06 / C09: a handle obtained by copy-constructing from a VIEW (a nested part handed out by the library) must behave like
    any other handle while the part it was copied from is later assigned new values of fitting size (item sizes redistributed)"""
    tx = rng.choice(_TABLES) if rng.random() < 0.7 else pick_type(rng, False)
    k = w.new(tx, rng.randrange(2), mindim=2)
    if k is None:
        return
    for _ in range(rng.randint(1, 2)):
        w.last_copied_part = None
        nk = None
        for _try in range(6):
            nk = w.copy(k, rng.randrange(len(w.bufs)))
            if nk is None:
                return
            if w.last_copied_part is not None:
                break
        if w.last_copied_part is None:
            return
        pk, accp = w.last_copied_part
        for _ in range(rng.randint(1, 3)):
            x = rng.random()
            if x < 0.6:
                ok = w.set(pk, target=accp, no_from=rng.random() < 0.8)
            elif x < 0.8:
                ok = w.set(nk)
            else:
                w.grow(rng.choice([pk[0], nk[0]]))
                ok = True
            if ok is False and w.steps[-1].get("exc"):
                return


_DEFAULTED = [
    X.arr(X.struct(X.ref(X.arr(F64, [3])), I16), [-1]),
    X.struct(I8, X.arr(X.struct(X.ref(X.arr(I16, [2])), F64), [-1, 2])),
    X.arr(X.struct(I64, X.arr(F64, [2]), I8), [-1]),
    X.struct(X.arr(X.struct(I16, X.ref(X.arr(F64, [3])), X.struct(I8, F64)), [-1]), X.STR),
    X.struct(I64, X.arr(F64, [3]), X.ref(X.arr(F64, [3])), X.STR, X.struct(I8, X.arr(I16, [2]))),
]


def prog_defaults(w, rng):
    """C01 / C05 / C03: struct classes with DECLARED defaults (xo.Field(type, default=...): scalars, static arrays, referents
    built from default data); objects built from dictionaries that leave fields out, and arrays of structs built by length
    (every item the default item, each with referents of its own), on used memory and next to live neighbours"""
    w.ns.with_defaults = True
    w.ns.no_default_p = 0.2
    w.omit_p = 0.3
    for n in range(rng.randint(2, 4)):
        tx = rng.choice(_DEFAULTED)
        k = w.new(tx, rng.randrange(2), dims_p=0.6 if n % 2 == 0 else 0.0, mindim=2)
        if k is None:
            return
        if rng.random() < 0.4:
            if w.set(rng.choice(list(w.handles)), allow=("null", "alias", "new")) is False and w.steps[-1].get("exc"):
                return


_MULTI = [
    X.struct(I64, X.arr(F64, [-1]), X.arr(F64, [-1]), X.STR, X.STR),
    X.struct(X.arr(X.STR, [-1]), I8, X.arr(X.STR, [-1])),
    X.struct(X.arr(I8, [-1]), X.arr(I8, [-1]), X.arr(I8, [-1])),
    X.arr(X.arr(I16, [-1]), [-1]),
    X.arr(X.struct(X.STR, X.STR, I8), [2]),
    X.struct(I8, X.struct(X.arr(F64, [-1]), X.arr(F64, [-1])), X.arr(X.arr(I8, [-1]), [-1])),
]


def prog_update(w, rng):
    """C06 / C09 / C10: an object, copies constructed from it (handles that were built from one another), then whole-object
    in-place updates of one of them through a retained handle with values of the same size whose dynamic parts are
    distributed differently; every other object, through every retained handle, is unaffected"""
    tx = rng.choice(_MULTI) if rng.random() < 0.8 else pick_type(rng, False)
    k = w.new(tx, rng.randrange(2), mindim=1)
    if k is None:
        return
    group = [k]
    for _ in range(rng.randint(1, 2)):
        nk = w.copy(rng.choice(group), rng.randrange(len(w.bufs)), whole=True)
        if nk is None:
            return
        group.append(nk)
    for _ in range(rng.randint(2, 5)):
        side = rng.choice(group)
        if rng.random() < 0.7:
            r = w.update(side, allow=("null", "alias", "new"), from_p=0.8)
            if r is not None:
                if r is False and w.steps[-1].get("exc"):
                    return
                continue
        if w.set(side, allow=("null", "alias", "new")) is False and w.steps[-1].get("exc"):
            return


PROGRAMS = {
    "C01": lambda w, rng: (prog_bylen if rng.random() < 0.04 else prog_defaults if rng.random() < 0.08 else prog_repeat if rng.random() < 0.2 else prog_construct)(w, rng),
    # copy-construction writes objects too; so do assignments - and an assignment that must be refused but is carried out may leave bytes
    # that are no longer an object of the format (a text without room for its NUL): the fmt:/decode: clauses of set and err steps are C05's
    "C05": lambda w, rng: (prog_defaults if rng.random() < 0.08 else prog_err if rng.random() < 0.1 else prog_set if rng.random() < 0.15
                           else prog_construct if rng.random() < 0.6 else prog_copy)(w, rng),
    "C03": lambda w, rng: (prog_npindex if rng.random() < 0.03 else prog_bylen if rng.random() < 0.07 else prog_intlen if rng.random() < 0.06 else prog_err if rng.random() < 0.1 else prog_copy if rng.random() < 0.3 else (prog_construct if rng.random() < 0.4 else prog_set))(w, rng),
    "C06": lambda w, rng: (prog_construct if rng.random() < 0.2 else (prog_view_copy if rng.random() < 0.2 else (prog_update if rng.random() < 0.2 else (prog_set if rng.random() < 0.6 else prog_copy))))(w, rng),
    "C10": lambda w, rng: (prog_npindex if rng.random() < 0.05 else prog_update if rng.random() < 0.1 else prog_set)(w, rng),
    "C08": lambda w, rng: (prog_repeat if rng.random() < 0.15 else (prog_copy if rng.random() < 0.15 else prog_refs))(w, rng),
    "C11": lambda w, rng: (prog_intlen if rng.random() < 0.06 else prog_err)(w, rng),
    "C20": prog_pickle,
    "C09": lambda w, rng: (prog_view_copy if rng.random() < 0.15 else (prog_update if rng.random() < 0.12 else prog_copy))(w, rng),
}
COUNTS = {"quick": 500, "thorough": 8000}


def make_history(pid, seed, index):
    rng = random.Random(f"{seed}:{pid}:{index}")
    w = World(rng)
    w.index = index
    w.ns.with_defaults = (index % 4 == 3)       # a quarter of the histories declare defaults (xo.Field(type, default=...)) on their struct classes
    w.ns.default_seed = index
    if index % 5 == 2 and pid != "C20":
        # array classes carry the names the library gives them (item type and shape, NOT the axis order): an xobject of a namesake
        # class (same item type and shape, another order) is then a source whose class NAME equals the destination's
        w.ns.native_arrays = "first"
    stopped = ""
    try:
        if pid == "C09" and index >= COUNTS["quick"] and index % 1250 == 3:
            prog_large(w, rng)          # (indices beyond the quick tier's: 6 histories of the thorough tier)
        else:
            PROGRAMS[pid](w, rng)
    except C.MachineryError:
        raise
    except Exception as ex:      # noqa: the harness bookkeeping lost track (expected only after the library misbehaved): the steps
        import traceback         # recorded so far are still judged by TLC; unexplained stops are a machinery failure (see check)
        stopped = type(ex).__name__ + ": " + str(ex)[:200] + " @ " + traceback.format_exc().strip().splitlines()[-3].strip()[:160]
    h = w.history()
    h["harness_stopped"] = stopped
    h["prog"] = w.prog
    h["gen"] = dict(pid=pid, seed=seed, index=index)
    return h


# ----------------------------------------------------------------------------- TLC validation
CFG = "SPECIFICATION TraceSpec\nCHECK_DEADLOCK FALSE\n"


def to_tlc(h):
    steps = []
    for e in h["steps"]:
        if e["op"] == "rejected":
            e = dict(e, op="noise")
        steps.append(e)
    return dict(nbuf=h["nbuf"], steps=steps)


def validate(hists, nbatch=None):
    """-> list of (failing step index (1-based) or 0, [clauses]) per history, plus TLC counters"""
    if not hists:
        return [], dict(generated=0, distinct=0)
    nbatch = nbatch or max(min(C.NCPU, max(1, len(hists) // 8)), (len(hists) + 59) // 60)      # <= 60 histories per TLC process
    size = (len(hists) + nbatch - 1) // nbatch
    batches = [hists[i:i + size] for i in range(0, len(hists), size)]
    out = [None] * len(hists)
    tot = dict(generated=0, distinct=0)

    def one(bi):
        wd = C.scratch("hp")
        path = os.path.join(wd, "trace.json")
        json.dump([to_tlc(h) for h in batches[bi]], open(path, "w"))
        open(os.path.join(wd, "tr.cfg"), "w").write(CFG)
        res = C.run_tlc("XoHeapTrace", "tr.cfg", workdir=wd, workers=1, timeout=3000, env={"TRACE_FILE": path})
        if res["wall"] > 60 and os.environ.get("VERIF_DEBUG"):
            print(f"SLOW batch {bi}: {res['wall']:.0f}s", [h.get("gen") for h in batches[bi]][:3], flush=True)
        vs = C.tlc_tuples(res["out"], "VERDICT")
        if res["rc"] != 0 or len(vs) != len(batches[bi]):
            keep = os.path.join(C.OUT, f"tlc_failure_{os.getpid()}_{bi}")
            shutil.rmtree(keep, ignore_errors=True)
            shutil.copytree(wd, keep)
            raise C.MachineryError(f"heap trace validation batch {bi}: rc={res['rc']} verdicts={len(vs)}/{len(batches[bi])} (kept {keep})\n" + res["out"][-3000:])
        shutil.rmtree(wd, ignore_errors=True)
        return bi, vs, res

    with ThreadPoolExecutor(max_workers=C.NCPU) as ex:
        for bi, vs, res in ex.map(one, range(len(batches))):
            for v in vs:
                cl = [c for c in str(v[3]).split(";") if c]
                out[bi * size + v[1] - 1] = (v[2] if cl else 0, cl)
            tot["generated"] += res["generated"]
            tot["distinct"] += res["distinct"]
    return out, tot


def exc_sig(exc):
    """exception type + the last alphabetic words of its message (values stripped): stable classification"""
    import re
    typ, _, msg = exc.partition(":")
    words = [w for w in re.findall(r"[A-Za-z_]+", msg.split("]")[-1])][-3:]
    return typ + ":" + "-".join(words)


def shape_class(tx):
    """coarse classification of a type for failure keys"""
    k = tx["k"]
    if k == "sc":
        return "sc"
    if k == "str":
        return "str"
    if k == "struct":
        return "struct" + ("-dyn" if not X.is_static(tx) else "") + ("-refs" if X.has_refs(tx) else "")
    if k == "arr":
        nd = len(tx["sh"])
        c_order = tx["ord"] == list(range(nd))
        return f"arr{nd}d" + ("" if c_order else "-nonC") + ("-dynshape" if any(d < 0 for d in tx["sh"]) else "") + \
            ("-dynitem" if not X.is_static(tx["it"]) else "") + ("-refs" if X.has_refs(tx) else "")
    return k


def step_subject(h, e):
    """the type the failing step was about"""
    if e["op"] == "new":
        return e["t"]
    return None


# ----------------------------------------------------------------------------- the check
def hybrid_copies(run):
    """C09 names HybridClass.copy() as well: the copy transitions of the hybrid-object model (spec/XoHybrid.tla, engine
    vlib/hybrid.py: every history TLC enumerates is replayed on the real library) are judged here too; what fails at a
    copy step there (value, ownership of the nested and referred-to objects, independence of later writes) is a C09 violation"""
    import subprocess, sys
    t1 = time.time()
    d = os.path.join(run.tmp, "hybrid")
    env = dict(os.environ, VERIF_EVIDENCE_DIR=os.path.join(d, "evidence"), VERIF_OUT_DIR=os.path.join(d, "out"), VERIF_SEED=str(run.seed))
    p = subprocess.run([sys.executable, "-m", "vlib.main", "C18", "--tier", "quick"], cwd=C.VERIF, env=env, capture_output=True, text=True, timeout=3000)
    if p.returncode not in (0, 1):
        raise C.MachineryError("hybrid-object engine failed:\n" + (p.stdout + p.stderr)[-3000:])
    n = 0
    for ln in p.stdout.splitlines():
        m = re.match(r"VIOLATION property=C18 replay=(\S+) key=(copy:\S+)", ln)
        if m:
            rec = json.load(open(m.group(1)))
            run.report("hybrid-" + m.group(2), rec["desc"], dict(engine="hybrid", **rec["replay"]))
            n += 1
    try:
        ev = json.load(open(os.path.join(d, "evidence", "C18.json")))
        run.notes["hybrid_copy"] = dict(replayed_transitions=ev["coverage"].get("traces_validated_against_impl"), copy_violations=n, wall=round(time.time() - t1, 1))
        run.cov["traces_validated_against_impl"] += ev["coverage"].get("traces_validated_against_impl", 0)
    except Exception:       # noqa
        pass


def check(pid, argv=None):
    run = C.Run(pid, argv)
    run.assumptions += [
        "spec/XoLayout.tla transcribes Architecture.md + docs/architecture/types.rst + property C05 (relative references)",
        "byte diffs, allocate/free logs and the accessor read-backs are recorded faithfully by the harness (vlib/world.py)",
        "numeric/UTF-8 encodings are NumPy's/Python's: values are compared as byte strings",
        "64-bit words are decoded by TLC only within +-2^23 (model-sized buffers)"]
    if run.replay and json.load(open(run.replay))["replay"].get("engine") == "hybrid":
        from . import hybrid
        rp = json.load(open(run.replay))["replay"]
        C.use_repo()
        r = hybrid.replay_group(rp["init"], rp["variant"], rp["hist"], rp["cmd"], [tuple(a) for a in rp["alts"]])
        run.cov["traces_validated_against_impl"] = 1
        for key, desc in r["findings"]:
            if key.startswith("copy:"):
                run.report("hybrid-" + key, desc, rp)
        run.finish()
    if run.replay and "place" in json.load(open(run.replay))["replay"]:
        from . import place
        place.replay(run, pid, json.load(open(run.replay))["replay"]["place"])
        run.cov["traces_validated_against_impl"] = 1
        run.finish()
    if run.replay and json.load(open(run.replay))["replay"].get("engine") == "handles":
        from . import handlemc
        handlemc.replay_one(run, json.load(open(run.replay))["replay"])
        run.cov["traces_validated_against_impl"] = 1
        run.finish()
    if run.replay and "world" in json.load(open(run.replay))["replay"] and pid == "C08":
        from . import capi
        capi.refs_part(run)
        run.finish()
    if run.replay:
        g = json.load(open(run.replay))["replay"]["gen"]
        if g.get("kind") == "model":
            from . import heapgen
            hists = [heapgen.replay(g["model"], g["seed"], g["index"])]
        else:
            hists = [make_history(g["pid"], g["seed"], g["index"])]
    else:
        if pid in ("C01", "C11"):
            from . import place
            t1 = time.time()
            place.model_level(run, pid)         # the placement decision table (spec/XoPlace.tla): every _context/_buffer/_offset combination
            run.notes["t_placement_table"] = round(time.time() - t1, 1)
        if pid in ("C05", "C03"):
            from . import layoutmc
            t1 = time.time()
            layoutmc.model_level(run, pid)
            run.notes["t_model_level"] = round(time.time() - t1, 1)
        if pid == "C05":
            from . import observe
            t1 = time.time()
            observe.observe(run)
            run.notes["t_observe_repo_tests"] = round(time.time() - t1, 1)
        if pid == "C06":
            from . import handlemc
            t1 = time.time()
            handlemc.model_level(run)
            run.notes["t_handle_model"] = round(time.time() - t1, 1)
        if pid == "C08":
            from . import capi
            t1 = time.time()
            capi.refs_part(run)
            run.notes["t_c_accessors_of_references"] = round(time.time() - t1, 1)
        if pid == "C09":
            hybrid_copies(run)
            # the handle-cache model (spec/XoHandle.tla) for histories with copy-constructed handles: a write to either side of
            # a copy that shows through the other side's handle is C09's as well (the stale-handle finding itself is C06's)
            from . import handlemc
            t1 = time.time()
            handlemc.model_level(run, only=lambda key, m: key != handlemc.KNOWN_KEY and any(e["op"] == "copynew" for e in m["hist"]))
            run.notes["t_handle_model"] = round(time.time() - t1, 1)
        n = COUNTS[run.tier]
        t1 = time.time()
        with C.memory_guard():
            hists = [make_history(pid, run.seed, i) for i in range(n)]
        if pid in ("C08", "C09", "C10"):
            # spec -> code: every history TLC enumerates over the reference-graph model (a sample of them in this tier)
            from . import heapgen
            models, res = heapgen.export(run)
            rng = random.Random(run.seed * 31 + 5)
            want = {"C08": ("bind", "newholder", "writeref", "writeorig", "grow", "copy"), "C09": ("copy",), "C10": ("setplain", "writeorig", "writeref", "grow")}[pid]
            relevant = [m for m in models if sum(1 for ev in m["hist"] if ev["op"] in want) >= (2 if pid == "C08" else 1)]
            rng.shuffle(relevant)
            take = relevant[:heapgen.TIERS[run.tier]["sample"]]
            with C.memory_guard():
                gh = [heapgen.replay(m, run.seed, i) for i, m in enumerate(take)]
            run.notes["model_histories"] = dict(enumerated_by_tlc=len(models), relevant=len(relevant), replayed=len(gh),
                                                followed_to_the_end=sum(1 for h in gh if h["followed"]),
                                                graph_mismatch=sum(1 for h in gh if h["graph_mismatch"]))
            for h in gh:
                if h["graph_mismatch"]:
                    run.notes.setdefault("graph_mismatch_example", h["graph_mismatch"] + " :: " + str(h["prog"])[:300])
            hists += gh
        run.notes["t_execute"] = round(time.time() - t1, 1)
    t1 = time.time()
    verdicts, tot = validate(hists)
    run.notes["t_validate"] = round(time.time() - t1, 1)
    run.cov["states"] += tot["distinct"]
    run.cov["transitions"] += tot["generated"]
    run.cov["traces_validated_against_impl"] += len(hists)
    ops = collections.Counter()
    abandoned = collections.Counter()
    steps_ok = 0
    for h, (pos, clauses) in zip(hists, verdicts):
        if h.get("harness_stopped"):
            run.count("harness_stopped_after_library_misbehaved" if pos else "harness_stopped_unexplained")
            if not pos:
                raise C.MachineryError(f"the harness lost track of history {h['gen']} although TLC accepts every recorded step: {h['harness_stopped']}; program {h['prog']}")
        nsteps = len(h["steps"]) if pos == 0 else pos - 1
        steps_ok += nsteps
        for e in h["steps"][:nsteps]:
            ops[e["op"]] += 1
        last = h["steps"][-1]
        if last["op"] == "rejected" and pid == "C01" and pos == 0:
            key = f"new:rejected-accepted-form:{last['form']}:{exc_sig(last['exc'])}"
            run.report(key, f"constructor refused an accepted input form: {h['prog'][-1]}", dict(gen=h["gen"], prog=h["prog"]))
        elif last["op"] == "rejected":
            run.count("rejected_input")
        if pos == 0:
            continue
        e = h["steps"][pos - 1]
        mine = [c for c in clauses if pid in owners(e["op"], c, e)]
        for c in clauses:
            if pid not in owners(e["op"], c, e):
                abandoned[owner(e["op"], c) + ":" + c] += 1
        if mine:
            sub = step_subject(h, e)
            key = f"{e['op']}:{mine[0]}" + (f":{e.get('form')}" if e.get("form") else "")
            if e["op"] == "err":
                key = f"err:{e['kind']}:{e.get('tag', '')}:{mine[0].split(':', 1)[1]}"
            desc = f"history {h['gen']['index']} step {pos} ({e['op']}): clauses {clauses}; program: {h['prog']}"
            run.report(key, desc, dict(gen=h["gen"], prog=h["prog"], failing_step=pos, clauses=clauses))
    run.notes["steps_validated"] = steps_ok
    run.notes["ops_validated"] = dict(ops)
    run.notes["abandoned_precondition"] = dict(abandoned)
    for h in hists[:3]:
        run.sample(dict(program=h["prog"]))
    run.cov["exhaustive"] = False
    run.finish()
