"""Model-level check of the documented format (spec/XoEncode.tla, MC_XoEncode.tla) and its spec -> code replay.

TLC enumerates a bounded type grammar and checks, for a canonical value of every type, that the image prescribed by
the documentation is well formed, decodes to the value and has the planned size (the format is self-consistent), and
exports (type, value, image).  Every exported case whose image is fully determined by the format is then built with
the REAL library in an exactly sized poisoned buffer and compared byte by byte at every specified position.
As a vacuity self-test the same instance is run with a deliberately wrong writer (index-order tables): TLC must reject it.
"""
import json, os, shutil, itertools
from concurrent.futures import ThreadPoolExecutor
import numpy as np
from . import common as C
from . import xtypes as X
from .world import buffer_classes

CFG = """SPECIFICATION Spec
CONSTANTS Depth = {depth} MaxFields = {nf} MaxNd = {nd} StaticDims = {{2}} DynExt = {{0, 1, 2}} Widths = {{{widths}}}
          Parts = {parts} Part = {part} Export = {export} MemOrder = {memorder}
INVARIANT FormatConsistent
CHECK_DEADLOCK FALSE
"""
TIERS = {
    # (depth, max fields, max nd, widths, parts run / parts total)
    "quick": [dict(depth=1, nf=2, nd=3, widths="1, 8", parts=4, run=4),
              dict(depth=2, nf=2, nd=2, widths="8", parts=64, run=4)],
    "thorough": [dict(depth=1, nf=3, nd=3, widths="1, 2, 4, 8", parts=8, run=8),
                 dict(depth=2, nf=2, nd=2, widths="1, 8", parts=32, run=32)],
}
KIND = {1: ["Int8", "UInt8"], 2: ["Int16", "UInt16"], 4: ["Int32", "UInt32"], 8: ["Int64", "UInt64"]}


def _tlc(tag, cfg, workers=1):
    wd = C.scratch("enc")
    open(os.path.join(wd, tag + ".cfg"), "w").write(cfg)
    res = C.run_tlc("MC_XoEncode", tag + ".cfg", workdir=wd, workers=workers, timeout=3000)
    shutil.rmtree(wd, ignore_errors=True)
    return res


def with_kinds(t, counter):
    """TLA+ types carry widths only: give every scalar occurrence a NumPy integer kind of that width"""
    k = t["k"]
    if k == "sc":
        return {"k": "sc", "w": t["w"], "np": KIND[t["w"]][next(counter) % 2]}
    if k == "str":
        return {"k": "str"}
    if k == "struct":
        return {"k": "struct", "f": [with_kinds(f, counter) for f in t["f"]]}
    if k == "arr":
        return {"k": "arr", "it": with_kinds(t["it"], counter), "sh": list(t["sh"]), "ord": list(t["ord"])}
    if k == "ref":
        return {"k": "ref", "to": with_kinds(t["to"], counter)}
    return {"k": "uref", "of": [with_kinds(m, counter) for m in t["of"]]}


def to_py(ns, tx, v, use_np):
    k = tx["k"]
    if k == "sc":
        return np.frombuffer(bytes(v), dtype=tx["np"].lower())[0].item()
    if k == "str":
        return bytes(v).decode("ascii")
    if k == "struct":
        return {ns.fname(i): to_py(ns, f, v[i], use_np) for i, f in enumerate(tx["f"])}
    if k == "arr":
        sh = v["sh"]
        items = [to_py(ns, tx["it"], w, False) for w in v["it"]]
        if tx["it"]["k"] == "sc" and (use_np or (len(sh) > 1 and 0 in sh[:-1])):
            return np.array(items, dtype=tx["it"]["np"].lower()).reshape(sh)
        if len(sh) > 1 and (0 in sh[:-1] or not X.is_static(tx["it"])):
            o = np.empty(sh, dtype=object)
            for i, idx in enumerate(np.ndindex(*sh)):
                o[idx] = items[i]
            return o
        return X.nested(items, sh)
    return None


def sig(tx):
    k = tx["k"]
    if k in ("sc", "str", "ref", "uref"):
        return k
    if k == "struct":
        return "struct(" + ",".join(sorted(set(sig(f) for f in tx["f"]))) + ")"
    nd = len(tx["sh"])
    return f"arr{nd}d" + ("" if tx["ord"] == list(range(nd)) else "-nonC") + ("-dynshape" if any(d < 0 for d in tx["sh"]) else "") + "(" + sig(tx["it"]) + ")"


def model_level(run, pid):
    """runs the TLC instances, the self-test and the replay; reports C05 byte mismatches and C03 size mismatches"""
    jobs = []
    for inst in TIERS[run.tier]:
        for part in range(inst["run"]):
            jobs.append((f"d{inst['depth']}p{part}", CFG.format(depth=inst["depth"], nf=inst["nf"], nd=inst["nd"], widths=inst["widths"],
                                                                 parts=inst["parts"], part=part, export="TRUE", memorder="TRUE")))
    mutant = CFG.format(depth=1, nf=1, nd=2, widths="8", parts=1, part=0, export="FALSE", memorder="FALSE")
    cases, info = [], dict(instances=0, states=0)
    with ThreadPoolExecutor(max_workers=C.NCPU) as ex:
        fut_m = ex.submit(_tlc, "mutant", mutant)
        for res in ex.map(lambda j: _tlc(j[0], j[1]), jobs):
            if not res["ok"]:
                raise C.MachineryError("the documented format is not self-consistent according to TLC (specification error):\n" + res["out"][-3000:])
            run.add_tlc(res)
            info["instances"] += 1
            info["states"] += res["distinct"]
            for line in res["out"].splitlines():
                if line.startswith('"{'):
                    cases.append(json.loads(json.loads(line)))
        m = fut_m.result()
        if not m["violated"]:
            raise C.MachineryError("vacuity self-test failed: TLC accepted a writer that stores item tables in index order")
        info["mutant_rejected"] = True
    # ---- spec -> code
    C.use_repo()
    VNumpy, VByteArray = buffer_classes()
    import xobjects as xo
    ctxs = {VNumpy: xo.ContextCpu(), VByteArray: xo.ContextCpu()}
    ns = X.Namespace(prefix="E")
    counter = itertools.count(run.seed)
    compared, bykind = 0, {}
    for n, c in enumerate(cases):
        if c["t"]["k"] in ("sc", "ref", "uref"):
            continue            # not objects of their own (the theorem covers them as parts)
        tx = with_kinds(c["t"], counter)
        # re-encode scalar bytes are the same (the image does not depend on the kind)
        cls = ns.cls(tx)
        bcls = (VNumpy, VByteArray)[n % 2]
        buf = bcls(capacity=0, context=ctxs[bcls], default_alignment=1)
        py = to_py(ns, tx, c["v"], use_np=(n % 3 == 0))
        try:
            obj = cls(**py, _buffer=buf) if (tx["k"] == "struct" and n % 2) else cls(py, _buffer=buf)
        except Exception as ex:          # noqa
            if pid == "C05":
                run.report(f"encode:constructor-raised:{sig(tx)}:{type(ex).__name__}", f"{X.key(tx)[:300]} value {str(c['v'])[:200]}: {type(ex).__name__}: {str(ex)[:200]}",
                           dict(case=c))
            continue
        enc = c["enc"]
        real = buf.raw()
        off = int(obj._offset)
        compared += 1
        bykind[sig(tx)] = bykind.get(sig(tx), 0) + 1
        if pid == "C03" and (buf.capacity - off != len(enc)):
            run.report(f"encode:allocated-size:{sig(tx)}", f"{X.key(tx)[:300]}: the library reserved {buf.capacity - off} bytes, the documented format needs {len(enc)}", dict(case=c))
        if pid == "C05":
            bad = [i for i, b in enumerate(enc) if b >= 0 and (off + i >= len(real) or real[off + i] != b)]
            if bad:
                i = bad[0]
                run.report(f"encode:byte-mismatch:{sig(tx)}",
                           f"{X.key(tx)[:300]} value {str(c['v'])[:200]}: byte {i} of the image is {real[off + i] if off + i < len(real) else 'missing'}, the documented format prescribes {enc[i]} "
                           f"({len(bad)} specified bytes differ)", dict(case=c))
    info["cases_exported"] = len(cases)
    info["cases_compared_with_real_bytes"] = compared
    info["by_type_shape"] = dict(sorted(bykind.items(), key=lambda kv: -kv[1])[:25])
    run.notes["model_level_format"] = info
    run.cov["traces_validated_against_impl"] += compared
    if cases:
        run.sample(dict(model_case=dict(t=cases[0]["t"], v=cases[0]["v"], enc=cases[0]["enc"])))
