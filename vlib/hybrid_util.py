"""Helpers shared by the C18 (hybrid.py) and C19 (serial.py) engines: scalar kinds, concrete values for abstract
tokens, reading values back from dressed objects / xobjects, equality of read-back values."""
import numpy as np
from . import common as C

SCALARS = ["Int8", "UInt8", "Int16", "UInt16", "Int32", "UInt32", "Int64", "UInt64", "Float32", "Float64"]
_UNIQ = [0]


def uniq(prefix):
    _UNIQ[0] += 1
    return f"{prefix}{_UNIQ[0]}"


def xo():
    return C.use_repo()


def sc_value(kind, t):
    """concrete scalar for abstract token t (small non-negative int): exactly representable in every kind"""
    if kind.startswith("Float"):
        return float(t) + 0.5
    return int(t)


def str_value(t):
    return f"t{t}"          # <= 7 utf-8 bytes: every string of the harness occupies one 16-byte box


def arr_value(kind, shape, t):
    n = int(np.prod(shape))
    base = np.arange(n).reshape(shape) + int(t)
    dt = getattr(xo(), kind)._dtype
    if kind.startswith("Float"):
        return (base + 0.25).astype(dt)
    return base.astype(dt)


def as_np(x):
    """array-like read back from a dressed attribute (nplike view) or from an xobject (xo.Array)"""
    if hasattr(x, "to_nparray"):
        return np.array(x.to_nparray())
    return np.array(x)


def same_scalar(got, want):
    try:
        return bool(got == want) and not isinstance(got, (str, bytes))
    except Exception:
        return False


def same_array(got, want):
    try:
        g, w = as_np(got), np.asarray(want)
        return g.shape == w.shape and bool(np.all(g == w))
    except Exception:
        return False


def short(x):
    try:
        if hasattr(x, "to_nparray") or isinstance(x, np.ndarray):
            return as_np(x).tolist()
        if isinstance(x, np.generic):
            return x.item()
    except Exception:
        pass
    try:
        r = repr(x)
    except Exception as ex:         # noqa: an object whose storage cannot be read
        r = f"<unprintable {type(x).__name__}: {type(ex).__name__}>"
    return r if len(r) < 80 else r[:77] + "..."
