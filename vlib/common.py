"""Shared machinery: run TLC, collect verdicts, known findings, evidence files, exit codes.

Exit codes of every check: 0 = property held on everything explored (KNOWN-FINDING lines allowed),
1 = violation (a line `VIOLATION property=<id> replay=<path>`), 2 = machinery failure (never a verdict).
"""
import json, os, re, shutil, subprocess, sys, tempfile, time, hashlib

VERIF = os.path.dirname(os.path.dirname(os.path.abspath(__file__)))
REPO = os.environ.get("XOBJECTS_REPO", "/repo")
SPEC = os.path.join(VERIF, "spec")
OUT = os.environ.get("VERIF_OUT_DIR") or os.path.join(VERIF, "out")
EVID = os.environ.get("VERIF_EVIDENCE_DIR") or os.path.join(VERIF, "evidence")
NCPU = os.cpu_count() or 4
TLA_CP = "/opt/veriftools/tla/tla2tools.jar:/opt/veriftools/tla/CommunityModules-deps.jar"


class MachineryError(Exception):
    pass


def use_repo():
    """import xobjects from the working tree of REPO (never from a stale install)"""
    if REPO not in sys.path:
        sys.path.insert(0, REPO)
    os.environ.setdefault("XOBJECTS_VERIF", "1")
    import xobjects  # noqa
    got = os.path.dirname(os.path.dirname(os.path.abspath(xobjects.__file__)))
    if os.path.realpath(got) != os.path.realpath(REPO):
        raise MachineryError(f"xobjects imported from {got}, expected {REPO}")
    return xobjects


def scratch(prefix="xv"):
    return tempfile.mkdtemp(prefix=prefix + "_", dir=os.environ.get("VERIF_TMP", "/tmp"))


_STATS_RE = re.compile(r"(\d+) states generated, (\d+) distinct states found, (\d+) states left on queue")


def run_tlc(module, cfg, workdir=None, workers=None, timeout=1800, env=None, extra=(), simulate=None,
            copy_specs=True, jvm=()):
    """Run TLC on spec/<module>.tla with spec/<cfg>; returns dict(out, generated, distinct, ok, wall).

    The spec directory is copied into a scratch dir so that concurrent runs never share TLC's metadata."""
    t0 = time.time()
    wd = workdir or scratch("tlc")
    if copy_specs:
        for f in os.listdir(SPEC):
            if f.endswith((".tla", ".cfg")):
                shutil.copy(os.path.join(SPEC, f), wd)
    if not any(str(j).startswith("-Xmx") for j in jvm):
        jvm = ("-Xmx3g", *jvm)        # many TLC processes run side by side: never let one claim a quarter of the machine
    cmd = ["java", "-XX:+UseParallelGC", "-Xss16m", *jvm, "-cp", TLA_CP, "tlc2.TLC",
           "-workers", str(workers or NCPU), "-metadir", os.path.join(wd, "meta"), "-noGenerateSpecTE",
           "-config", cfg, *extra]
    if simulate:
        cmd += ["-simulate", simulate]
    cmd.append(module)
    e = dict(os.environ)
    if env:
        e.update({k: str(v) for k, v in env.items()})
    try:
        p = subprocess.run(cmd, cwd=wd, env=e, capture_output=True, text=True, timeout=timeout)
    except subprocess.TimeoutExpired as ex:
        subprocess.run(["pkill", "-f", os.path.join(wd, "meta")])
        raise MachineryError(f"TLC timeout after {timeout}s on {module}/{cfg}") from ex
    out = p.stdout + p.stderr
    m = None
    for m in _STATS_RE.finditer(out):
        pass
    res = dict(out=out, rc=p.returncode, wall=time.time() - t0, workdir=wd,
               generated=int(m.group(1)) if m else 0, distinct=int(m.group(2)) if m else 0)
    res["violated"] = [ln for ln in out.splitlines() if "is violated" in ln or "was violated" in ln]
    res["errors"] = [ln for ln in out.splitlines() if ln.startswith("Error:")]
    res["ok"] = (p.returncode == 0 and not res["violated"] and not res["errors"])
    if workdir is None:
        res["cleanup"] = wd
    return res


def tlc_tuples(out, tag):
    """parse tuples printed by PrintT(<<"TAG", ...>>) (possibly wrapped over several lines) -> list of python tuples"""
    res = []
    pat = re.compile(r'<<\s*"' + re.escape(tag) + '"')
    pos = 0
    while True:
        m = pat.search(out, pos)
        if not m:
            break
        i, inq, k = m.start() + 2, False, None
        while i < len(out):
            ch = out[i]
            if ch == '"':
                inq = not inq
            elif not inq and out.startswith(">>", i):
                k = i
                break
            i += 1
        if k is None:
            break
        body = out[m.start() + 2:k]
        pos = k + 2
        parts, cur, inq = [], "", False
        for ch in body:
            if ch == '"':
                inq = not inq
                cur += ch
            elif ch == "," and not inq:
                parts.append(cur.strip())
                cur = ""
            elif ch == "\n" and not inq:
                cur += " "
            else:
                cur += ch
        parts.append(cur.strip())
        vals = []
        for p_ in parts:
            if p_.startswith('"'):
                vals.append(p_[1:-1])
            else:
                try:
                    vals.append(int(p_))
                except ValueError:
                    vals.append(p_)
        res.append(tuple(vals))
    return res


def load_known():
    res = []
    path = os.path.join(VERIF, "known_findings.json")
    if os.path.exists(path):
        res += json.load(open(path)).get("findings", [])
    d = os.path.join(VERIF, "known_findings.d")       # per-engine files (same format), merged
    if os.path.isdir(d):
        for f in sorted(os.listdir(d)):
            if f.endswith(".json"):
                res += json.load(open(os.path.join(d, f))).get("findings", [])
    return res


class memory_guard:
    """soft address-space limit while the harness drives the library: a size read from corrupted bytes must end in a
    MemoryError inside that operation, not in the kernel killing the check.  Restored before TLC (JVM) is started."""

    def __init__(self, gib=8):
        self.n = gib << 30

    def __enter__(self):
        import resource
        self.old = resource.getrlimit(resource.RLIMIT_AS)
        try:
            resource.setrlimit(resource.RLIMIT_AS, (self.n if self.old[1] == resource.RLIM_INFINITY else min(self.n, self.old[1]), self.old[1]))
        except (ValueError, OSError):
            pass

    def __exit__(self, *a):
        import resource
        try:
            resource.setrlimit(resource.RLIMIT_AS, self.old)
        except (ValueError, OSError):
            pass
        return False


def child_env():
    """environment for python subprocesses that must import xobjects from REPO"""
    e = dict(os.environ)
    e["PYTHONPATH"] = REPO + os.pathsep + VERIF + (os.pathsep + e["PYTHONPATH"] if e.get("PYTHONPATH") else "")
    e.setdefault("PYTHONHASHSEED", "0")
    return e


class Run:
    """Collects what one check run did and writes the evidence file."""

    def __init__(self, pid, argv=None, level="model_checking"):
        import argparse
        ap = argparse.ArgumentParser()
        ap.add_argument("--tier", default=os.environ.get("VERIF_TIER", "quick"), choices=["quick", "thorough"])
        ap.add_argument("--replay", default=None)
        ap.add_argument("--seed", type=int, default=int(os.environ.get("VERIF_SEED", "0") or 0))
        a, self.rest = ap.parse_known_args(argv)
        self.pid, self.tier, self.seed, self.replay, self.level = pid, a.tier, a.seed, a.replay, level
        self.t0 = time.time()
        self.cov = dict(states=0, transitions=0, traces_validated_against_impl=0, samples=[])
        self.violations = []          # (key, description, replay_path)
        self.known_hits = {}
        self.notes = {}
        self.assumptions = []
        self.known = [k for k in load_known() if k["property"] == pid and k.get("status", "open") == "open"]
        os.makedirs(OUT, exist_ok=True)
        os.makedirs(EVID, exist_ok=True)
        self.tmp = scratch(pid)

    # -- coverage helpers
    def add_tlc(self, res):
        self.cov["states"] += res["distinct"]
        self.cov["transitions"] += res["generated"]

    def sample(self, s, cap=8):
        if len(self.cov["samples"]) < cap:
            self.cov["samples"].append(s)

    def count(self, key, n=1):
        self.notes[key] = self.notes.get(key, 0) + n

    # -- findings
    def report(self, key, desc, replay_obj=None):
        """key: stable classification of the failure (what fails, not which sample)."""
        for k in self.known:
            if re.fullmatch(k["key"], key):
                h = self.known_hits.setdefault(k["key"], dict(count=0, what=k["what"], example=desc))
                h["count"] += 1
                return "known"
        for v in self.violations:
            if v[0] == key:
                v[3] += 1
                return "dup"
        path = None
        if replay_obj is not None:
            d = os.path.join(OUT, "replay")
            os.makedirs(d, exist_ok=True)
            h = hashlib.sha1(key.encode()).hexdigest()[:10]
            path = os.path.join(d, f"{self.pid}_{h}.json")
            json.dump(dict(property=self.pid, key=key, desc=desc, replay=replay_obj), open(path, "w"), indent=1, default=str)
        self.violations.append([key, desc, path, 1])
        return "new"

    def finish(self, extra_cov=None):
        if extra_cov:
            self.cov.update(extra_cov)
        wall = time.time() - self.t0
        for k, h in self.known_hits.items():
            print(f"KNOWN-FINDING: property={self.pid} {h['what']} [{h['count']} occurrence(s); e.g. {h['example'][:200]}]")
        for key, desc, path, n in self.violations:
            print(f"VIOLATION property={self.pid} replay={path} key={key} count={n} :: {desc[:400]}")
        cov = dict(self.cov)
        cov["notes"] = self.notes
        cov["known_findings_hit"] = {k: v["count"] for k, v in self.known_hits.items()}
        if not cov.get("samples"):
            cov["samples"] = ["(none recorded)"]
        ev = dict(property_id=self.pid, tier=self.tier, seed=self.seed, level=self.level, coverage=cov,
                  assumptions=self.assumptions, wall_s=round(wall, 2), violations=len(self.violations))
        path = os.path.join(EVID, f"{self.pid}.json")
        json.dump(ev, open(path, "w"), indent=1, default=str)
        shutil.rmtree(self.tmp, ignore_errors=True)
        print(f"[{self.pid}] tier={self.tier} seed={self.seed} states={cov.get('states')} transitions={cov.get('transitions')} "
              f"traces={cov.get('traces_validated_against_impl')} violations={len(self.violations)} "
              f"known={sum(v['count'] for v in self.known_hits.values())} wall={wall:.1f}s")
        sys.exit(1 if self.violations else 0)


def main_guard(fn):
    """wrap a check's main: machinery failures exit 2, never 1"""
    try:
        fn()
    except SystemExit:
        raise
    except MachineryError as e:
        print(f"MACHINERY-FAILURE: {e}")
        sys.exit(2)
    except Exception:
        import traceback
        traceback.print_exc()
        print("MACHINERY-FAILURE: unexpected exception in the check itself")
        sys.exit(2)
