"""One table describing every claimed check; tools/gen_manifest.py turns it into MANIFEST.json."""

CHECKS = {
    "C04": dict(
        engine="alloc", category="model_checking", design_ref="2 / C04",
        technique="TLC model checking of XoAlloc/XoAllocImpl (refinement) + replay of every TLC transition into real buffers + TLC trace validation of real runs against the contract",
        text="TLC checks the allocator contract (XoAlloc.tla) and that the implementation-shaped chunk-list model (XoAllocImpl.tla) refines it, "
             "exhaustively within small capacities; every request-level transition of that model is replayed on a real BufferNumpy and BufferByteArray "
             "and compared with the model post-state; deviating steps, a sample of matching steps and deep random walks (alignment up to 64, any grow step) are recorded "
             "with their full observable post-state and validated by TLC against the contract (XoAllocTrace.tla): in bounds, aligned, disjoint from every live region, tokens of live regions read back intact.",
        note="trusted: TLC, the harness bookkeeping of which regions are live, NumPy/bytearray copies; GPU buffer kinds are out of scope; bounded capacities for the exhaustive part"),
    "C12": dict(
        engine="alloc", category="model_checking", design_ref="2 / C12",
        technique="TLC model checking of XoAlloc/XoAllocImpl (refinement, liveness of the grow/retry loop) + spec->code replay + TLC trace validation against the first-fit contract",
        text="Same engine as C04 with the C12 clauses of the contract action: first-fit offset, grow only when nothing fits, capacity monotone, free never raises and yields exactly the coalesced free set, "
             "get_free equals the free bytes, every request terminates (liveness under weak fairness on the model; exception = violation on the code).",
        note="trusted: TLC, harness bookkeeping; growth amount is unspecified by the contract and bound from the trace"),
}

NOT_YET = {}
