"""One table describing every claimed check; tools/gen_manifest.py turns it into MANIFEST.json."""

CHECKS = {
    "C04": dict(
        engine="alloc", category="model_checking", design_ref="2 / C04",
        technique="TLC model checking of XoAlloc/XoAllocImpl (refinement) + replay of every TLC transition into real buffers + TLC trace validation of real runs against the contract",
        text="TLC checks the allocator contract (XoAlloc.tla) and that the implementation-shaped chunk-list model (XoAllocImpl.tla) refines it, "
             "exhaustively within small capacities; every request-level transition of that model is replayed on a real BufferNumpy and BufferByteArray "
             "and compared with the model post-state; deviating steps, a sample of matching steps and deep random walks (alignment up to 64, any grow step) are recorded "
             "with their full observable post-state and validated by TLC against the contract (XoAllocTrace.tla): in bounds, aligned, disjoint from every live region, tokens of live regions read back intact.",
        note="trusted: TLC, the harness bookkeeping of which regions are live, NumPy/bytearray copies; GPU buffer kinds are out of scope; bounded capacities for the exhaustive part"),
    "C12": dict(
        engine="alloc", category="model_checking", design_ref="2 / C12",
        technique="TLC model checking of XoAlloc/XoAllocImpl (refinement, liveness of the grow/retry loop) + spec->code replay + TLC trace validation against the first-fit contract",
        text="Same engine as C04 with the C12 clauses of the contract action: first-fit offset, grow only when nothing fits, capacity monotone, free never raises and yields exactly the coalesced free set, "
             "get_free equals the free bytes, every request terminates (liveness under weak fairness on the model; exception = violation on the code).",
        note="trusted: TLC, harness bookkeeping; growth amount is unspecified by the contract and bound from the trace"),
    "C01": dict(
        engine="heap", category="model_checking", design_ref="2 / C01",
        technique='TLA+ abstract heap (XoHeap.tla) + format operators (XoLayout.tla); TLC trace validation (XoHeapTrace.tla) of recorded real executions with Decode/WF evaluated by TLC on the real buffer bytes',
        text='Construct/Get of the abstract heap: every constructed object (all input forms: nested python data, ndarrays of any layout, xobjects, string capacities; all placements on poisoned, previously used buffers of both CPU kinds) is read back through the constructor handle, to_nplike/to_nparray and every view; TLC compares each read with the abstract value of the specification and, independently, with Decode of the real bytes, so a wrong read and a wrong write cannot cancel. A constructor refusing a documented input form is a violation.',
        note="trusted: TLC; the harness's recording of byte diffs, allocate/free logs and accessor read-backs (vlib/world.py); NumPy/UTF-8 encodings (values compared as byte strings); histories are generated pseudo-randomly plus a systematic sweep of axis orders (not exhaustive); 64-bit words decoded within +-2^23"),
    "C03": dict(
        engine="heap", category="model_checking", design_ref="2 / C03",
        technique='TLA+ abstract heap (XoHeap.tla) + format operators (XoLayout.tla); TLC trace validation (XoHeapTrace.tla) of recorded real executions with Decode/WF evaluated by TLC on the real buffer bytes',
        text="Frame condition of every writing action checked by TLC on exact byte diffs: construction and fitting assignments change only bytes inside the object's reserved extent and the extents allocated for new referents; reported size = stored size = allocated size; parts nested in parents, siblings disjoint (nest: clauses of XoLayout!WF).",
        note="trusted: TLC; the harness's recording of byte diffs, allocate/free logs and accessor read-backs (vlib/world.py); NumPy/UTF-8 encodings (values compared as byte strings); histories are generated pseudo-randomly plus a systematic sweep of axis orders (not exhaustive); 64-bit words decoded within +-2^23"),
    "C05": dict(
        engine="heap", category="model_checking", design_ref="2 / C05",
        technique='TLA+ abstract heap (XoHeap.tla) + format operators (XoLayout.tla); TLC trace validation (XoHeapTrace.tla) of recorded real executions with Decode/WF evaluated by TLC on the real buffer bytes',
        text='XoLayout.tla is a decoder written from the documentation only; TLC runs WF and Decode on the real bytes of every constructed object and requires the decoded value to equal the value written (slot alignment of every part, stored strides, memory-order item-offset table, NUL-terminated size-prefixed strings, relative references, null pattern, union member index).',
        note="trusted: TLC; the harness's recording of byte diffs, allocate/free logs and accessor read-backs (vlib/world.py); NumPy/UTF-8 encodings (values compared as byte strings); histories are generated pseudo-randomly plus a systematic sweep of axis orders (not exhaustive); 64-bit words decoded within +-2^23"),
    "C06": dict(
        engine="heap", category="model_checking", design_ref="2 / C06",
        technique='TLA+ abstract heap (XoHeap.tla) + format operators (XoLayout.tla); TLC trace validation (XoHeapTrace.tla) of recorded real executions with Decode/WF evaluated by TLC on the real buffer bytes',
        text='Every heap object is re-read after every step through a fresh _from_buffer view, through its parent (field/item/reference access from the root) and through the constructor handle; TLC requires all of them to equal the abstract value and to report the same size and strides; assignments go through randomly chosen routes and are then read through all the others.',
        note="trusted: TLC; the harness's recording of byte diffs, allocate/free logs and accessor read-backs (vlib/world.py); NumPy/UTF-8 encodings (values compared as byte strings); histories are generated pseudo-randomly plus a systematic sweep of axis orders (not exhaustive); 64-bit words decoded within +-2^23"),
    "C08": dict(
        engine="heap", category="model_checking", design_ref="2 / C08",
        technique='TLA+ abstract heap (XoHeap.tla) + format operators (XoLayout.tla); TLC trace validation (XoHeapTrace.tla) of recorded real executions with Decode/WF evaluated by TLC on the real buffer bytes',
        text="Reference graph of the abstract heap: bind to an existing same-buffer object = identity (the reference word must point at that very address), bind to plain data / to a foreign-buffer object = a fresh object (fresh allocation of exactly the referent's size, value equal), None = reserved null pattern and member index -1; invariant RefsResolve (every non-null reference denotes a live object of the recorded member type in the holder's buffer) after every step including growth; writes through the reference and through the original are both read back through both.",
        note="trusted: TLC; the harness's recording of byte diffs, allocate/free logs and accessor read-backs (vlib/world.py); NumPy/UTF-8 encodings (values compared as byte strings); histories are generated pseudo-randomly plus a systematic sweep of axis orders (not exhaustive); 64-bit words decoded within +-2^23"),
    "C09": dict(
        engine="heap", category="model_checking", design_ref="2 / C09",
        technique='TLA+ abstract heap (XoHeap.tla) + format operators (XoLayout.tla); TLC trace validation (XoHeapTrace.tla) of recorded real executions with Decode/WF evaluated by TLC on the real buffer bytes',
        text="Copy action of the abstract heap (AsCopyInput): copies into the same buffer, another buffer and another context must decode to the source's value with references kept (same buffer) or duplicated into fresh allocations of the copy's buffer (other buffer), extents disjoint; later assignments on either side are checked against the abstract values of both.",
        note="trusted: TLC; the harness's recording of byte diffs, allocate/free logs and accessor read-backs (vlib/world.py); NumPy/UTF-8 encodings (values compared as byte strings); histories are generated pseudo-randomly plus a systematic sweep of axis orders (not exhaustive); 64-bit words decoded within +-2^23"),
    "C10": dict(
        engine="heap", category="model_checking", design_ref="2 / C10",
        technique='TLA+ abstract heap (XoHeap.tla) + format operators (XoLayout.tla); TLC trace validation (XoHeapTrace.tla) of recorded real executions with Decode/WF evaluated by TLC on the real buffer bytes',
        text="Set action of the abstract heap (SetAt): after every fitting assignment (leaf, whole nested array/struct of equal size given as python data, ndarray or xobject, through any route, interleaved with growth) TLC requires the element to decode to the assigned value, every other element and object to keep its value, every stored size/shape (Skel) to be unchanged, bytes changed only inside the element's extent.",
        note="trusted: TLC; the harness's recording of byte diffs, allocate/free logs and accessor read-backs (vlib/world.py); NumPy/UTF-8 encodings (values compared as byte strings); histories are generated pseudo-randomly plus a systematic sweep of axis orders (not exhaustive); 64-bit words decoded within +-2^23"),
    "C11": dict(
        engine="heap", category="model_checking", design_ref="2 / C11",
        technique='TLA+ abstract heap (XoHeap.tla) + format operators (XoLayout.tla); TLC trace validation (XoHeapTrace.tla) of recorded real executions with Decode/WF evaluated by TLC on the real buffer bytes',
        text="ErrOp: for every misuse class of the statement (index beyond / negative, update of other length or shape, text longer than the string's box, nested item needing more room, non-member for a union, buffer of another context, offset without buffer) the real call must raise and TLC requires every existing object to still decode to its abstract value.",
        note="trusted: TLC; the harness's recording of byte diffs, allocate/free logs and accessor read-backs (vlib/world.py); NumPy/UTF-8 encodings (values compared as byte strings); histories are generated pseudo-randomly plus a systematic sweep of axis orders (not exhaustive); 64-bit words decoded within +-2^23"),
    "C20": dict(
        engine="heap", category="model_checking", design_ref="2 / C20",
        technique="TLA+ abstract heap (XoHeap.tla) with a Pickle step (twin relation closed along references) + TLC trace validation of real pickle round trips with Decode on the real bytes of the unpickled buffers",
        text="Groups of struct, array and hybrid objects (with references, several per buffer, several buffers and buffer kinds) are pickled together and unpickled; TLC extends the old-object -> twin relation along references using Decode on the bytes of the NEW buffers and requires: equal values, equal null-ness/member of every reference, the relation to be a bijection (what was shared is shared, nothing merged), objects that shared a buffer share one afterwards, fresh buffers; then reads through the unpickled handles (and hybrid attributes), assignments on both sides (independence) and new allocations in the unpickled buffer (no overlap with its live regions) continue as ordinary steps of the heap machine.",
        note="trusted: TLC; harness recording; generated classes are made importable through a synthetic module registered in sys.modules (same-process pickle round trip); histories pseudo-random"),
    "C02": dict(
        engine="capi", category="model_checking", design_ref="2 / C02",
        technique="the tree's generator output (capi.py via ContextCpu._build_sources) specialised by the tree's specialize_source, compiled with a generated dispatcher and EXECUTED on real object images; every call validated by TLC against XoLayout!Nav/Decode (XoCapiTrace.tla)",
        text='All generated accessors (get, getp, len, typeid, member) of all access paths (fields, indices, references) of generated types are executed with all in-range index tuples (sampled above 6 per array) on objects the library built at non-zero offsets, with neighbours, nested in structs and other arrays, in both CPU buffer kinds; TLC navigates the documented layout along the same path on the same bytes (XoLayout!Nav) and requires the same element address, value, length, member index and member address.',
        note='trusted: TLC, gcc/clang, the generated dispatcher/main of the driver, the harness shadow that chooses in-range indices and non-null reference paths; types pseudo-random plus a systematic sweep of all axis orders of 2-D/3-D arrays; the implementation-shaped model of gen_method_offset (XoCapi) is future work, the verdict is taken on executed code'),
    "C07": dict(
        engine="capi", category="model_checking", design_ref="2 / C07",
        technique="the tree's generator output (capi.py via ContextCpu._build_sources) specialised by the tree's specialize_source, compiled with a generated dispatcher and EXECUTED on real object images; every call validated by TLC against XoLayout!Nav/Decode (XoCapiTrace.tla)",
        text='Every generated setter is executed on a copy of the buffer image; the driver reports every byte that differs afterwards and TLC requires the changed bytes to lie inside the addressed element (Nav) and the element to hold exactly the value passed. The same calls (all accessors) are repeated in a driver built with clang ASan+UBSan on exactly sized heap blocks with the object start 16-byte aligned (objects flush against the end of their buffer are included): any sanitizer report is a violation (Aux: observed by the sanitizers, TLC supplies cases and the address oracle).',
        note='trusted: TLC, gcc/clang, the generated dispatcher/main of the driver, the harness shadow that chooses in-range indices and non-null reference paths; types pseudo-random plus a systematic sweep of all axis orders of 2-D/3-D arrays; the implementation-shaped model of gen_method_offset (XoCapi) is future work, the verdict is taken on executed code'),
    "C15": dict(
        engine="capi", category="model_checking", design_ref="2 / C15",
        technique="the tree's generator output (capi.py via ContextCpu._build_sources) specialised by the tree's specialize_source, compiled with a generated dispatcher and EXECUTED on real object images; every call validated by TLC against XoLayout!Nav/Decode (XoCapiTrace.tla)",
        text="The unspecialised API text is specialised by the tree's specialize_source for cpu_serial, cpu_openmp, opencl and cuda; (a) the token streams must be equal up to the target qualifiers, (b) the OpenCL and CUDA forms are host-compiled with the target keywords defined away and executed on the same calls: TLC validates their results against Nav/Decode and they must equal the CPU results call by call, (c) the OpenCL form is parsed by clang's OpenCL C 1.2 front end, which rejects a pointer into object memory that lost its __global qualifier.",
        note='trusted: TLC, gcc/clang, the generated dispatcher/main of the driver, the harness shadow that chooses in-range indices and non-null reference paths; types pseudo-random plus a systematic sweep of all axis orders of 2-D/3-D arrays; the implementation-shaped model of gen_method_offset (XoCapi) is future work, the verdict is taken on executed code'),
}

# registry.d/<ID>.json entries (written by engine authors) are claimed only once the coordinator has seen the check
# quiet on the unchanged tree and firing on a seeded defect
READY_D = {"C13", "C14", "C16", "C17", "C18", "C19"}

NOT_YET = {}
