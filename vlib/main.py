import os, re, sys
from . import common as C


def engines():
    """every vlib/<engine>.py that declares PROPERTIES = [...] serves those ids through its check(pid, argv)"""
    res = {}
    d = os.path.dirname(os.path.abspath(__file__))
    for f in sorted(os.listdir(d)):
        if f.endswith(".py") and f not in ("main.py", "common.py", "__init__.py", "registry.py"):
            m = re.search(r"^PROPERTIES\s*=\s*\[([^\]]*)\]", open(os.path.join(d, f)).read(), re.M)
            if m:
                for pid in re.findall(r"C\d+", m.group(1)):
                    res[pid] = f[:-3]
    return res


def main():
    eng = engines()
    if len(sys.argv) < 2 or sys.argv[1] not in eng:
        print("usage: check <ID> [--tier quick|thorough] [--replay path]; ids:", " ".join(sorted(eng)))
        sys.exit(2)
    pid = sys.argv[1]
    import importlib
    m = importlib.import_module("vlib." + eng[pid])
    C.main_guard(lambda: m.check(pid, sys.argv[2:]))


if __name__ == "__main__":
    main()
