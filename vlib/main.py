import sys
from . import common as C

ENGINES = {
    "C04": ("alloc", "check"), "C12": ("alloc", "check"),
}


def main():
    if len(sys.argv) < 2 or sys.argv[1] not in ENGINES:
        print("usage: check <ID> [--tier quick|thorough] [--replay path]; ids:", " ".join(sorted(ENGINES)))
        sys.exit(2)
    pid = sys.argv[1]
    mod, fn = ENGINES[pid]
    import importlib
    m = importlib.import_module("vlib." + mod)
    C.main_guard(lambda: getattr(m, fn)(pid, sys.argv[2:]))


if __name__ == "__main__":
    main()
