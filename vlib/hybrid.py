"""Engine for C18: hybrid (Python-dressed) objects mirror their buffer data; copy / move keep value and ownership.

model level : TLC checks the contract machine spec/XoHybrid.tla (Mirror at every depth, CopyIndependent, PartsInside,
              RefShares, MoveRefusal; action properties CopyEqual, MovePreserves, WriteLocal, NestedStoresCopy) on every
              history up to the tier's depth for nine initial populations; a run with Bug = TRUE (the pinned tree's
              nested assignment; for parts with two references: a dressing that keeps the source's sharing) must violate
              Mirror (non-vacuity self test).
spec -> code: TLC exports EVERY transition of the bounded state graph (XoHybridGen.tla) together with the first (shortest)
              history that reaches its pre-state; each one is replayed on REAL xo.HybridClass definitions (several
              realisations of the class family: all 10 scalar kinds, strings, static / dynamic / 2-D arrays, renamed fields)
              and after the step the real object graph is projected and compared with the model post-state:
              values through dressed attributes, values through `_xobject`, (buffer, offset, class) of every dressed child vs
              its xobject field, a bijection between model locations and real (buffer, offset), exceptions.
              `_movable` flags are compared as model-drift notes only (the property promises behaviour, not flags).
"""
import collections, json, os, random, shutil, sys, time
from concurrent.futures import ThreadPoolExecutor, ProcessPoolExecutor
import numpy as np
from . import common as C
from . import hybrid_util as U

PROPERTIES = ["C18"]

# ----------------------------------------------------------------------------- class family (mirrors CT of XoHybrid.tla)
CT = {
    "Leaf": [("a", "a", "leaf", None), ("s", "s", "leaf", None), ("arr", "arr", "leaf", None)],
    "Mid": [("inner", "inner", "nest", "Leaf"), ("k", "k", "leaf", None)],
    "Outer": [("mid", "mid", "nest", "Mid"), ("z", "z", "leaf", None)],
    "Holder": [("r", "r", "ref", "Leaf"), ("h", "h", "leaf", None)],
    "Renamed": [("_x", "x", "leaf", None), ("_in", "inn", "nest", "Leaf"), ("y", "y", "leaf", None)],
    "Wrap": [("hold", "hold", "nest", "Holder"), ("w", "w", "leaf", None)],        # a nested part that itself holds a reference
    "Pair": [("r1", "r1", "ref", "Leaf"), ("_r2", "r2", "ref", "Leaf"), ("p", "p", "leaf", None)],      # two references (the second renamed)
    "WrapPair": [("hold", "hold", "nest", "Pair"), ("w", "w", "leaf", None)],      # a nested part that holds two references
}
# realisations: slot -> ("sc", kind) | ("str",) | ("arr", kind, declared shape, concrete shape); wr = how an array slot is written
VARIANTS = [
    dict(name="dyn", w=("sc", "Float32"), a=("sc", "Int64"), s=("str",), arr=("arr", "Float64", (None,), (3,)), k=("sc", "Int32"), z=("sc", "Float64"),
         h=("sc", "Int64"), x=("sc", "Int64"), y=("sc", "Float32"), p=("sc", "Int16"), wr="whole", cap=1 << 14),
    dict(name="static", w=("sc", "Int64"), a=("sc", "Float32"), s=("sc", "UInt16"), arr=("arr", "Int16", (3,), (3,)), k=("sc", "UInt8"), z=("sc", "Int8"),
         h=("sc", "UInt32"), x=("sc", "UInt64"), y=("sc", "Int16"), p=("sc", "Float64"), wr="elem", cap=1 << 14),
    dict(name="nd", w=("sc", "UInt16"), a=("sc", "UInt8"), s=("str",), arr=("arr", "Float64", (2, 2), (2, 2)), k=("sc", "Int64"), z=("sc", "UInt16"),
         h=("str",), x=("sc", "Float64"), y=("sc", "UInt32"), p=("str",), wr="whole", cap=1 << 14),   # (a Holder / Pair of dynamic size: reference(s) + string)
    dict(name="dyn2d-grow", w=("sc", "Float64"), a=("sc", "Int16"), s=("str",), arr=("arr", "Int32", (None, 2), (2, 2)), k=("sc", "Float32"), z=("sc", "Int32"),
         h=("sc", "UInt64"), x=("sc", "Int8"), y=("sc", "UInt8"), p=("sc", "UInt32"), wr="elem", cap=64),   # small buffers: growth during the history
    # "flex": the string and the dynamic array of a Leaf have a length that differs from object to object (three layouts, chosen by
    # the object's initial tokens) in a complementary way, so that every Leaf has the same TOTAL size (nested assignment is
    # honoured) but another split between its two dynamically sized fields; a written value takes the length the slot has
    dict(name="split", w=("sc", "UInt8"), a=("sc", "Int64"), s=("str", "flex"), arr=("arr", "Float64", (None,), "flex"), k=("sc", "Int16"), z=("sc", "Float32"),
         h=("sc", "Int32"), x=("sc", "UInt16"), y=("sc", "Float64"), p=("sc", "Int8"), wr="whole", cap=1 << 14),
]
# (string length, array length): 8 + slot(len + 1) + 16 + 8 n = 80 for each of them
LAYOUTS = [(5, 4), (20, 2), (12, 3)]


def is_flex(sp):
    return sp[-1] == "flex"


def flex_value(sp, t, n):
    if sp[0] == "str":
        return ("t%d_" % t).ljust(n, "x") if n >= len("t%d_" % t) else None
    return U.arr_value(sp[1], (n,), t)


def initial_len(sp, t):
    lay = LAYOUTS[(int(t) // 10) % len(LAYOUTS)]
    return lay[0] if sp[0] == "str" else lay[1]


def cur_len(x):
    if isinstance(x, str):
        return len(x)
    return int(np.prod(x._shape)) if hasattr(x, "_shape") else int(np.asarray(x).size)
_FAM = {}


def family(vi):
    """real xo.HybridClass definitions for realisation vi (built once per process)"""
    if vi in _FAM:
        return _FAM[vi]
    xo = U.xo()
    v = VARIANTS[vi]

    def ty(spec):
        if spec[0] == "sc":
            return getattr(xo, spec[1])
        if spec[0] == "str":
            return xo.String
        it = getattr(xo, spec[1])
        sh = tuple(slice(None) if d is None else d for d in spec[2])
        return it[sh if len(sh) > 1 else sh[0]]

    tag = f"V{vi}"
    Leaf = type("Leaf" + tag, (xo.HybridClass,), {"_xofields": {"a": ty(v["a"]), "s": ty(v["s"]), "arr": ty(v["arr"])}})
    Mid = type("Mid" + tag, (xo.HybridClass,), {"_xofields": {"inner": Leaf, "k": ty(v["k"])}})
    Outer = type("Outer" + tag, (xo.HybridClass,), {"_xofields": {"mid": Mid, "z": ty(v["z"])}})
    Holder = type("Holder" + tag, (xo.HybridClass,), {"_xofields": {"r": xo.Ref(Leaf), "h": ty(v["h"])}})
    Renamed = type("Renamed" + tag, (xo.HybridClass,), {"_xofields": {"_x": ty(v["x"]), "_in": Leaf, "y": ty(v["y"])},
                                                         "_rename": {"_x": "x", "_in": "inn"}})
    Wrap = type("Wrap" + tag, (xo.HybridClass,), {"_xofields": {"hold": Holder, "w": ty(v["w"])}})   # -> Holder._XoStruct nested by value
    Pair = type("Pair" + tag, (xo.HybridClass,), {"_xofields": {"r1": xo.Ref(Leaf), "_r2": xo.Ref(Leaf), "p": ty(v["p"])},
                                                   "_rename": {"_r2": "r2"}})                         # two references to hybrid objects
    WrapPair = type("WrapPair" + tag, (xo.HybridClass,), {"_xofields": {"hold": Pair, "w": ty(v["w"])}})   # -> Pair._XoStruct nested by value
    _FAM[vi] = dict(Leaf=Leaf, Mid=Mid, Outer=Outer, Holder=Holder, Renamed=Renamed, Wrap=Wrap, Pair=Pair, WrapPair=WrapPair)
    return _FAM[vi]


def slot_spec(vi, py):
    return VARIANTS[vi][py]


def concrete(vi, py, t, n=None):
    """the concrete value of token t in slot py; n = length for the slots of a 'flex' realisation (default: the initial layout)"""
    sp = slot_spec(vi, py)
    if is_flex(sp):
        return flex_value(sp, t, initial_len(sp, t) if n is None else n)
    if sp[0] == "sc":
        return U.sc_value(sp[1], t)
    if sp[0] == "str":
        return U.str_value(t)
    return U.arr_value(sp[1], sp[3], t)


def same(vi, py, got, t):
    sp = slot_spec(vi, py)
    if is_flex(sp):          # the value pattern of the token at the length the slot has; the lengths are checked as a pair (split)
        try:
            n = cur_len(got)
        except Exception:
            return False
        if n not in [l[0 if sp[0] == "str" else 1] for l in LAYOUTS]:
            return False
        want = flex_value(sp, t, n)
        return (isinstance(got, str) and got == want) if sp[0] == "str" else U.same_array(got, want)
    want = concrete(vi, py, t)
    if sp[0] == "sc":
        return U.same_scalar(got, want)
    if sp[0] == "str":
        return isinstance(got, str) and got == want
    return U.same_array(got, want)


def agree(vi, py, g1, g2):
    sp = slot_spec(vi, py)
    if sp[0] == "arr":
        return U.same_array(g1, U.as_np(g2))
    try:
        return bool(g1 == g2)
    except Exception:
        return False


# ----------------------------------------------------------------------------- the real world
class World:
    def __init__(self, vi, init):
        xo = U.xo()
        self.vi = vi
        fam = family(vi)
        ctx = _ctx()
        self.bufs = [ctx.new_buffer(VARIANTS[vi]["cap"]), ctx.new_buffer(VARIANTS[vi]["cap"])]
        self.hs = []
        for i, a in enumerate(init["heap"]):
            kw = self._kwargs(a["cls"], a["val"], init["heap"][:i], a["buf"])
            self.hs.append(fam[a["cls"]](**kw, _buffer=self.bufs[a["buf"] - 1]))

    @staticmethod
    def _has_ref(cls, val):
        return any((k == "ref" and val[n]) or (k == "nest" and World._has_ref(c, val[n])) for n, py, k, c in CT[cls])

    def _kwargs(self, cls, val, before, buf):
        """constructor arguments; `before` = the allocations already built (self.hs[j] realises before[j]).  A non-null reference
        is given as the (earlier, same buffer) hybrid object it designates; a nested part that holds a reference is given as the
        earlier hybrid object of that class with the same data (`Wrap(hold=m0)`), as a user builds such populations"""
        kw = {}
        for n, py, k, c in CT[cls]:
            if k == "leaf":
                kw[py] = concrete(self.vi, py, val[n])
            elif k == "nest":
                if self._has_ref(c, val[n]):
                    src = [j for j, b in enumerate(before) if b["cls"] == c and b["buf"] == buf and b["val"] == val[n]]
                    if not src:
                        raise C.MachineryError(f"initial population: no earlier {c} object to build the nested part {n} from")
                    kw[py] = self.hs[src[0]]
                else:
                    kw[py] = self._kwargs(c, val[n], before, buf)
            elif val[n]:        # reference fields start null (not passed) unless the population says otherwise
                aid, path = val[n]
                if path or aid > len(before) or before[aid - 1]["buf"] != buf:
                    raise C.MachineryError(f"initial population: reference {val[n]} cannot be built")
                kw[py] = self.hs[aid - 1]
        return kw

    def touch(self):
        def rd(o, cls, depth):
            if depth > 4 or o is None:
                return
            for n, py, k, c in CT[cls]:
                try:
                    v = getattr(o, py) if hasattr(o, "_xobject") else getattr(o, n)
                    if k != "leaf":
                        rd(v, c, depth + 1)
                    elif hasattr(v, "shape"):
                        v[...]
                except Exception:       # noqa: reading is judged by compare(), not here
                    pass
        for h in self.hs:
            try:
                rd(h, type(h).__name__.split("_")[0] if False else self.clsname(h), 0)
            except Exception:           # noqa
                pass

    def clsname(self, h):
        for name, c in family(self.vi).items():
            if isinstance(h, c):
                return name
        raise KeyError("class")

    def resolve(self, e):
        o = self.hs[e[0] - 1]
        for p in e[1]:
            o = getattr(o, p)
        return o

    def bufname(self, b):
        for i, x in enumerate(self.bufs):
            if x is b:
                return i + 1
        return f"other{id(b)}"

    def execute(self, cmd):
        """returns '' or the exception type name"""
        op = cmd["op"]
        # environment step the contract is indifferent to: a buffer grows (its storage is replaced) between two operations.
        # Attributes must keep reflecting the buffer data afterwards (a cached view of the old storage would not).
        self.nexec = getattr(self, "nexec", 0) + 1
        if self.nexec >= 2:
            for b in self.bufs:
                b.grow(8 * (1 + self.nexec % 3))
        try:
            if op == "setleaf":
                tgt = self.resolve(cmd["e"])
                sp = slot_spec(self.vi, cmd["f"])
                if is_flex(sp):        # a value that fits: the length the slot has now (as a user would write `x.arr[:] = ...`)
                    val = concrete(self.vi, cmd["f"], cmd["v"], cur_len(getattr(tgt, cmd["f"])))
                else:
                    val = concrete(self.vi, cmd["f"], cmd["v"])
                if sp[0] == "arr" and VARIANTS[self.vi]["wr"] == "elem" and hasattr(tgt, "_xobject"):
                    view = getattr(tgt, cmd["f"])            # the nplike view the attribute hands out
                    for idx in np.ndindex(*val.shape):
                        view[idx] = val[idx]
                else:
                    setattr(tgt, cmd["f"], val)
            elif op in ("setnested", "setref"):
                setattr(self.resolve(cmd["e"]), cmd["f"], self.resolve(cmd["src"]))
            elif op == "clearref":
                setattr(self.resolve(cmd["e"]), cmd["f"], None)
            elif op == "copy":
                self.hs.append(self.resolve(cmd["src"]).copy(_buffer=self.bufs[cmd["b"] - 1]))
            elif op == "move":
                self.resolve(cmd["e"]).move(_buffer=self.bufs[cmd["b"] - 1])
            else:
                raise C.MachineryError(f"unknown op {op}")
        except C.MachineryError:
            raise
        except Exception as ex:       # noqa: the contract only says "refused"
            return type(ex).__name__
        return ""


_CTX = None


def _ctx():
    global _CTX
    if _CTX is None:
        _CTX = U.xo().ContextCpu()
    return _CTX


# ----------------------------------------------------------------------------- projection and comparison
def mval(heap, loc):
    v = heap[loc[0] - 1]["val"]
    for n in loc[1]:
        v = v[n]
    return v


def ident(world, o):
    x = o._xobject if hasattr(o, "_xobject") else o
    return (world.bufname(x._buffer), int(x._offset), type(x).__name__)


def _want(vi, py, t, got):
    sp = slot_spec(vi, py)
    if not is_flex(sp):
        return U.short(concrete(vi, py, t))
    try:
        return U.short(flex_value(sp, t, cur_len(got))) + " (token pattern at the slot's length, lengths one of %s)" % (LAYOUTS,)
    except Exception:
        return f"<token {t}>"


def compare(world, model):
    """-> (list of (clause, where, detail), drift notes)"""
    heap, vi = model["heap"], world.vi
    out, drift = [], []
    m2r, r2m = {}, {}

    def bind(loc, rid, where):
        key = (loc[0], tuple(loc[1]))
        if m2r.setdefault(key, rid) != rid:
            out.append(("aliasing", where, f"model location {key} is real {m2r[key]} and {rid}"))
        if r2m.setdefault(rid, key) != key:
            out.append(("aliasing", where, f"real storage {rid} is model location {r2m[rid]} and {key}"))

    def walk(mnode, xloc, cls, dobj, xobj, depth, kind, path):
        where = f"{kind}@{depth}"
        try:
            did, xid = ident(world, dobj), ident(world, xobj)
        except Exception as ex:
            out.append(("unreadable", where, f"{path}: {type(ex).__name__}: {ex}"))
            return
        if did != xid:
            out.append(("mirror-identity", where, f"{path}: dressed object lives at {did}, its xobject field at {xid}"))
        bind(mnode["loc"], did, where)
        bind(xloc, xid, where)
        mb = heap[mnode["loc"][0] - 1]["buf"]
        if did[0] != mb:
            out.append(("buffer", where, f"{path}: lives in buffer {did[0]}, model buffer {mb}"))
        if "mv" in mnode and hasattr(dobj, "_movable") and bool(dobj._movable) != bool(mnode["mv"]):
            drift.append(f"movable flag of {kind}@{depth}: real {dobj._movable} model {mnode['mv']}")
        kids = mnode.get("kids") or {}
        if cls == "Leaf" and is_flex(slot_spec(vi, "s")):
            # the two dynamically sized fields must form one of the layouts (a copy takes over the source's split as a whole)
            for who, o in (("dressed", dobj), ("xobject", xobj)):
                try:
                    pair = (cur_len(getattr(o, "s")), cur_len(getattr(o, "arr")))
                    if pair not in LAYOUTS:
                        out.append(("value-" + who, f"leaf:split@{depth + 1}", f"{path}: lengths (s, arr) = {pair} read through the {who} path, not one of {LAYOUTS}"))
                except Exception:
                    pass              # reported as unreadable below
        for n, py, k, c in CT[cls]:
            fpath = f"{path}.{py}"
            if k == "leaf":
                sk = slot_spec(vi, py)[0]
                w2 = f"leaf:{sk}@{depth + 1}" + ("(renamed)" if n != py else "") + ("(via-ref)" if kind == "ref" else "")
                try:
                    dv = getattr(dobj, py) if hasattr(dobj, "_xobject") else getattr(dobj, n)
                    xv = getattr(xobj, n)
                except Exception as ex:
                    out.append(("unreadable", w2, f"{fpath}: {type(ex).__name__}: {ex}"))
                    continue
                td, tx = mval(heap, [mnode["loc"][0], mnode["loc"][1] + [n]]), mval(heap, [xloc[0], xloc[1] + [n]])
                try:
                    ag = agree(vi, py, dv, xv)
                except Exception as ex:          # e.g. an array behind a dangling reference: the data cannot be read at all
                    out.append(("unreadable", w2, f"{fpath}: {type(ex).__name__}: {ex}"))
                    continue
                if not ag:
                    out.append(("mirror-value", w2, f"{fpath} reads {U.short(dv)} but _xobject path reads {U.short(xv)}"))
                if not same(vi, py, dv, td):
                    out.append(("value-dressed", w2, f"{fpath} reads {U.short(dv)}, model {_want(vi, py, td, dv)}"))
                if not same(vi, py, xv, tx):
                    out.append(("value-xobject", w2, f"_xobject path of {fpath} reads {U.short(xv)}, model {_want(vi, py, tx, xv)}"))
            else:
                try:
                    dch = getattr(dobj, py) if hasattr(dobj, "_xobject") else getattr(dobj, n)
                    xch = getattr(xobj, n)
                except Exception as ex:
                    out.append(("unreadable", f"{k}@{depth + 1}", f"{fpath}: {type(ex).__name__}: {ex}"))
                    continue
                if k == "nest":
                    walk(kids[n], [xloc[0], xloc[1] + [n]], c, dch, xch, depth + 1, "nest" + ("(renamed)" if n != py else ""), fpath)
                else:
                    mt = kids[n]["loc"]
                    xt = mval(heap, [xloc[0], xloc[1] + [n]])
                    if (dch is None) != (xch is None):
                        out.append(("mirror-identity", f"ref@{depth + 1}", f"{fpath}: attribute is {'None' if dch is None else 'an object'}, "
                                                                           f"xobject reference is {'null' if xch is None else 'set'}"))
                    if (dch is None) != (not mt):
                        out.append(("value-dressed", f"ref@{depth + 1}", f"{fpath}: attribute is {'None' if dch is None else 'an object'}, model {'null' if not mt else 'set'}"))
                    if (xch is None) != (not xt):
                        out.append(("value-xobject", f"ref@{depth + 1}", f"{fpath}: xobject reference is {'null' if xch is None else 'set'}, model {'null' if not xt else 'set'}"))
                    if dch is not None and xch is not None and mt and xt:
                        walk(dict(loc=mt), xt, c, dch, xch, depth + 1, "ref", fpath)

    if len(world.hs) != len(model["hs"]):
        out.append(("handles", "count", f"{len(world.hs)} real objects, model {len(model['hs'])}"))
        return out, drift
    for i, (h, o) in enumerate(zip(model["hs"], world.hs)):
        if not hasattr(o, "_xobject"):
            out.append(("unreadable", "handle@0", f"h{i + 1} is not a hybrid object"))
            continue
        walk(h["node"], h["node"]["loc"], h["cls"], o, o._xobject, 0, "handle", f"h{i + 1}")
    return out, drift


# ----------------------------------------------------------------------------- replay of exported transitions
def replay_group(init, vi, hist, cmd, alts):
    """alts: list of (res, post) the model allows for (pre-state reached by hist, cmd).
    returns dict(status, findings=[(key, desc)], drift=[...])"""
    w = World(vi, init)
    w.touch()
    for st in hist:
        exc = w.execute(st["cmd"])
        w.touch()        # a user reading the attributes between operations (whatever an attribute access caches is now cached)
        if (exc != "") != (st["res"] == "refused"):
            return dict(status="abandoned-prefix", findings=[], drift=[])
    exc = w.execute(cmd)
    real_res = "refused" if exc else "ok"
    cands = [a for a in alts if a[0] == real_res]
    op = cmd["op"]
    if not cands:
        if exc:
            return dict(status="violation", drift=[], findings=[(f"{op}:raised:{exc}", f"{_show(cmd)} raised {exc}; the model only allows it to succeed")])
        return dict(status="violation", drift=[], findings=[(f"{op}:not-refused", f"{_show(cmd)} succeeded; the contract requires it to be refused")])
    best = None
    for res, post in cands:
        diffs, drift = compare(w, post)
        if best is None or len(diffs) < len(best[0]):
            best = (diffs, drift, res)
        if not diffs:
            break
    diffs, drift, res = best
    tag = op + (":refused" if res == "refused" else "")
    seen, findings = set(), []
    # one transition, one root cause: keep the clause class that explains the others (identity > values > aliasing > buffer)
    for top in PRIORITY:
        if any(d[0] == top for d in diffs):
            diffs = [d for d in diffs if d[0] == top]
            break
    for clause, where, detail in diffs:
        key = f"{tag}:{clause}:{where}"
        if key not in seen:
            seen.add(key)
            findings.append((key, f"after {_show(cmd)} [{res}{' ' + exc if exc else ''}]: {detail}"))
    return dict(status="violation" if findings else "ok", findings=findings, drift=drift, exc=exc)


PRIORITY = ["handles", "unreadable", "mirror-identity", "mirror-value", "value-dressed", "value-xobject", "aliasing", "buffer"]


def _show(cmd):
    def ex(e):
        return "h%d%s" % (e[0], "".join("." + p for p in e[1]))
    op = cmd["op"]
    if op == "setleaf":
        return f"{ex(cmd['e'])}.{cmd['f']} = <{cmd['v']}>"
    if op in ("setnested", "setref"):
        return f"{ex(cmd['e'])}.{cmd['f']} = {ex(cmd['src'])}"
    if op == "clearref":
        return f"{ex(cmd['e'])}.{cmd['f']} = None"
    if op == "copy":
        return f"{ex(cmd['src'])}.copy(_buffer=B{cmd['b']})"
    return f"{ex(cmd['e'])}.move(_buffer=B{cmd['b']})"


def _parse(line):
    return json.loads(json.loads(line))


def _read_groups(path, start, end):
    """the transitions inside the byte range [start, end) of an export file, grouped by (hist, cmd): the outcomes the model allows
    for one operation in one pre-state are separate lines of the same pre-state block (chunks hold whole blocks)"""
    groups, index = [], {}
    with open(path, "rb") as f:
        f.seek(start)
        pos = start
        while pos < end:
            raw = f.readline()
            if not raw:
                break
            off, pos = pos, pos + len(raw)
            if not raw.startswith(b'"{'):
                continue
            rec = _parse(raw.decode())
            if "init" in rec:
                continue
            key = (_J(rec["hist"]), _J(rec["cmd"]))
            if key in index:
                groups[index[key]][3].append((rec["res"], rec["post"]))
            else:
                index[key] = len(groups)
                groups.append([off, rec["hist"], rec["cmd"], [(rec["res"], rec["post"])]])
    return groups


def _worker(task):
    """task = (tag, path, init, start, end, gid0, nvar, seed) -> compact results per (group, realisation)"""
    tag, path, init, start, end, gid0, nvar, seed = task
    os.chdir(os.environ.get("VERIF_C18_TMP", "/tmp"))
    out, detailed = [], 0
    per_op = collections.Counter()
    for k, (off, hist, cmd, alts) in enumerate(_read_groups(path, start, end)):
        gid = gid0 + k
        per_op[cmd["op"] + ":" + "/".join(sorted({a[0] for a in alts}))] += 1
        if nvar >= len(VARIANTS):
            vis = list(range(len(VARIANTS)))
        else:
            vis = [(gid + seed + j) % len(VARIANTS) for j in range(nvar)]
        for vi in vis:
            try:
                r = replay_group(init, vi, hist, cmd, alts)
            except C.MachineryError:
                raise
            except Exception:    # the harness itself failed: machinery, never a verdict
                import traceback
                r = dict(status="machinery", findings=[], drift=[], err=traceback.format_exc()[-1500:])
            rec = dict(tag=tag, off=off, vi=vi, status=r["status"], drift=r.get("drift", []), err=r.get("err"), depth=len(hist))
            if r["status"] == "violation":
                rec["findings"] = r["findings"]
                rec["hist"], rec["cmd"] = hist, cmd
                if detailed < 40:                       # model post-states are bulky: the rest is re-read from the file if needed
                    detailed += 1
                    rec["alts"] = alts
            out.append(rec)
    return tag, out, dict(per_op)


# ----------------------------------------------------------------------------- TLC: export and model checking
ALLW = '{"a","s","arr","k","z","h","x","y","w","p"}'
CONST = "Scens = {scen} MaxDepth = {d} MaxH = {mh} Vals = {vals} WSlots = {ws} Bufs = {{1,2}} Bug = {bug}"
INVS = "INVARIANT Mirror\nINVARIANT CopyIndependent\nINVARIANT PartsInside\nINVARIANT RefShares\n"
PROPS = "INVARIANT MoveRefusal\nPROPERTY CopyEqual\nPROPERTY MovePreserves\nPROPERTY WriteLocal\nPROPERTY NestedStoresCopy\n"


def tlc_export(job):
    """runs XoHybridGen with its output streamed to a file; returns (tag, path, init, chunks, stats)"""
    import subprocess
    tag, consts_, outdir = job
    wd = C.scratch("c18gen")
    for f in os.listdir(C.SPEC):
        if f.startswith("XoHybrid") and f.endswith(".tla"):
            shutil.copy(os.path.join(C.SPEC, f), wd)
    open(os.path.join(wd, "gen.cfg"), "w").write(f"SPECIFICATION GSpec\nCONSTANTS {consts_}\nVIEW View\n{INVS}CHECK_DEADLOCK FALSE\n")
    path = os.path.join(outdir, f"export_{tag}.ndjson")
    t0 = time.time()
    cmd = ["java", "-XX:+UseParallelGC", "-Xss16m", "-Xmx1500m", "-cp", C.TLA_CP, "tlc2.TLC", "-workers", "1", "-metadir", os.path.join(wd, "meta"),
           "-noGenerateSpecTE", "-config", "gen.cfg", "XoHybridGen"]
    with open(path, "wb") as fo:
        try:
            p = subprocess.run(cmd, cwd=wd, stdout=fo, stderr=subprocess.STDOUT, timeout=3000)
        except subprocess.TimeoutExpired as ex:
            raise C.MachineryError(f"TLC timeout on XoHybridGen {tag}") from ex
    shutil.rmtree(wd, ignore_errors=True)
    # statistics and errors are in the non-JSON lines; chunk boundaries only between different (cmd, hist) prefixes
    init, chunks, n, other = None, [], 0, []
    start, cur, last_key, pos = None, 0, None, 0
    with open(path, "rb") as f:
        for raw in f:
            off, pos = pos, pos + len(raw)
            if not raw.startswith(b'"{'):
                other.append(raw.decode(errors="replace"))
                continue
            if raw.startswith(b'"{\\"init\\"'):
                init = _parse(raw.decode())["init"]
                continue
            n += 1
            # line = {"hist":[..],"cmd":{..},"res":"..","post":{..}}; "post" occurs at top level only, the operation and its
            # outcome are the LAST "cmd" / "res" before it (the entries of hist carry cmd / res too)
            ip = raw.find(b'\\"post\\":')
            hkey, key = raw[:raw.rfind(b',\\"cmd\\":', 0, ip)], raw[:raw.rfind(b',\\"res\\":', 0, ip)]   # pre-state block, (hist, cmd)
            if start is None:
                start, cur, seen = off, 0, set()
            elif hkey != last_key and cur >= 300:
                chunks.append((start, off, cur))
                start, cur, seen = off, 0, set()
            if hkey != last_key:
                seen = set()
            if key not in seen:
                seen.add(key)
                cur += 1
            last_key = hkey
        if start is not None:
            chunks.append((start, pos, cur))
    txt = "".join(other)
    m = None
    for m in C._STATS_RE.finditer(txt):
        pass
    bad = [ln for ln in txt.splitlines() if ln.startswith("Error:") or "is violated" in ln]
    if p.returncode != 0 or bad or init is None or not m:
        raise C.MachineryError(f"XoHybridGen {tag} failed (rc={p.returncode}):\n" + txt[-3000:])
    stats = dict(generated=int(m.group(1)), distinct=int(m.group(2)), wall=time.time() - t0, transitions=n,
                 groups=sum(c[2] for c in chunks))
    return tag, path, init, chunks, stats


def tlc_check(job):
    tag, consts_, props, workers, expect_violation = job
    wd = C.scratch("c18mc")
    cfg = f"SPECIFICATION Spec\nCONSTANTS {consts_}\n{INVS}{PROPS if props else ''}CHECK_DEADLOCK FALSE\n"
    open(os.path.join(wd, "mc.cfg"), "w").write(cfg)
    res = C.run_tlc("XoHybrid", "mc.cfg", workdir=wd, workers=workers, timeout=3000, jvm=("-Xmx2g",))
    shutil.rmtree(wd, ignore_errors=True)
    if expect_violation:
        if not any("Mirror" in v for v in res["violated"]):
            raise C.MachineryError(f"self test {tag}: Bug = TRUE should violate Mirror (vacuous invariant?)\n" + res["out"][-2000:])
    elif not res["ok"]:
        raise C.MachineryError(f"model-level check {tag} failed (the specification itself is inconsistent):\n" + res["out"][-3000:])
    res["out"] = ""
    return tag, res


# per tier.  check / props: (scenarios, depth, MaxH, Vals, WSlots, TLC workers) - exhaustive model checking, no export;
# export: (scenario, depth, MaxH, Vals, WSlots, realisations per transition) - every transition replayed on the real library
TIERS = {
    "quick": dict(
        check=[((1, 2, 3, 4, 5, 6, 7), 4, 3, "{1}", '{"a","x","arr"}', 6), ((8,), 3, 6, "{1}", '{"a","h","w"}', 3),   # 8, 9 start with 5 objects
               ((9,), 3, 6, "{1}", '{"a","p","w"}', 3)],
        props=[((1, 2, 3, 4, 6), 2, 3, "{1,2}", ALLW, 3), ((8,), 2, 6, "{1,2}", ALLW, 2), ((9,), 2, 6, "{1,2}", ALLW, 2)],
        export=[(1, 3, 3, "{1}", '{"a","k"}', 1), (7, 3, 3, "{1}", ALLW, 1), (2, 4, 3, "{1}", '{"a"}', 1), (3, 3, 3, "{1}", '{"a","x","y"}', 1),
                (4, 4, 3, "{1}", '{"a"}', 1), (5, 2, 3, "{1}", '{"a"}', 1), (6, 4, 3, "{1}", '{"a"}', 1), (8, 3, 6, "{1}", '{"a","h"}', 1),
                (9, 3, 5, "{1}", '{"a"}', 1), (9, 2, 6, "{1}", ALLW, 1)],      # 9: three operations without copies, two with a copy and every slot
        tlc_parallel=10, pool=10),
    "thorough": dict(
        check=[((2, 4, 6), 6, 3, "{1}", '{"a"}', 4), ((3, 7), 6, 3, "{1}", '{"a","x"}', 5), ((1,), 6, 3, "{1}", '{"a"}', 6), ((5,), 5, 3, "{1}", '{"a"}', 4),
               ((1, 2, 3, 4, 5, 6, 7), 4, 4, "{1,2}", '{"a","x","arr","s"}', 6), ((8,), 4, 6, "{1}", '{"a","h"}', 4), ((9,), 4, 6, "{1}", '{"a"}', 4)],
        props=[((1, 2, 3, 4, 5, 6, 7), 3, 3, "{1,2}", ALLW, 4), ((8,), 3, 6, "{1,2}", ALLW, 3), ((9,), 3, 6, "{1,2}", '{"a","p"}', 3)],
        export=[(1, 4, 3, "{1}", '{"a","k"}', 1), (2, 6, 3, "{1}", '{"a"}', 1), (3, 5, 3, "{1}", '{"a","x"}', 1), (4, 5, 3, "{1}", '{"a"}', 1),
                (5, 3, 3, "{1}", '{"a"}', 2), (6, 6, 3, "{1}", '{"a"}', 1), (7, 4, 3, "{1}", '{"a","s","arr","k"}', 1),
                (1, 3, 3, "{1,2}", ALLW, 4), (3, 3, 3, "{1,2}", ALLW, 4), (7, 3, 4, "{1,2}", ALLW, 4), (2, 3, 4, "{1,2}", ALLW, 4),
                (8, 4, 6, "{1}", '{"a"}', 1), (8, 2, 7, "{1,2}", ALLW, 5),
                (9, 3, 6, "{1}", '{"a","p"}', 2), (9, 2, 7, "{1,2}", ALLW, 5)],
        tlc_parallel=6, pool=10),
}


def consts(scen, d, mh, vals, ws, bug="FALSE"):
    scen = (scen,) if isinstance(scen, int) else scen
    return CONST.format(scen="{" + ",".join(map(str, scen)) + "}", d=d, mh=mh, vals=vals, ws=ws, bug=bug)


class Lookup:
    """finds the exported group of a transition (history, operation) in an export file; the index is built only when a violation
    needs attribution"""

    def __init__(self, path):
        self.path, self.idx = path, None

    def get(self, cmds, cmd):
        """-> (hist, cmd, alts) or None"""
        if self.idx is None:
            self.idx = {}
            pos = 0
            with open(self.path, "rb") as f:
                for raw in f:
                    off, pos = pos, pos + len(raw)
                    if raw.startswith(b'"{') and not raw.startswith(b'"{\\"init\\"'):
                        ip = raw.find(b'\\"post\\":')
                        rec = json.loads(json.loads(raw[:raw.rfind(b',\\"res\\":', 0, ip)].decode() + '}"'))     # hist and cmd only
                        self.idx.setdefault(_J([h["cmd"] for h in rec["hist"]] + [rec["cmd"]]), off)
        off = self.idx.get(_J(list(cmds) + [cmd]))
        if off is None:
            return None
        hist, alts = None, []
        with open(self.path, "rb") as f:       # the other outcomes of the same operation are later lines of the same pre-state block
            f.seek(off)
            for raw in f:
                if not raw.startswith(b'"{'):
                    break
                rec = _parse(raw.decode())
                if hist is None:
                    hist = rec["hist"]
                elif rec["hist"] != hist:
                    break
                if rec["cmd"] == cmd:
                    alts.append((rec["res"], rec["post"]))
        return hist, cmd, alts


def _J(x):
    return json.dumps(x, sort_keys=True)


# ----------------------------------------------------------------------------- the check
def check(pid, argv=None):
    run = C.Run(pid, argv)
    tier = TIERS[run.tier]
    os.environ["VERIF_C18_TMP"] = run.tmp
    os.chdir(run.tmp)
    run.assumptions += [
        "contract XoHybrid.tla transcribes C18; class family Leaf/Mid/Outer (three levels), Holder (Ref), Renamed (renamed scalar and nested field), "
        "Wrap (a nested part that itself holds a reference; a nested assignment from another buffer gives the copy a duplicate of the referent "
        "in the destination's buffer, as copy does), Pair (two references, the second renamed) and WrapPair (a nested part holding two references): "
        "copy / nested assignment into another buffer duplicates the referent once PER REFERENCE (two references to one object become references "
        "to two distinct duplicates, as Ref._to_buffer does on the pinned tree; DESIGN 1.5 'Copy'), same-buffer operations keep sharing",
        "objects of one class have equal sizes (same array lengths, strings in one 16-byte box): size-changing assignment is C10/C11's domain",
        "move of a reference TARGET and of an object whose reference fields are all null is left open by the property (either outcome accepted)",
        "`_movable` flags are compared as model-drift only; the verdict is on refusal behaviour",
        "pure-python attributes of dressed objects, GPU contexts and pickling are out of scope (C20 for pickling)",
    ]
    C.use_repo()
    if run.replay:
        rp = json.load(open(run.replay))["replay"]
        r = replay_group(rp["init"], rp["variant"], rp["hist"], rp["cmd"], [tuple(a) for a in rp["alts"]])
        run.cov["traces_validated_against_impl"] = 1
        for key, desc in r["findings"]:
            run.report(key, f"[{VARIANTS[rp['variant']]['name']}] {desc}", rp)
        run.finish()
    t1 = time.time()
    jobs_x = [(f"s{s}d{d}" + ("full" if ws == ALLW else ""), consts(s, d, mh, vals, ws), run.tmp) for s, d, mh, vals, ws, nv in tier["export"]]
    nvar = {j[0]: e[5] for j, e in zip(jobs_x, tier["export"])}
    jobs_c = [(f"inv-s{''.join(map(str, s))}d{d}h{mh}", consts(s, d, mh, vals, ws), False, w, False) for s, d, mh, vals, ws, w in tier["check"]]
    jobs_c += [(f"prop-s{''.join(map(str, s))}d{d}", consts(s, d, mh, vals, ws), True, w, False) for s, d, mh, vals, ws, w in tier["props"]]
    jobs_c += [("selftest-bug", consts(1, 2, 3, "{1}", '{"a"}', bug="TRUE"), False, 1, True),
               ("selftest-bug-nested-ref", consts(8, 2, 6, "{1}", '{"a"}', bug="TRUE"), False, 1, True),     # ... also for parts that hold references
               ("selftest-bug-two-refs", consts(9, 1, 6, "{1}", '{"a"}', bug="TRUE"), False, 1, True)]       # ... and for two references sharing a duplicate
    mc, xstats, files, results = {}, {}, {}, []
    per_op = collections.Counter()
    gid = 0
    import multiprocessing
    from concurrent.futures import as_completed
    pool = ProcessPoolExecutor(max_workers=min(C.NCPU, tier["pool"]), mp_context=multiprocessing.get_context("spawn"))
    try:
        with ThreadPoolExecutor(max_workers=min(C.NCPU, tier["tlc_parallel"])) as ex:
            fx = [ex.submit(tlc_export, j) for j in jobs_x]          # exports first: their replay overlaps the model checking
            fc = [ex.submit(tlc_check, j) for j in jobs_c]
            rfut = []
            for f in as_completed(fx):
                tag, path, init, chunks, st = f.result()
                run.cov["states"] += st["distinct"]
                run.cov["transitions"] += st["generated"]
                xstats[tag] = dict(transitions=st["transitions"], groups=st["groups"], states=st["distinct"], wall=round(st["wall"], 1), realisations=nvar[tag])
                files[tag] = (path, init)
                for start, end, ng in chunks:
                    rfut.append(pool.submit(_worker, (tag, path, init, start, end, gid, nvar[tag], run.seed)))
                    gid += ng
            run.notes["t_export"] = round(time.time() - t1, 1)
            for f in fc:
                tag, res = f.result()
                mc[tag] = dict(states=res["distinct"], generated=res["generated"], wall=round(res["wall"], 1),
                               **({"violated_as_expected": res["violated"][:1]} if tag.startswith("selftest-bug") else {}))
                if not tag.startswith("selftest-bug"):
                    run.add_tlc(res)
            run.notes["t_tlc"] = round(time.time() - t1, 1)
            for f in rfut:
                tag, res, po = f.result()
                results += res
                per_op.update(po)
    finally:
        pool.shutdown(wait=True, cancel_futures=True)
    run.notes["model_checking"] = mc
    run.notes["export"] = xstats
    run.notes["groups_per_op"] = dict(per_op)
    run.notes["t_tlc_and_replay"] = round(time.time() - t1, 1)

    # ---- verdicts.  A violation is attributed to the FIRST step of its history that violates with the same realisation
    # (re-checked here, because a transition is not replayed with every realisation); later steps of such a history are
    # consequences, not new findings.
    status = collections.Counter()
    drift = collections.Counter()
    viol = []
    for r in results:
        status[r["status"]] += 1
        if r["status"] == "machinery":
            raise C.MachineryError("replay harness failed:\n" + r["err"])
        for d in r["drift"]:
            drift[d] += 1
        if r["status"] == "violation":
            viol.append(r)
    viol.sort(key=lambda r: (r["depth"], r["tag"], r["off"], r["vi"]))
    roots, cache, derived, lookups = {}, {}, 0, {}

    def emit(tag, vi, hist, cmd, alts, r):
        for key, desc in r["findings"]:
            d = f"[{tag} {VARIANTS[vi]['name']}] history " + "; ".join(_show(h["cmd"]) for h in hist) + " | " + desc
            run.report(key, d, dict(init=files[tag][1], variant=vi, hist=hist, cmd=cmd, alts=alts))

    for r in viol:
        tag, vi, hist, cmd = r["tag"], r["vi"], r["hist"], r["cmd"]
        cmds = [h["cmd"] for h in hist]
        rs = roots.setdefault((tag, vi), set())
        if any(_J(cmds[:k]) in rs for k in range(1, len(cmds) + 1)):
            derived += 1
            continue
        lk = lookups.setdefault(tag, Lookup(files[tag][0]))
        for k in range(1, len(cmds) + 1):
            ck = (tag, vi, _J(cmds[:k]))
            if ck not in cache:
                g = lk.get(cmds[:k - 1], cmds[k - 1])
                cache[ck] = (g, replay_group(files[tag][1], vi, *g)) if g else (None, None)
            g, rk = cache[ck]
            if rk and rk["status"] == "violation":
                rs.add(_J(cmds[:k]))
                emit(tag, vi, g[0], g[1], g[2], rk)
                derived += 1
                break
        else:
            rs.add(_J(cmds + [cmd]))
            alts = r.get("alts") or lk.get(cmds, cmd)[2]
            emit(tag, vi, hist, cmd, alts, r)
    run.notes["replay_status"] = dict(status)
    run.notes["violations_that_follow_an_earlier_violating_step"] = derived
    run.notes["model-drift"] = dict(drift)
    run.cov["traces_validated_against_impl"] = len(results)
    for tag, (path, init) in list(files.items())[:4]:
        for off, hist, cmd, alts in _read_groups(path, 0, 1 << 16)[-2:]:
            run.sample(dict(scen=tag, history=[_show(h["cmd"]) for h in hist], step=_show(cmd), outcomes=[a[0] for a in alts]))
    run.cov["exhaustive"] = False
    run.finish()
