"""Placement decision table (spec/XoPlace.tla): every combination of the constructor arguments _context / _buffer / _offset.

TLC enumerates the table (24 combinations) and checks its model-level statements; every combination is then executed on the
REAL library (two types x two input forms x both CPU buffer kinds x default alignment 1 and 8, in a buffer with live neighbours,
a freed hole and an unaligned lowest free byte, a second buffer of another context standing by) and what happened is recorded -
raised or not, which buffer the object landed in, at which offset, how many allocations the given buffer saw, every byte of a
pre-existing buffer that differs outside the new object, whether the object reads back its value - and validated by TLC against
the table (XoPlace!Clause).  Clauses `place:err:*` belong to C11 (cannot be honoured -> refused, no side effects), `place:ok:*`
to C01 (whatever buffer the object is placed in and wherever it lands).
"""
import json, os, shutil
import numpy as np
from . import common as C
from .world import buffer_classes

CFG = "SPECIFICATION Spec\nINVARIANT TableIsTotal\nINVARIANT RefusalsAreTheNamedOnes\nCHECK_DEADLOCK FALSE\n"
OWNER = {"place:err": "C11", "place:ok:": "C01"}


def _tlc(recs=None):
    wd = C.scratch("plc")
    env = {}
    if recs is not None:
        path = os.path.join(wd, "trace.json")
        json.dump(recs, open(path, "w"))
        env["TRACE_FILE"] = path
    open(os.path.join(wd, "pl.cfg"), "w").write(CFG)
    res = C.run_tlc("XoPlace", "pl.cfg", workdir=wd, workers=1, timeout=600, env=env)
    if res["rc"] != 0:
        keep = os.path.join(C.OUT, f"tlc_failure_place_{os.getpid()}")
        shutil.rmtree(keep, ignore_errors=True)
        shutil.copytree(wd, keep)
        raise C.MachineryError(f"XoPlace: TLC rc={res['rc']} (kept {keep})\n" + res["out"][-2000:])
    shutil.rmtree(wd, ignore_errors=True)
    return res


def _types(xo):
    class PlS(xo.Struct):
        a = xo.Int64
        b = xo.Float64
    PlA = xo.Float64[:]
    return [("struct", PlS, [dict(a=7, b=2.5), dict(a=-3, b=1e300)], lambda o: dict(a=int(o.a), b=float(o.b))),
            ("arr1d-dynshape", PlA, [[1.5, -2.0], [4.0, 8.0]], lambda o: [float(x) for x in o.to_nplike()] if hasattr(o, "to_nplike") else list(o))]


def _free_runs(buf):
    return [(int(c.start), int(c.end)) for c in buf.chunks]


def execute(case, tname, cls, vals, read, BK, al, form, xo):
    """one construction with the arguments of `case`; returns the record for TLC"""
    ctxA, ctxB = xo.ContextCpu(), xo.ContextCpu()
    bufA = BK(capacity=256, context=ctxA, default_alignment=al)
    bufB = BK(capacity=128, context=ctxB, default_alignment=al)
    n1 = cls(vals[1], _buffer=bufA)                 # live neighbours around a freed hole
    hole = bufA.allocate(40)
    n2 = cls(vals[1], _buffer=bufA)
    bufA.allocate(3, align=False)                   # the lowest free byte behind the objects is not aligned
    bufA.free(hole, 40)
    nb = cls(vals[1], _buffer=bufB)
    value = vals[0]
    src = cls(value, _buffer=bufB) if form == "xobject" else value      # (an xobject source lives in the other buffer)
    kw = {}
    if case["ctx"] != "none":
        kw["_context"] = ctxA if case["ctx"] == "own" else ctxB
    if case["buf"] == "given":
        kw["_buffer"] = bufA
    want = None
    if case["off"] == "int":
        want = ((hole + 7) // 8) * 8
        kw["_offset"] = want
    elif case["off"] != "none":
        kw["_offset"] = case["off"]
    before = {0: bufA.raw(), 1: bufB.raw()}
    runs = _free_runs(bufA)
    bufA._vlog = []
    bufB._vlog = []
    raised, obj, exc = False, None, ""
    try:
        obj = cls(src, **kw) if not isinstance(src, dict) else cls(**src, **kw)
    except Exception as ex:         # noqa
        raised, exc = True, type(ex).__name__ + ": " + str(ex)[:120]
    allocs = sum(1 for e in bufA._vlog if e[0] == "alloc")
    where, fctx, offok, readback, lo, hi, landed = "-", "unknown", True, True, 0, 0, None
    if obj is not None:
        ob = obj._buffer
        off = int(obj._offset)
        size = int(obj._size) if getattr(obj, "_size", None) is not None else int(cls._size or 0)
        if ob is bufA:
            where, landed = "given", 0
        elif ob is bufB:
            where, landed = "existing", 1
        else:
            where = "fresh"
            fctx = "own" if ob.context is ctxA else "other" if ob.context is ctxB else "unknown"
        lo, hi = off, off + size
        if where == "given":
            if case["off"] == "int":
                offok = off == want
            elif case["off"] == "packed":
                fit = [s for s, e in runs if e - s >= size]
                offok = bool(fit) and off == fit[0]
            else:
                offok = off % al == 0 and any(s <= off and off + size <= e for s, e in runs)
        try:
            readback = read(obj) == read(cls(value)) if not isinstance(value, dict) else read(obj) == value
        except Exception:           # noqa
            readback = False
    changed = 0
    for i, b in ((0, bufA), (1, bufB)):
        new, old = b.raw(), before[i]
        n = min(len(new), len(old))
        if new[:n] != old[:n]:
            a_old, a_new = np.frombuffer(old[:n], dtype=np.uint8), np.frombuffer(new[:n], dtype=np.uint8)
            idx = np.nonzero(a_old != a_new)[0]
            if landed == i:
                idx = idx[(idx < lo) | (idx >= hi)]
            changed += int(len(idx))
    # the neighbours still read their values (a changed byte inside them is already counted; this also catches a moved object)
    try:
        if read(n1) != read(n2) or read(n1) != read(nb):
            changed += 1
    except Exception:           # noqa
        changed += 1
    return dict(case, raised=raised, where=where, fctx=fctx, offok=bool(offok), allocs=allocs, newbufs=0, changed=changed,
                readback=bool(readback)), dict(type=tname, buffer=BK.__name__, alignment=al, form=form, exc=exc, kw=sorted(kw))


def model_level(run, pid):
    res = _tlc()
    run.add_tlc(res)
    cases = None
    for t in C.tlc_tuples(res["out"], "CASES"):
        cases = json.loads(t[1].replace('\\"', '"')) if isinstance(t[1], str) else None
    if not cases:
        import itertools
        cases = [dict(ctx=c, buf=b, off=o) for c, b, o in itertools.product(("none", "own", "other"), ("none", "given"), ("none", "aligned", "packed", "int"))]
    xo = C.use_repo()
    recs, meta = [], []
    for BK in buffer_classes():
        for tname, cls, vals, read in _types(xo):
            for al in (1, 8):
                for form in ("data", "xobject"):
                    for case in cases:
                        try:
                            r, m = execute(case, tname, cls, vals, read, BK, al, form, xo)
                        except Exception as ex:         # noqa
                            raise C.MachineryError(f"placement scenario could not be set up ({case}, {tname}): {type(ex).__name__}: {ex}")
                        recs.append(r)
                        meta.append(m)
    res = _tlc(recs)
    vs = C.tlc_tuples(res["out"], "VERDICT")
    if len(vs) != len(recs):
        raise C.MachineryError(f"XoPlace: {len(vs)} verdicts for {len(recs)} records\n" + res["out"][-1500:])
    run.cov["states"] += res["distinct"]
    run.cov["transitions"] += res["generated"]
    n_mine = 0
    for v in vs:
        clause = str(v[2])
        r, m = recs[v[1] - 1], meta[v[1] - 1]
        if not clause:
            continue
        owner = "C11" if clause.startswith("place:err") else "C01"
        if owner != pid:
            run.count("placement_clauses_of_other_properties")
            continue
        n_mine += 1
        run.report(clause + ":" + m["type"], f"{m['type']}({m['form']}, {', '.join(m['kw']) or 'no placement arguments'}) with _context={r['ctx']} _buffer={r['buf']} _offset={r['off']} "
                   f"on {m['buffer']} (default alignment {m['alignment']}): {clause}; observed raised={r['raised']} ({m['exc']}) where={r['where']} allocs={r['allocs']} "
                   f"bytes changed elsewhere={r['changed']} readback={r['readback']}", dict(place=dict(case={k: r[k] for k in ("ctx", "buf", "off")}, meta=m)))
    run.notes["placement_table"] = dict(combinations=len(cases), constructions_validated_by_TLC=len(recs),
                                        refused=sum(1 for r in recs if r["raised"]), fresh=sum(1 for r in recs if r["where"] == "fresh"),
                                        given=sum(1 for r in recs if r["where"] == "given"))
    run.cov["traces_validated_against_impl"] += len(recs)


def replay(run, pid, rp):
    xo = C.use_repo()
    BK = [b for b in buffer_classes() if b.__name__ == rp["meta"]["buffer"]][0]
    t = [x for x in _types(xo) if x[0] == rp["meta"]["type"]][0]
    r, m = execute(rp["case"], t[0], t[1], t[2], t[3], BK, rp["meta"]["alignment"], rp["meta"]["form"], xo)
    res = _tlc([r])
    clause = str(C.tlc_tuples(res["out"], "VERDICT")[0][2])
    if clause and ("C11" if clause.startswith("place:err") else "C01") == pid:
        run.report(clause + ":" + m["type"], f"replayed: {clause}; observed {r}", dict(place=rp))
