------------------------------ MODULE XoBytes ------------------------------
(***************************************************************************)
(* Contract-level specification of the CPU byte store of xobjects           *)
(* (xobjects/context_cpu.py BufferNumpy / BufferByteArray, the primitives   *)
(* of xobjects/context.py XBuffer).  Property C13:                          *)
(*   every primitive that copies bytes moves exactly the requested bytes to *)
(*   exactly the requested offsets and leaves every other byte untouched;   *)
(*   extracted copies are independent of the buffer; typed array views      *)
(*   alias the buffer bytes they cover.                                     *)
(*                                                                          *)
(* State = what a user of two buffers A and B can observe:                  *)
(*   mem     every piece of byte storage that exists (sequence of stores;   *)
(*           a store is a sequence of byte tokens).  Stores are created by  *)
(*           the initial buffers, by every extraction (copy) and by growth  *)
(*           (a grown buffer gets NEW storage: a new generation)            *)
(*   buf     the store currently backing each buffer   (bytes[b] = mem[buf[b]]) *)
(*   gen     storage generation of each buffer (number of growths)          *)
(*   copies  held extracted copies: own store + snapshot (independence      *)
(*           obligation: nothing but a write aimed AT the copy changes it)  *)
(*   views   held typed views: buffer, generation, window [off, off+n),     *)
(*           item width (aliasing obligation, claimed only while the view's *)
(*           generation is the buffer's current one)                        *)
(*   last    ghost: the destination window [st, off, n) of the last action  *)
(*           (st = 0: the action had no destination) - used by Frame        *)
(*   step    number of primitives executed                                  *)
(*                                                                          *)
(* Byte tokens are small integers; every token written by the environment   *)
(* is determined by (step, position in the data), the initial content by    *)
(* (buffer, position), so a shifted or swapped copy is a different state.   *)
(* Actions take the written data as a parameter so that the trace           *)
(* specification XoBytesTrace can evaluate them on logged real bytes.       *)
(***************************************************************************)
EXTENDS Integers, Sequences, FiniteSets, TLC

CONSTANTS Caps,         \* set of <<capA, capB>>: initial capacities explored
          MaxCap,       \* bound on the capacity reachable by Grow
          Widths,       \* item widths of typed views / typed sources
          Layouts,      \* source layouts of update_from_nplike ("C", "F", "S"): no influence on the contract
          MaxSteps,     \* length of the explored primitive sequences
          GrowAmounts,  \* amounts for an explicit grow()
          NativeLens    \* lengths of caller-provided fresh native storage (copy_to_native destination)

VARIABLES mem, buf, gen, copies, views, last, step
vars == <<mem, buf, gen, copies, views, last, step>>

Bufs == {"A", "B"}
Other(b) == IF b = "A" THEN "B" ELSE "A"
NoDest == [st |-> 0, off |-> 0, n |-> 0]

(* ---------------------------------------------------------------- tokens *)
InitTok(b, k) == (IF b = "A" THEN 16 ELSE 32) + k - 1
Fresh(s, n) == [k \in 1..n |-> 48 + 16 * s + k - 1]      \* data supplied by the environment at step s
Fill(n) == [k \in 1..n |-> 112 + k - 1]                   \* prior content of caller-provided native storage

(* ---------------------------------------------------------------- byte sequences *)
Win(s, off, n) == SubSeq(s, off + 1, off + n)
Splice(s, off, d) == [k \in 1..Len(s) |-> IF k > off /\ k <= off + Len(d) THEN d[k - off] ELSE s[k]]
Inside(s, off, n) == off >= 0 /\ n >= 0 /\ off + n <= Len(s)
Bytes(b) == mem[buf[b]]
Cap(b) == Len(mem[buf[b]])
Current(v) == v.st = buf[v.b] /\ v.gen = gen[v.b]
ViewVal(v) == Win(mem[v.st], v.off, v.n)                   \* what a view shows: the bytes of the storage it was taken from
(* stores of the buffer's own ("native") storage type that a caller can hand to update_from_native / copy_to_native *)
NativeStores == {buf[b] : b \in Bufs} \cup {copies[i].st : i \in {j \in DOMAIN copies : copies[j].kind = "native"}}

Init ==
  /\ \E c \in Caps : mem = << [k \in 1..c[1] |-> InitTok("A", k)], [k \in 1..c[2] |-> InitTok("B", k)] >>
  /\ buf = [b \in Bufs |-> IF b = "A" THEN 1 ELSE 2]
  /\ gen = [b \in Bufs |-> 0]
  /\ copies = << >> /\ views = << >>
  /\ last = NoDest /\ step = 0

(* write d at [off, off+Len(d)) of store st; a copy living in that store is written on purpose: its snapshot follows *)
WriteSt(st, off, d) ==
  /\ mem' = [mem EXCEPT ![st] = Splice(@, off, d)]
  /\ copies' = [i \in DOMAIN copies |-> IF copies[i].st = st THEN [copies[i] EXCEPT !.snap = Splice(@, off, d)] ELSE copies[i]]
  /\ last' = [st |-> st, off |-> off, n |-> Len(d)]
  /\ step' = step + 1

(* a new object holding d is handed out *)
NewCopy(d, kind) ==
  /\ mem' = Append(mem, d)
  /\ copies' = Append(copies, [st |-> Len(mem) + 1, snap |-> d, kind |-> kind])
  /\ step' = step + 1

(* ---------------------------------------------------------------- the primitives *)
(* update_from_buffer(off, source): source is Python bytes-like data of Len(d) BYTES *)
UpdateFromBuffer(b, off, d) ==
  /\ Inside(Bytes(b), off, Len(d))
  /\ WriteSt(buf[b], off, d)
  /\ UNCHANGED <<buf, gen, views>>

(* update_from_native(off, source, source_offset, nbytes): source is native storage (possibly the buffer's own: *)
(* the bytes moved are the source bytes as they were BEFORE the call)                                          *)
UpdateFromNative(b, off, st, soff, n) ==
  /\ st \in NativeStores
  /\ Inside(Bytes(b), off, n) /\ Inside(mem[st], soff, n)
  /\ WriteSt(buf[b], off, Win(mem[st], soff, n))
  /\ UNCHANGED <<buf, gen, views>>

(* copy_to_native(dest, dest_offset, source_offset, nbytes) into existing native storage (another buffer's, a held one) *)
CopyToNative(b, st, doff, soff, n) ==
  /\ st \in NativeStores \ {buf[b]}
  /\ Inside(mem[st], doff, n) /\ Inside(Bytes(b), soff, n)
  /\ WriteSt(st, doff, Win(Bytes(b), soff, n))
  /\ UNCHANGED <<buf, gen, views>>

(* copy_to_native into fresh native storage of length len provided by the caller (prior content f), which the caller keeps *)
CopyToFresh(b, len, doff, soff, n, f) ==
  /\ Len(f) = len /\ Inside(f, doff, n) /\ Inside(Bytes(b), soff, n)
  /\ NewCopy(Splice(f, doff, Win(Bytes(b), soff, n)), "native")
  /\ last' = [st |-> Len(mem) + 1, off |-> doff, n |-> n]
  /\ UNCHANGED <<buf, gen, views>>

(* to_native(off, n): fresh native storage holding the window *)
ToNative(b, off, n) ==
  /\ Inside(Bytes(b), off, n)
  /\ NewCopy(Win(Bytes(b), off, n), "native")
  /\ last' = NoDest /\ UNCHANGED <<buf, gen, views>>

(* to_bytearray(off, n) (and the scalar reader built on it): an independent copy of the window *)
ToBytearray(b, off, n) ==
  /\ Inside(Bytes(b), off, n)
  /\ NewCopy(Win(Bytes(b), off, n), "bytes")
  /\ last' = NoDest /\ UNCHANGED <<buf, gen, views>>

(* to_nplike / to_nparray(off, dtype of width w, shape with cnt items): a typed VIEW of [off, off + w*cnt) *)
ToNplike(b, off, w, cnt) ==
  /\ Inside(Bytes(b), off, w * cnt)
  /\ views' = Append(views, [b |-> b, gen |-> gen[b], st |-> buf[b], off |-> off, n |-> w * cnt, w |-> w])
  /\ last' = NoDest /\ step' = step + 1
  /\ UNCHANGED <<mem, buf, gen, copies>>

(* to_pointer_arg(off, n): "data that can be used as argument in kernel".  The property does not say whether this *)
(* is a copy or a view: both are allowed, the choice k is bound from the observation                             *)
ToPointerArg(b, off, n, k) ==
  /\ Inside(Bytes(b), off, n)
  /\ \/ k = "copy" /\ NewCopy(Win(Bytes(b), off, n), "bytes") /\ UNCHANGED views
     \/ k = "view" /\ views' = Append(views, [b |-> b, gen |-> gen[b], st |-> buf[b], off |-> off, n |-> n, w |-> 1])
                   /\ step' = step + 1 /\ UNCHANGED <<mem, copies>>
  /\ last' = NoDest /\ UNCHANGED <<buf, gen>>

(* update_from_nplike(off, dest dtype of width wd, array of cnt items of width ws in layout lay):              *)
(* exactly cnt * wd bytes d land at off (d = the items converted to the destination dtype in index order;      *)
(* the numeric conversion itself is NumPy's astype and outside this specification)                             *)
UpdateFromNplike(b, off, wd, ws, cnt, lay, d) ==
  /\ wd \in Widths /\ ws \in Widths /\ lay \in Layouts
  /\ Len(d) = wd * cnt
  /\ UpdateFromBuffer(b, off, d)

(* update_from_xbuffer(off, source buffer, source_offset, nbytes): same bytes whether the two buffers share a   *)
(* context (native path) or not (through a bytearray)                                                           *)
UpdateFromXbuffer(b, off, src, soff, n) ==
  /\ Inside(Bytes(b), off, n) /\ Inside(Bytes(src), soff, n)
  /\ WriteSt(buf[b], off, Win(Bytes(src), soff, n))
  /\ UNCHANGED <<buf, gen, views>>

(* the user writes item k of a held view of the current generation *)
WriteView(i, k, d) ==
  /\ i \in DOMAIN views /\ Current(views[i])
  /\ Len(d) = views[i].w /\ k >= 0 /\ (k + 1) * views[i].w <= views[i].n
  /\ WriteSt(views[i].st, views[i].off + k * views[i].w, d)
  /\ UNCHANGED <<buf, gen, views>>

(* the user writes into a held copy *)
WriteCopy(i, pos, d) ==
  /\ i \in DOMAIN copies
  /\ Inside(mem[copies[i].st], pos, Len(d))
  /\ WriteSt(copies[i].st, pos, d)
  /\ UNCHANGED <<buf, gen, views>>

(* grow(n): the buffer gets new storage (new generation) whose first Cap(b) bytes are the old content; *)
(* the content f of the new bytes is not specified (bound from the observation)                        *)
Grow(b, n, f) ==
  /\ n > 0 /\ Len(f) = n
  /\ mem' = Append(mem, Bytes(b) \o f)
  /\ buf' = [buf EXCEPT ![b] = Len(mem) + 1]
  /\ gen' = [gen EXCEPT ![b] = @ + 1]
  /\ last' = NoDest /\ step' = step + 1
  /\ UNCHANGED <<copies, views>>

(* ---------------------------------------------------------------- bounded exploration *)
Offs(b) == 0..Cap(b)
Next ==
  /\ step < MaxSteps
  /\ \/ \E b \in Bufs : \E off \in Offs(b) : \E n \in 0..(Cap(b) - off) : UpdateFromBuffer(b, off, Fresh(step, n))
     \/ \E b \in Bufs, st \in NativeStores : \E off \in Offs(b) : \E n \in 0..(Cap(b) - off) :
          \E soff \in 0..(Len(mem[st]) - n) : UpdateFromNative(b, off, st, soff, n)
     \/ \E b \in Bufs, st \in NativeStores : \E soff \in Offs(b) : \E n \in 0..(Cap(b) - soff) :
          \E doff \in 0..(Len(mem[st]) - n) : CopyToNative(b, st, doff, soff, n)
     \/ \E b \in Bufs, len \in NativeLens : \E soff \in Offs(b) : \E n \in 0..(Cap(b) - soff) :
          \E doff \in 0..(len - n) : CopyToFresh(b, len, doff, soff, n, Fill(len))
     \/ \E b \in Bufs : \E off \in Offs(b) : \E n \in 0..(Cap(b) - off) :
          \/ ToNative(b, off, n)
          \/ ToBytearray(b, off, n)
          \/ \E k \in {"copy", "view"} : ToPointerArg(b, off, n, k)
     \/ \E b \in Bufs, w \in Widths : \E off \in Offs(b) : \E cnt \in 0..((Cap(b) - off) \div w) : ToNplike(b, off, w, cnt)
     \/ \E b \in Bufs, wd \in Widths, ws \in Widths, lay \in Layouts : \E off \in Offs(b) : \E cnt \in 0..((Cap(b) - off) \div wd) :
          UpdateFromNplike(b, off, wd, ws, cnt, lay, Fresh(step, wd * cnt))
     \/ \E b \in Bufs, src \in Bufs : \E off \in Offs(b) : \E n \in 0..(Cap(b) - off) :
          \E soff \in 0..(Cap(src) - n) : UpdateFromXbuffer(b, off, src, soff, n)
     \/ \E i \in DOMAIN views : \E k \in 0..((views[i].n \div views[i].w) - 1) : WriteView(i, k, Fresh(step, views[i].w))
     \/ \E i \in DOMAIN copies : \E pos \in 0..(Len(mem[copies[i].st]) - 1) : WriteCopy(i, pos, Fresh(step, 1))
     \/ \E b \in Bufs, n \in GrowAmounts : Cap(b) + n <= MaxCap /\ Grow(b, n, Fresh(step, n))

Spec == Init /\ [][Next]_vars

(* ---------------------------------------------------------------- C13 *)
TypeOK ==
  /\ \A b \in Bufs : buf[b] \in 1..Len(mem)
  /\ \A i \in DOMAIN copies : copies[i].st \in 1..Len(mem) /\ copies[i].st \notin {buf[b] : b \in Bufs}
  /\ \A i, j \in DOMAIN copies : i # j => copies[i].st # copies[j].st
  /\ \A i \in DOMAIN views : Inside(mem[views[i].st], views[i].off, views[i].n)

(* extracted copies are independent of the buffer: a copy holds its snapshot whatever is done to any buffer, view or other copy *)
Independent == \A i \in DOMAIN copies : mem[copies[i].st] = copies[i].snap

(* typed views alias the buffer bytes they cover (claimed within one storage generation) *)
Aliases == \A i \in DOMAIN views : Current(views[i]) => ViewVal(views[i]) = Win(Bytes(views[i].b), views[i].off, views[i].n)

(* exactly the requested bytes: no storage changes its length, nothing outside the destination window changes, *)
(* storage that is not the destination does not change at all (in particular the source), nothing disappears   *)
FrameStep ==
  /\ Len(mem') >= Len(mem)
  /\ \A s \in 1..Len(mem) :
       /\ Len(mem'[s]) = Len(mem[s])
       /\ \A x \in 1..Len(mem[s]) : (s # last'.st \/ x <= last'.off \/ x > last'.off + last'.n) => mem'[s][x] = mem[s][x]
Frame == [][FrameStep]_vars

(* the capacity of a buffer changes only by growth, and growth keeps the content *)
CapStable == [][\A b \in Bufs : IF gen'[b] = gen[b] THEN buf'[b] = buf[b]
                                ELSE Win(mem'[buf'[b]], 0, Cap(b)) = Bytes(b)]_vars
=============================================================================
