------------------------------ MODULE XoSerial ------------------------------
(***************************************************************************)
(* Property C19: dictionary and JSON forms rebuild an equal object.        *)
(*                                                                         *)
(* Part A  hybrid classes: to_dict / from_dict (xobjects/hybrid_class.py)  *)
(*   A class definition is a sequence of FIELD DESCRIPTORS                 *)
(*     [kind, dk, ren, vc]                                                 *)
(*     kind : "sc" scalar, "str" string, "arr" static scalar array,        *)
(*            "darr" dynamic-length scalar array, "nest" nested hybrid     *)
(*            class, "xs" plain xobject struct field                       *)
(*     dk   : "none" no declared default, "default", "factory"             *)
(*     ren  : the field is shown under another python name (_rename)       *)
(*     vc   : value class of the object under test for that field          *)
(*            "default" = equal to the declared default,                   *)
(*            "zero"    = the type's zero / empty value (what a constructor *)
(*                        supplies when nothing is declared, if anything), *)
(*            "other"   = different from both (same length for darr),      *)
(*            "otherlen"= different, and of another length (darr only)     *)
(*   The object is the function field index -> value class; the dictionary *)
(*   is the set of field indices whose key is present (values of present   *)
(*   keys are the field values: checked on the real code).                 *)
(*                                                                         *)
(*   Contract (the two clauses of the property):                           *)
(*     ELISION   a field equal to its DECLARED default is omitted - for    *)
(*               every field kind, renamed or not;                         *)
(*     ROUNDTRIP FromDict(ToDict(obj)) = obj, hence a key may be absent    *)
(*               only if the constructor supplies exactly the field value. *)
(*   Whether a field WITHOUT declared default that holds the implicit zero *)
(*   is written or omitted is left open (both satisfy the property).       *)
(*                                                                         *)
(* Part B  ToJson for reference-free structs / 1-D arrays (struct.py       *)
(*   _to_json, array.py _to_json) - used by XoSerialTrace.tla on recorded  *)
(*   real (type, value, json form, rebuilt value) tuples.                  *)
(***************************************************************************)
EXTENDS Integers, Sequences, FiniteSets, TLC

CONSTANTS CtxUpTo,       \* class definitions of up to this many fields are enumerated in every definition context
          MaxFields,     \* class definitions of 1..MaxFields fields
          SeqUpTo        \* up to this many fields every ORDER of descriptors is enumerated, above only sorted ones
                         \* (no clause of the contract depends on the order of the fields)

Kinds == {"sc", "str", "arr", "darr", "nest", "xs"}
VCs(kind, dk) ==
  CASE kind \in {"nest", "xs"} -> {"zero", "other"}
    [] dk = "none" -> {"zero", "other"}
    [] kind = "darr" /\ dk = "default" -> {"default", "zero", "other", "otherlen"}
    [] kind = "darr" /\ dk = "factory" -> {"default", "otherlen"}
    [] kind = "sc" /\ dk = "default" -> {"default", "zero", "other"}
    [] OTHER -> {"default", "other"}
DKs(kind) == IF kind \in {"nest", "xs"} THEN {"none"} ELSE {"none", "default", "factory"}
Descs == UNION {UNION {{[kind |-> k, dk |-> d, ren |-> r, vc |-> v] : r \in BOOLEAN, v \in VCs(k, d)} : d \in DKs(k)} : k \in Kinds}

(* a total order on descriptors, only used to enumerate multisets *)
KindNo(k) == CASE k = "sc" -> 1 [] k = "str" -> 2 [] k = "arr" -> 3 [] k = "darr" -> 4 [] k = "nest" -> 5 [] k = "xs" -> 6
DkNo(d) == CASE d = "none" -> 0 [] d = "default" -> 1 [] d = "factory" -> 2
VcNo(v) == CASE v = "default" -> 0 [] v = "zero" -> 1 [] v = "other" -> 2 [] v = "otherlen" -> 3
Code(f) == ((KindNo(f.kind) * 3 + DkNo(f.dk)) * 2 + (IF f.ren THEN 1 ELSE 0)) * 4 + VcNo(f.vc)
Sorted(c) == \A i \in 1..(Len(c) - 1) : Code(c[i]) <= Code(c[i + 1])

(* ------------------------------------------------------------------ the constructor (FromDict for an absent key) *)
HasImplicit(kind) == kind \in {"sc", "arr", "nest", "xs"}    \* String() and a dynamic array cannot be built from nothing
Supplied(f) == IF f.dk # "none" THEN "default"                \* what the constructor puts into a field whose key is absent
               ELSE IF HasImplicit(f.kind) THEN "zero" ELSE "FAIL"

(* ------------------------------------------------------------------ contract *)
AlwaysWritten(f) == f.kind \in {"nest", "xs"}                 \* nested objects are written as their own dictionary
MustOmit(f) == ~AlwaysWritten(f) /\ f.dk # "none" /\ f.vc = "default"              \* ELISION
MayOmit(f) == ~AlwaysWritten(f) /\ Supplied(f) = f.vc                              \* ROUNDTRIP allows absence
Presence(f) == IF MustOmit(f) THEN "mustnot" ELSE IF MayOmit(f) THEN "may" ELSE "must"
(* all dictionaries (sets of present keys) the contract allows for class c with the object's value classes *)
ToDict(c) == {P \in SUBSET (1..Len(c)) : \A i \in 1..Len(c) : (MustOmit(c[i]) => i \notin P) /\ (i \notin P => MayOmit(c[i]))}
FromDict(c, P) == [i \in 1..Len(c) |-> IF i \in P THEN c[i].vc ELSE Supplied(c[i])]
Obj(c) == [i \in 1..Len(c) |-> c[i].vc]

(* ------------------------------------------------------------------ the pinned tree's to_dict, transcribed (drift information only) *)
CodeDefault(f) == IF f.ren THEN "NONE"                        \* defaults are keyed by the xobject name, looked up by the python name
                  ELSE IF f.dk # "none" THEN "default"
                  ELSE IF f.kind \in {"sc", "arr"} THEN "zero" ELSE "NONE"   \* ftype() raises for String and dynamic arrays
CodePresent(f) ==
  IF AlwaysWritten(f) THEN "yes"
  ELSE LET d == CodeDefault(f) IN
    IF d = "NONE" THEN (IF f.kind = "darr" /\ f.vc = "zero" THEN "no" ELSE "yes")      \* np.any(None != empty array) is False
    ELSE IF f.kind = "str" /\ f.dk = "default" THEN "yes"                                \* xo.String instance != str (a factory hands back the str itself)
    ELSE IF f.kind = "darr" /\ f.vc \in {"otherlen", "zero"} THEN "RAISES"               \* shapes do not broadcast
    ELSE IF f.vc = d THEN "no" ELSE "yes"
CodeDeviates(f) == \/ CodePresent(f) = "RAISES"
                   \/ CodePresent(f) = "yes" /\ Presence(f) = "mustnot"
                   \/ CodePresent(f) = "no" /\ Presence(f) = "must"
Deviations == {f \in Descs : CodeDeviates(f)}

(* ------------------------------------------------------------------ enumeration: one TLC state per class definition *)
(* HOW and WHEN the class was defined / used does not enter the contract: ToDict depends on the class's own declared *)
(* defaults and on the object's values only.  The contexts are enumerated so that every definition is exercised as   *)
(*   "plain"          a stand-alone class, first use,                                                                *)
(*   "repeat"         after another object of the same class (other values) was converted,                          *)
(*   "sub-inherit"    a subclass that inherits the parent's fields, after a parent object was converted,             *)
(*   "sub-redeclare"  a subclass that re-declares the fields with its own defaults, after an object of the parent    *)
(*                    (same fields, other declared defaults) was converted,                                          *)
(*   "any"            one of the above, chosen by the harness.                                                       *)
Contexts == {"plain", "repeat", "sub-inherit", "sub-redeclare"}
VARIABLES cls, ctx
(* the empty definition is the root; every step appends one descriptor (any up to SeqUpTo fields, keeping the whole *)
(* definition sorted above), so every state except the root IS one class definition and TLC's workers share the work *)
CtxOf(c) == IF Len(c) <= CtxUpTo THEN Contexts ELSE {"any"}
Init == cls = <<>> /\ ctx = "plain"
Next == /\ Len(cls) < MaxFields
        /\ ctx = (IF Len(cls) <= CtxUpTo THEN "plain" ELSE "any")          \* extend one representative per definition
        /\ \E f \in Descs : /\ cls' = Append(cls, f)
                             /\ (Len(cls') <= SeqUpTo \/ Sorted(cls'))
                             /\ ctx' \in CtxOf(cls')
Spec == Init /\ [][Next]_<<cls, ctx>>

(* THEOREM of the contract: it is satisfiable for every class and every allowed dictionary rebuilds the object *)
Satisfiable == ToDict(cls) # {}
RoundTrip == \A P \in ToDict(cls) : FromDict(cls, P) = Obj(cls)
ElisionRespected == \A P \in ToDict(cls) : \A i \in 1..Len(cls) : MustOmit(cls[i]) => i \notin P
(* omitting more than the contract allows breaks the round trip: the "may" set is exact *)
Exact == \A i \in 1..Len(cls) : ~AlwaysWritten(cls[i]) /\ ~MayOmit(cls[i]) =>
            FromDict(cls, (1..Len(cls)) \ {i})[i] # Obj(cls)[i]

(* ------------------------------------------------------------------ Part B: JSON form *)
(* type expression T: [k |-> "sc"], [k |-> "str"], [k |-> "struct", f |-> <<[n |-> name, t |-> T], ...>>],          *)
(*                    [k |-> "arr", it |-> T, n |-> length or -1]                                                    *)
(* value normal form: scalar / string = opaque token (string), struct = sequence of field values in declaration      *)
(* order, array = sequence of items.   JSON form: struct = record keyed by field name, array = sequence.             *)
RECURSIVE ToJsonF(_, _)
ToJsonF(T, v) ==
  CASE T.k = "sc" -> v
    [] T.k = "str" -> v
    [] T.k = "struct" -> [nm \in {T.f[i].n : i \in 1..Len(T.f)} |->
                            LET i == CHOOSE j \in 1..Len(T.f) : T.f[j].n = nm IN ToJsonF(T.f[i].t, v[i])]
    [] T.k = "arr" -> [i \in 1..Len(v) |-> ToJsonF(T.it, v[i])]
RECURSIVE WFV(_, _)
WFV(T, v) ==
  CASE T.k \in {"sc", "str"} -> TRUE
    [] T.k = "struct" -> Len(v) = Len(T.f) /\ \A i \in 1..Len(T.f) : WFV(T.f[i].t, v[i])
    [] T.k = "arr" -> (T.n >= 0 => Len(v) = T.n) /\ \A i \in 1..Len(v) : WFV(T.it, v[i])
=============================================================================
