SPECIFICATION Spec
INVARIANT TableIsTotal
INVARIANT RefusalsAreTheNamedOnes
CHECK_DEADLOCK FALSE
