---------------------------- MODULE XoBytesTrace ----------------------------
(***************************************************************************)
(* Trace validation of REAL executions of the CPU buffer primitives         *)
(* against the contract XoBytes (property C13).                             *)
(* Input (env TRACE_FILE): a JSON list of traces.  A trace has the initial  *)
(* bytes of the two buffers and a list of events, one per primitive call,   *)
(* recorded at its return (also on the error path):                         *)
(*   op, arguments as small integers, the data handed in (byte list),       *)
(*   exc (name of a raised exception or ""), and what the harness SAW       *)
(*   change, as raw byte diffs (the harness does not interpret them):       *)
(*     chg  = [[store id, start, [bytes]] ..]  one run per existing storage *)
(*            whose content changed (first..last changed byte)              *)
(*     lens = [[store id, [all bytes]] ..]     storage whose LENGTH changed *)
(*     new  = [hasnew, [bytes]]                content of a returned object *)
(*     vnew = [hasnew, [bytes]]                content of a returned view   *)
(*     vchg = [[view id, start, [bytes]] ..]   held views whose content changed *)
(* Store ids are the model's: 1 = A, 2 = B, then one per returned object /  *)
(* growth, in order.  Each step binds the primed variables to the           *)
(* observation and then evaluates the contract; the verdict names the       *)
(* clause of the contract the real step broke.  The state is always         *)
(* re-synchronised to the observation, so later steps are judged on what    *)
(* the real buffers actually hold.                                          *)
(***************************************************************************)
EXTENDS XoBytes, Json, IOUtils

Traces == JsonDeserialize(IOEnv.TRACE_FILE)

VARIABLES tid, l, vobs      \* trace id, position, observed content of every held view
tvars == <<vars, tid, l, vobs>>

Ev(t) == Traces[t].ev

(* ---- observation -> state *)
Patch(s, start, d) == Splice(s, start, d)
ObsStore(e, s) ==
  IF \E i \in DOMAIN e.lens : e.lens[i][1] = s THEN e.lens[CHOOSE i \in DOMAIN e.lens : e.lens[i][1] = s][2]
  ELSE IF \E i \in DOMAIN e.chg : e.chg[i][1] = s
       THEN LET c == e.chg[CHOOSE i \in DOMAIN e.chg : e.chg[i][1] = s] IN Patch(mem[s], c[2], c[3])
       ELSE mem[s]
ObsMem(e) == LET old == [s \in 1..Len(mem) |-> ObsStore(e, s)] IN IF e.new[1] = 1 THEN Append(old, e.new[2]) ELSE old
ObsView(e, i) == IF \E j \in DOMAIN e.vchg : e.vchg[j][1] = i
                 THEN LET c == e.vchg[CHOOSE j \in DOMAIN e.vchg : e.vchg[j][1] = i] IN Patch(vobs[i], c[2], c[3])
                 ELSE vobs[i]
ObsViews(e) == LET old == [i \in 1..Len(vobs) |-> ObsView(e, i)] IN IF e.vnew[1] = 1 THEN Append(old, e.vnew[2]) ELSE old

(* ---- what the contract expects of the step *)
Dest(e) ==
  CASE e.op \in {"ufb", "unp", "ufn", "ufx"} -> [st |-> buf[e.b], off |-> e.off, n |-> IF e.op \in {"ufb", "unp"} THEN Len(e.data) ELSE e.n]
    [] e.op = "ctn" -> [st |-> e.st, off |-> e.off, n |-> e.n]
    [] e.op = "wv"  -> [st |-> views[e.st].st, off |-> views[e.st].off + e.k * views[e.st].w, n |-> Len(e.data)]
    [] e.op = "wc"  -> [st |-> copies[e.st].st, off |-> e.off, n |-> Len(e.data)]
    [] e.op = "ctf" -> [st |-> Len(mem) + 1, off |-> e.off, n |-> e.n]
    [] OTHER -> NoDest
Data(e) ==
  CASE e.op \in {"ufb", "unp", "wv", "wc"} -> e.data
    [] e.op = "ufn" -> Win(mem[e.st], e.soff, e.n)
    [] e.op = "ufx" -> Win(Bytes(e.src), e.soff, e.n)
    [] e.op = "ctn" -> Win(Bytes(e.b), e.soff, e.n)
    [] OTHER -> << >>
Creates(e) == e.op \in {"ton", "tob", "ctf", "grow"} \/ (e.op = "tpa" /\ e.kind = "copy")
MakesView(e) == e.op = "tnp" \/ (e.op = "tpa" /\ e.kind = "view")
NewExp(e) ==
  CASE e.op \in {"ton", "tob", "tpa"} -> Win(Bytes(e.b), e.off, e.n)
    [] e.op = "ctf" -> Splice(e.data, e.off, Win(Bytes(e.b), e.soff, e.n))
    [] OTHER -> << >>
CopyStores == {copies[i].st : i \in DOMAIN copies}
SrcStore(e) == CASE e.op = "ufn" -> e.st [] e.op = "ufx" -> buf[e.src] [] e.op \in {"ctn", "ctf", "ton", "tob", "tpa", "tnp", "grow"} -> buf[e.b] [] OTHER -> 0

(* the request must be one the contract covers (inside the capacity); the harness only issues such requests *)
Covered(e) ==
  CASE e.op \in {"ufb", "unp"} -> Inside(Bytes(e.b), e.off, Len(e.data)) /\ (e.op = "unp" => Len(e.data) = e.w * e.cnt)
    [] e.op = "ufn" -> e.st \in NativeStores /\ Inside(Bytes(e.b), e.off, e.n) /\ Inside(mem[e.st], e.soff, e.n)
    [] e.op = "ufx" -> Inside(Bytes(e.b), e.off, e.n) /\ Inside(Bytes(e.src), e.soff, e.n)
    [] e.op = "ctn" -> e.st \in NativeStores \ {buf[e.b]} /\ Inside(mem[e.st], e.off, e.n) /\ Inside(Bytes(e.b), e.soff, e.n)
    [] e.op = "ctf" -> Inside(e.data, e.off, e.n) /\ Inside(Bytes(e.b), e.soff, e.n)
    [] e.op \in {"ton", "tob", "tpa"} -> Inside(Bytes(e.b), e.off, e.n)
    [] e.op = "tnp" -> Inside(Bytes(e.b), e.off, e.w * e.cnt) /\ e.n = e.w * e.cnt
    [] e.op = "wv" -> e.st \in DOMAIN views /\ Current(views[e.st]) /\ Len(e.data) = views[e.st].w /\ (e.k + 1) * views[e.st].w <= views[e.st].n
    [] e.op = "wc" -> e.st \in DOMAIN copies /\ Inside(mem[copies[e.st].st], e.off, Len(e.data))
    [] e.op = "grow" -> e.n > 0
    [] OTHER -> FALSE

RunOutside(c, d) == c[2] < d.off \/ c[2] + Len(c[3]) > d.off + d.n

Clause(e) ==
  LET d == Dest(e) IN
  IF ~Covered(e) THEN "harness:request-not-covered"
  ELSE IF e.exc # "" THEN (IF Len(e.chg) = 0 /\ Len(e.lens) = 0 THEN "raised" ELSE "raised-after-partial-write")
  ELSE IF Len(e.lens) > 0 THEN "length-changed"
  ELSE IF \E i \in DOMAIN e.chg : e.chg[i][1] # d.st /\ e.chg[i][1] \in CopyStores THEN "independence:held-copy-changed"
  ELSE IF \E i \in DOMAIN e.chg : e.chg[i][1] # d.st /\ e.chg[i][1] = SrcStore(e) THEN "frame:source-changed"
  ELSE IF \E i \in DOMAIN e.chg : e.chg[i][1] # d.st THEN "frame:other-storage-changed"
  ELSE IF \E i \in DOMAIN e.chg : RunOutside(e.chg[i], d) THEN "frame:outside-window"
  ELSE IF d.st # 0 /\ d.st <= Len(mem) /\ Win(ObsStore(e, d.st), d.off, d.n) # Data(e) THEN "window:wrong-bytes"
  ELSE IF Creates(e) /\ e.new[1] # 1 THEN "extract:nothing-returned"
  ELSE IF e.op = "grow" /\ (Len(e.new[2]) # Cap(e.b) + e.n \/ Win(e.new[2], 0, Cap(e.b)) # Bytes(e.b)) THEN "grow:content"
  ELSE IF Creates(e) /\ e.op # "grow" /\ Len(e.new[2]) # Len(NewExp(e)) THEN (IF e.op = "ctf" THEN "length-changed" ELSE "extract:wrong-length")
  ELSE IF Creates(e) /\ e.op # "grow" /\ e.new[2] # NewExp(e) THEN
         (IF e.op = "ctf" THEN (IF Win(e.new[2], e.off, e.n) # Win(NewExp(e), e.off, e.n) THEN "window:wrong-bytes" ELSE "frame:outside-window")
          ELSE "extract:wrong-bytes")
  ELSE IF MakesView(e) /\ (e.vnew[1] # 1 \/ e.vnew[2] # Win(Bytes(e.b), e.off, e.n)) THEN "view:wrong-bytes"
  ELSE ""

(* the model's own bookkeeping of handles (only when the call returned) *)
Handles(e) ==
  LET d == Dest(e) IN
  IF e.exc # "" THEN UNCHANGED <<buf, gen, copies, views>>
  ELSE
  /\ copies' = LET upd == [i \in DOMAIN copies |-> [copies[i] EXCEPT !.snap = ObsStore(e, copies[i].st)]] IN
               IF Creates(e) /\ e.op # "grow" /\ e.new[1] = 1
               THEN Append(upd, [st |-> Len(mem) + 1, snap |-> e.new[2], kind |-> IF e.op \in {"ton", "ctf"} THEN "native" ELSE "bytes"])
               ELSE upd
  /\ views' = IF MakesView(e) /\ e.vnew[1] = 1
              THEN Append(views, [b |-> e.b, gen |-> gen[e.b], st |-> buf[e.b], off |-> e.off, n |-> e.n, w |-> IF e.op = "tnp" THEN e.w ELSE 1])
              ELSE views
  /\ buf' = IF e.op = "grow" /\ e.new[1] = 1 THEN [buf EXCEPT ![e.b] = Len(mem) + 1] ELSE buf
  /\ gen' = IF e.op = "grow" /\ e.new[1] = 1 THEN [gen EXCEPT ![e.b] = @ + 1] ELSE gen

(* the contract action itself, evaluated as a predicate on (state, observed state') - safety net behind the named clauses *)
ActionHolds(e) ==
  CASE e.op = "ufb" -> UpdateFromBuffer(e.b, e.off, e.data)
    [] e.op = "unp" -> UpdateFromNplike(e.b, e.off, e.w, e.ws, e.cnt, e.lay, e.data)
    [] e.op = "ufn" -> UpdateFromNative(e.b, e.off, e.st, e.soff, e.n)
    [] e.op = "ufx" -> UpdateFromXbuffer(e.b, e.off, e.src, e.soff, e.n)
    [] e.op = "ctn" -> CopyToNative(e.b, e.st, e.off, e.soff, e.n)
    [] e.op = "ctf" -> CopyToFresh(e.b, Len(e.data), e.off, e.soff, e.n, e.data)
    [] e.op = "ton" -> ToNative(e.b, e.off, e.n)
    [] e.op = "tob" -> ToBytearray(e.b, e.off, e.n)
    [] e.op = "tpa" -> ToPointerArg(e.b, e.off, e.n, e.kind)
    [] e.op = "tnp" -> ToNplike(e.b, e.off, e.w, e.cnt)
    [] e.op = "wv"  -> WriteView(e.st, e.k, e.data)
    [] e.op = "wc"  -> WriteCopy(e.st, e.off, e.data)
    [] e.op = "grow" -> Grow(e.b, e.n, SubSeq(e.new[2], Cap(e.b) + 1, Len(e.new[2])))

(* held handles after the step: current views show the buffer window *)
AliasBad == {i \in DOMAIN views' : views'[i].st = buf'[views'[i].b] /\ vobs'[i] # Win(mem'[views'[i].st], views'[i].off, views'[i].n)}
AliasClause == IF AliasBad # {} THEN "aliases:view-differs-from-buffer" ELSE ""
(* which handle a clause is about (store id of a copy, index of a view; 0 = not about a handle) *)
Who(e, c) ==
  IF c = "independence:held-copy-changed"
  THEN e.chg[CHOOSE i \in DOMAIN e.chg : e.chg[i][1] # Dest(e).st /\ e.chg[i][1] \in CopyStores][1]
  ELSE IF c = "aliases:view-differs-from-buffer" THEN CHOOSE i \in AliasBad : \A j \in AliasBad : i <= j
  ELSE 0

TraceInit ==
  /\ tid \in 1..Len(Traces)
  /\ l = 1
  /\ mem = << Traces[tid].init.A, Traces[tid].init.B >>
  /\ buf = [b \in Bufs |-> IF b = "A" THEN 1 ELSE 2]
  /\ gen = [b \in Bufs |-> 0]
  /\ copies = << >> /\ views = << >> /\ vobs = << >>
  /\ last = NoDest /\ step = 0

TraceStep ==
  /\ l <= Len(Ev(tid))
  /\ LET e == Ev(tid)[l]
         c1 == Clause(e) IN
     /\ mem' = ObsMem(e)
     /\ vobs' = ObsViews(e)
     /\ Handles(e)
     /\ last' = IF e.exc = "" THEN Dest(e) ELSE last
     /\ step' = IF e.exc = "" THEN step + 1 ELSE step
     /\ LET c2 == IF c1 # "" THEN c1
                  ELSE IF AliasClause # "" THEN AliasClause
                  ELSE IF ~(TypeOK' /\ Independent' /\ Aliases') THEN "invariant"
                  ELSE IF ~ActionHolds(e) THEN "action-rejected"
                  ELSE IF ~FrameStep THEN "frame"
                  ELSE ""
        IN IF c2 = "" THEN TRUE ELSE PrintT(<<"FAIL", tid, l, c2, Who(e, c2)>>)
  /\ l' = l + 1 /\ UNCHANGED tid

TraceDone ==
  /\ l = Len(Ev(tid)) + 1
  /\ PrintT(<<"DONE", tid, Len(Ev(tid))>>)
  /\ l' = l + 1 /\ UNCHANGED <<vars, tid, vobs>>

TraceNext == TraceStep \/ TraceDone
TraceSpec == TraceInit /\ [][TraceNext]_tvars
=============================================================================
