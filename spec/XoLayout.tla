------------------------------ MODULE XoLayout ------------------------------
(***************************************************************************)
(* The xobjects binary format as PURE operators, transcribed from          *)
(* Architecture.md and docs/architecture/types.rst (and property C05),     *)
(* not from the library's reader.                                          *)
(*                                                                         *)
(* Type expressions (records, the same JSON the harness uses):             *)
(*   [k |-> "sc", w |-> 1|2|4|8]                 numeric scalar of w bytes  *)
(*   [k |-> "str"]                               size-prefixed UTF-8 string *)
(*   [k |-> "struct", f |-> <<T1..Tn>>]          fields in declaration order*)
(*   [k |-> "arr", it |-> T, sh |-> <<d..>>, ord |-> <<perm>>]              *)
(*        d = -1: dynamic dimension;  ord[k] = index axis (0-based) that    *)
(*        varies k-th slowest in memory (<<0,1,..>> = C, reversed = F)      *)
(*   [k |-> "ref", to |-> T]                     8-byte relative reference  *)
(*   [k |-> "uref", of |-> <<T1..Tm>>]           16 bytes: reference, member*)
(*                                                                         *)
(* Memory is a sequence of bytes (1-indexed), addresses are 0-based.       *)
(* Values (normal form): scalar = its w bytes; string = its bytes without  *)
(* NUL; struct = sequence of field values; array = [sh, it] with it the    *)
(* items in C index order; reference = [null, at, tid] (shallow: the       *)
(* referent is an object of its own).                                      *)
(* 64-bit words: TLC integers are 32 bit, so a word decodes only when its  *)
(* high five bytes are all 00 or all FF (|x| < 2^23); anything else is Bad *)
(* ("not a well-formed word in a model-sized buffer"), never mis-decoded.  *)
(***************************************************************************)
EXTENDS Integers, Sequences, FiniteSets, TLC

Bad == -99999999
B(mem, a) == IF a >= 0 /\ a < Len(mem) THEN mem[a + 1] ELSE -1
I64(mem, a) ==
  IF \E k \in 0..7 : B(mem, a + k) < 0 THEN Bad
  ELSE LET lo == B(mem, a) + 256 * B(mem, a + 1) + 65536 * B(mem, a + 2) IN
       IF \A k \in 3..7 : B(mem, a + k) = 0 THEN lo
       ELSE IF \A k \in 3..7 : B(mem, a + k) = 255 THEN lo - 16777216 ELSE Bad
IsNull(mem, a) == (\A k \in 0..6 : B(mem, a + k) = 0) /\ B(mem, a + 7) = 128     \* the reserved value -2^63
Slot(n) == ((n + 7) \div 8) * 8

RECURSIVE Prod(_)
Prod(s) == IF s = <<>> THEN 1 ELSE Head(s) * Prod(Tail(s))
Dot(u, v) == LET RECURSIVE D(_)
                 D(i) == IF i = 0 THEN 0 ELSE D(i - 1) + u[i] * v[i]
             IN D(Len(u))

(* ------------------------------ static facts about a type ------------------------------ *)
RECURSIVE IsStatic(_), SSize(_)
IsStatic(t) ==
  CASE t.k = "sc" -> TRUE
    [] t.k = "str" -> FALSE
    [] t.k = "struct" -> \A i \in 1..Len(t.f) : IsStatic(t.f[i])
    [] t.k = "arr" -> IsStatic(t.it) /\ \A i \in 1..Len(t.sh) : t.sh[i] >= 0
    [] t.k = "ref" -> TRUE
    [] t.k = "uref" -> TRUE
SSize(t) ==     \* size of a static type
  CASE t.k = "sc" -> t.w
    [] t.k = "struct" -> LET RECURSIVE Sum(_)
                              Sum(i) == IF i = 0 THEN 0 ELSE Sum(i - 1) + Slot(SSize(t.f[i]))
                         IN Sum(Len(t.f))
    [] t.k = "arr" -> Slot(SSize(t.it) * Prod(t.sh))
    [] t.k = "ref" -> 8
    [] t.k = "uref" -> 16
SizeAt(t, mem, a) == IF IsStatic(t) THEN SSize(t) ELSE I64(mem, a)     \* dynamic objects begin with their total size

(* ------------------------------------- struct ------------------------------------------ *)
SIdx(t) == SelectSeq([i \in 1..Len(t.f) |-> i], LAMBDA i : IsStatic(t.f[i]))
DIdx(t) == SelectSeq([i \in 1..Len(t.f) |-> i], LAMBDA i : ~IsStatic(t.f[i]))
RECURSIVE SumSlots(_, _, _)
SumSlots(t, idxs, n) == IF n = 0 THEN 0 ELSE SumSlots(t, idxs, n - 1) + Slot(SSize(t.f[idxs[n]]))
PosIn(s, x) == CHOOSE p \in 1..Len(s) : s[p] = x
(* start of the dynamic data area = end of the header (size word, static fields, offset words) *)
StructHeader(t) == IF IsStatic(t) THEN 0 ELSE 8 + SumSlots(t, SIdx(t), Len(SIdx(t))) + 8 * (Len(DIdx(t)) - 1)
(* position of field i relative to the struct start; for the 2nd.. dynamic fields: of its OFFSET WORD *)
FieldPos(t, i) ==
  IF IsStatic(t) THEN SumSlots(t, SIdx(t), i - 1)
  ELSE LET si == SIdx(t)  di == DIdx(t)
           statEnd == 8 + SumSlots(t, si, Len(si))
       IN IF IsStatic(t.f[i]) THEN 8 + SumSlots(t, si, PosIn(si, i) - 1)
          ELSE IF PosIn(di, i) = 1 THEN statEnd + 8 * (Len(di) - 1)
          ELSE statEnd + 8 * (PosIn(di, i) - 2)
Indirect(t, i) == ~IsStatic(t) /\ ~IsStatic(t.f[i]) /\ PosIn(DIdx(t), i) > 1
FieldAddr(t, i, mem, a) == IF Indirect(t, i) THEN a + I64(mem, a + FieldPos(t, i)) ELSE a + FieldPos(t, i)

(* -------------------------------------- array ------------------------------------------ *)
NDyn(t) == Cardinality({i \in 1..Len(t.sh) : t.sh[i] < 0})
StoresStrides(t) == NDyn(t) > 0 /\ Len(t.sh) > 1
DataOff(t) == (IF IsStatic(t) THEN 0 ELSE 8) + 8 * NDyn(t) + (IF StoresStrides(t) THEN 8 * Len(t.sh) ELSE 0)
Shape(t, mem, a) ==
  LET dpos(i) == Cardinality({j \in 1..i : t.sh[j] < 0})
  IN [i \in 1..Len(t.sh) |-> IF t.sh[i] >= 0 THEN t.sh[i] ELSE I64(mem, a + 8 * dpos(i))]
ItemW(t) == IF IsStatic(t.it) THEN SSize(t.it) ELSE 8       \* dynamic items: one 8-byte table entry per item
(* stride of axis ax = width * product of the extents of all axes that come after ax in the order *)
Strides(t, shape, w) ==
  LET n == Len(shape)
      rank(ax) == CHOOSE k \in 1..n : t.ord[k] = ax - 1
      RECURSIVE Inner(_)
      Inner(k) == IF k > n THEN 1 ELSE shape[t.ord[k] + 1] * Inner(k + 1)
  IN [ax \in 1..n |-> w * Inner(rank(ax) + 1)]
StoredStrides(t, mem, a) == [i \in 1..Len(t.sh) |-> I64(mem, a + 8 + 8 * NDyn(t) + 8 * (i - 1))]
(* index tuple (0-based) of the k-th item (k = 1..) in C index order *)
IdxOf(k, shape) ==
  LET n == Len(shape)
      RECURSIVE After(_)
      After(i) == IF i >= n THEN 1 ELSE shape[i + 1] * After(i + 1)
  IN [i \in 1..n |-> ((k - 1) \div After(i)) % shape[i]]
LinOf(idx, shape) == 1 + Dot(idx, Strides([ord |-> [i \in 1..Len(shape) |-> i - 1]], shape, 1))
NItems(shape) == Prod(shape)
(* where the item (static items) or its table entry (dynamic items) lives *)
EntryAddr(t, mem, a, idx) == a + DataOff(t) + Dot(idx, Strides(t, Shape(t, mem, a), ItemW(t)))
ItemAddr(t, mem, a, idx) ==
  IF IsStatic(t.it) THEN EntryAddr(t, mem, a, idx) ELSE a + I64(mem, EntryAddr(t, mem, a, idx))

(* ------------------------------------- decoder ----------------------------------------- *)
NullRef == [null |-> TRUE, at |-> -1, tid |-> -1]
RECURSIVE Decode(_, _, _)
Decode(t, mem, a) ==
  CASE t.k = "sc" -> [i \in 1..t.w |-> B(mem, a + i - 1)]
    [] t.k = "str" -> LET sz == I64(mem, a)
                          n == sz - 8
                          nul == IF \E i \in 0..(n - 1) : B(mem, a + 8 + i) = 0
                                 THEN CHOOSE i \in 0..(n - 1) : B(mem, a + 8 + i) = 0 /\ \A j \in 0..(i - 1) : B(mem, a + 8 + j) # 0
                                 ELSE n
                      IN [i \in 1..nul |-> B(mem, a + 8 + i - 1)]
    [] t.k = "struct" -> [i \in 1..Len(t.f) |-> Decode(t.f[i], mem, FieldAddr(t, i, mem, a))]
    [] t.k = "arr" -> LET sh == Shape(t, mem, a)
                      IN [sh |-> sh, it |-> [k \in 1..NItems(sh) |-> Decode(t.it, mem, ItemAddr(t, mem, a, IdxOf(k, sh)))]]
    [] t.k = "ref" -> IF IsNull(mem, a) THEN NullRef ELSE [null |-> FALSE, at |-> a + I64(mem, a), tid |-> 0]
    [] t.k = "uref" -> IF IsNull(mem, a) THEN [null |-> TRUE, at |-> -1, tid |-> I64(mem, a + 8)]
                       ELSE [null |-> FALSE, at |-> a + I64(mem, a), tid |-> I64(mem, a + 8)]

(* ---------------------------------- well-formedness ------------------------------------ *)
(* Returns "" or the name of the first clause that fails.  Prefix "fmt:" = the bytes do    *)
(* not follow the documented format (C05); "nest:" = a part is not inside its parent or    *)
(* siblings overlap (C03).  Checks are ordered so that nothing is computed from a word     *)
(* before that word has been validated (total on arbitrary bytes).                         *)
FirstOf(s) == IF \E i \in 1..Len(s) : s[i] # "" THEN s[CHOOSE i \in 1..Len(s) : s[i] # "" /\ \A j \in 1..(i - 1) : s[j] = ""] ELSE ""
Overl(s1, e1, s2, e2) == s1 < e2 /\ s2 < e1

RECURSIVE MinSize(_)
MinSize(t) ==    \* a lower bound for the stored size of an object of type t
  CASE t.k = "str" -> 9
    [] t.k = "struct" -> IF IsStatic(t) THEN SSize(t) ELSE StructHeader(t)
    [] t.k = "arr" -> IF IsStatic(t) THEN SSize(t) ELSE DataOff(t)
    [] OTHER -> SSize(t)

RECURSIVE WF(_, _, _)
WF(t, mem, a) ==
  CASE t.k = "sc" -> IF a >= 0 /\ a + t.w <= Len(mem) THEN "" ELSE "nest:scalar-outside-memory"
    [] t.k = "ref" -> IF a < 0 \/ a + 8 > Len(mem) THEN "nest:ref-outside-memory"
                      ELSE IF IsNull(mem, a) THEN "" ELSE IF I64(mem, a) = Bad THEN "fmt:ref-word" ELSE ""
    [] t.k = "uref" -> IF a < 0 \/ a + 16 > Len(mem) THEN "nest:ref-outside-memory"
                       ELSE IF IsNull(mem, a) THEN (IF I64(mem, a + 8) = -1 THEN "" ELSE "fmt:null-union-member-not-minus-one")
                       ELSE IF I64(mem, a) = Bad THEN "fmt:ref-word"
                       ELSE IF I64(mem, a + 8) \notin 0..(Len(t.of) - 1) THEN "fmt:union-member-index" ELSE ""
    [] t.k = "str" -> LET sz == I64(mem, a) IN
                      IF sz = Bad \/ sz < 9 THEN "fmt:string-size-word"
                      ELSE IF a + sz > Len(mem) THEN "nest:string-outside-memory"
                      ELSE IF ~\E i \in 0..(sz - 9) : B(mem, a + 8 + i) = 0 THEN "fmt:string-not-nul-terminated" ELSE ""
    [] t.k = "struct" ->
         LET sz == SizeAt(t, mem, a)  n == Len(t.f) IN
         IF sz = Bad \/ sz < MinSize(t) THEN "fmt:struct-size-word"
         ELSE IF a < 0 \/ a + sz > Len(mem) THEN "nest:struct-outside-memory"
         ELSE IF \E i \in 1..n : Indirect(t, i) /\ I64(mem, a + FieldPos(t, i)) = Bad THEN "fmt:struct-offset-word"
         ELSE LET fa(i) == FieldAddr(t, i, mem, a) IN
              IF \E i \in 1..n : (fa(i) - a) % 8 # 0 THEN "fmt:field-not-on-slot"
              ELSE IF \E i \in 1..n : Indirect(t, i) /\ (fa(i) < a + StructHeader(t) \/ fa(i) + MinSize(t.f[i]) > a + sz) THEN "nest:field-outside-parent"
              ELSE LET sub == FirstOf([i \in 1..n |-> WF(t.f[i], mem, fa(i))]) IN
                   IF sub # "" THEN sub
                   ELSE IF \E i \in 1..n : fa(i) + SizeAt(t.f[i], mem, fa(i)) > a + sz THEN "nest:field-outside-parent"
                   ELSE IF \E i, j \in 1..n : i < j /\ Overl(fa(i), fa(i) + SizeAt(t.f[i], mem, fa(i)), fa(j), fa(j) + SizeAt(t.f[j], mem, fa(j)))
                        THEN "nest:fields-overlap" ELSE ""
    [] t.k = "arr" ->
         LET sz == SizeAt(t, mem, a)  nd == Len(t.sh) IN
         IF sz = Bad \/ sz < MinSize(t) THEN "fmt:array-size-word"
         ELSE IF a < 0 \/ a + sz > Len(mem) THEN "nest:array-outside-memory"
         ELSE LET sh == Shape(t, mem, a) IN
              IF \E i \in 1..nd : sh[i] = Bad \/ sh[i] < 0 \/ sh[i] > sz THEN "fmt:array-dimension-word"
              ELSE IF DataOff(t) + NItems(sh) * ItemW(t) > sz THEN "nest:array-data-outside-parent"
              ELSE IF StoresStrides(t) /\ StoredStrides(t, mem, a) # Strides(t, sh, ItemW(t)) THEN "fmt:stored-strides"
              ELSE LET ia(k) == ItemAddr(t, mem, a, IdxOf(k, sh))  N == NItems(sh) IN
                   IF IsStatic(t.it) THEN FirstOf([k \in 1..N |-> WF(t.it, mem, ia(k))])
                   ELSE IF \E k \in 1..N : I64(mem, EntryAddr(t, mem, a, IdxOf(k, sh))) = Bad THEN "fmt:item-offset-word"
                   ELSE IF \E k \in 1..N : (ia(k) - a) % 8 # 0 THEN "fmt:item-not-on-slot"
                   ELSE IF \E k \in 1..N : ia(k) < a + DataOff(t) + 8 * N \/ ia(k) + MinSize(t.it) > a + sz THEN "nest:item-outside-parent"
                   ELSE LET sub == FirstOf([k \in 1..N |-> WF(t.it, mem, ia(k))]) IN
                        IF sub # "" THEN sub
                        ELSE IF \E k \in 1..N : ia(k) + SizeAt(t.it, mem, ia(k)) > a + sz THEN "nest:item-outside-parent"
                        ELSE IF \E k, m \in 1..N : k < m /\ Overl(ia(k), ia(k) + SizeAt(t.it, mem, ia(k)), ia(m), ia(m) + SizeAt(t.it, mem, ia(m)))
                             THEN "nest:items-overlap" ELSE ""

(* ------------------------- references inside an object (shallow) ----------------------- *)
(* every reference word of the object: <<address of the word, type of the reference>>      *)
RECURSIVE RefSlots(_, _, _)
RefSlots(t, mem, a) ==
  CASE t.k \in {"ref", "uref"} -> {<<a, t>>}
    [] t.k = "struct" -> UNION {RefSlots(t.f[i], mem, FieldAddr(t, i, mem, a)) : i \in 1..Len(t.f)}
    [] t.k = "arr" -> LET sh == Shape(t, mem, a) IN UNION {RefSlots(t.it, mem, ItemAddr(t, mem, a, IdxOf(k, sh))) : k \in 1..NItems(sh)}
    [] OTHER -> {}
RECURSIVE HasRefs(_)
HasRefs(t) == CASE t.k \in {"ref", "uref"} -> TRUE
                [] t.k = "struct" -> \E i \in 1..Len(t.f) : HasRefs(t.f[i])
                [] t.k = "arr" -> HasRefs(t.it)
                [] OTHER -> FALSE
TargetType(rt, tid) == IF rt.k = "ref" THEN rt.to ELSE rt.of[tid + 1]

(* ------------------------------ navigation along a path --------------------------------- *)
(* path step: [f |-> i] field i (1-based) | [i |-> <<idx>>] item | [d |-> 1] dereference    *)
IsF(s) == "f" \in DOMAIN s
IsI(s) == "i" \in DOMAIN s
IsD(s) == "d" \in DOMAIN s
RECURSIVE Nav(_, _, _, _)
Nav(t, mem, a, path) ==      \* -> [t, a] of the element the path denotes, read from the bytes
  IF path = <<>> THEN [t |-> t, a |-> a]
  ELSE LET s == Head(path) IN
       IF IsF(s) THEN Nav(t.f[s.f], mem, FieldAddr(t, s.f, mem, a), Tail(path))
       ELSE IF IsI(s) THEN Nav(t.it, mem, ItemAddr(t, mem, a, s.i), Tail(path))
       ELSE LET r == Decode(t, mem, a) IN Nav(TargetType(t, r.tid), mem, r.at, Tail(path))
=============================================================================
