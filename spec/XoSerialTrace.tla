--------------------------- MODULE XoSerialTrace ---------------------------
(* Validation of recorded REAL executions for the JSON clause of C19: every record holds the type expression, the     *)
(* value of the object x (normal form), the JSON form x._to_json() produced by the real code and the value of the     *)
(* object rebuilt by the real constructor from that JSON form.  TLC checks json = ToJsonF(type, value) and            *)
(* rebuilt = value and prints one verdict per record naming the failing clause.                                       *)
EXTENDS XoSerial, Json, IOUtils
Cases == JsonDeserialize(IOEnv.TRACE_FILE)
VARIABLE tid
Clause(t) == LET c == Cases[t] IN
             IF ~WFV(c.tx, c.x) THEN "harness-wf"
             ELSE IF c.j # ToJsonF(c.tx, c.x) THEN "json-form"
             ELSE IF ~WFV(c.tx, c.y) THEN "rebuilt-shape"
             ELSE IF c.y # c.x THEN "rebuilt"
             ELSE ""
TraceInit == cls = <<>> /\ ctx = "any" /\ tid \in 1..Len(Cases)
TraceNext == UNCHANGED <<cls, ctx, tid>>
TraceSpec == TraceInit /\ [][TraceNext]_<<cls, ctx, tid>>
Verdict == PrintT(<<"VERDICT", tid, Clause(tid)>>)
=============================================================================
