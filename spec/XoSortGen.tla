------------------------------ MODULE XoSortGen ------------------------------
(* Model checking of XoSort AND export of every enumerated case together with the result the        *)
(* implementation model computes for it, one JSON line per case (printed by the step that reaches   *)
(* "done"; run with -workers 1, the case space is partitioned over processes by NParts / Part).     *)
(* The engine builds real xobjects classes for every exported case.                                 *)
EXTENDS XoSort, Json
CaseJson == [deps |-> case.deps, api |-> [c \in Classes |-> IF case.api[c] THEN 1 ELSE 0], roots |-> case.roots,
             sm |-> case.sm, k |-> st'.out.k, res |-> st'.out.res]
GNext == /\ Next
         /\ (st.pc = "finish" /\ st'.pc = "done") => PrintT(ToJson(CaseJson))
GSpec == Init /\ [][GNext]_vars
=============================================================================
