------------------------------ MODULE XoEncode ------------------------------
(***************************************************************************)
(* The writer side of the documented format: SizeOf(T, v) and Encode(T, v) *)
(* build the byte image the documentation prescribes for a value (bytes    *)
(* the format leaves unspecified - slot padding, what follows a string's   *)
(* NUL - are -1).  References are encoded only in their null form here     *)
(* (a non-null reference needs a heap, see XoHeap).                        *)
(*                                                                         *)
(* Model-level theorem checked by TLC over a bounded type grammar          *)
(* (MC_XoEncode): the documented format is self-consistent,                *)
(*     WF(T, Encode(T, v), 0) = ""          every part on a slot, nested,  *)
(*                                           disjoint, strides right        *)
(*     Decode(T, Encode(T, v), 0) = v       a decoder exists               *)
(*     SizeAt(T, Encode(T, v), 0) = SizeOf(T, v) = Len(Encode(T, v))       *)
(* and the export of (T, v, Encode(T, v)) drives a spec -> code check: the *)
(* real library must produce exactly these bytes at every specified        *)
(* position whenever the format determines the image completely.          *)
(***************************************************************************)
EXTENDS XoLayout

CONSTANT MemOrder    \* TRUE: items and item-offset table follow the array's memory order (the documented format).
                     \* FALSE is a deliberately wrong writer (index order) used only as a vacuity self-test: TLC must reject it.

W64(x) == IF x >= 0 THEN <<x % 256, (x \div 256) % 256, (x \div 65536) % 256, 0, 0, 0, 0, 0>>
          ELSE <<255, 255, 255, 255, 255, 255, 255, 255>>                 \* only -1 is ever needed
NullWord == <<0, 0, 0, 0, 0, 0, 0, 128>>
PadTo(s, n) == s \o [i \in 1..(n - Len(s)) |-> -1]
RECURSIVE Cat(_)
Cat(ss) == IF ss = <<>> THEN <<>> ELSE Head(ss) \o Cat(Tail(ss))

(* index tuple stored at memory position m (1-based) of an array of the given shape and order *)
MemIdx(t, sh, m) == LET us == Strides(t, sh, 1) IN IdxOf(CHOOSE k \in 1..NItems(sh) : Dot(IdxOf(k, sh), us) = m - 1, sh)

RECURSIVE SizeOf(_, _)
SizeOf(t, v) ==
  CASE t.k = "sc" -> t.w
    [] t.k = "ref" -> 8
    [] t.k = "uref" -> 16
    [] t.k = "str" -> 8 + Slot(Len(v) + 1)
    [] t.k = "struct" ->
         IF IsStatic(t) THEN SSize(t)
         ELSE LET di == DIdx(t)
                  RECURSIVE S(_)
                  S(n) == IF n = 0 THEN 0 ELSE S(n - 1) + Slot(SizeOf(t.f[di[n]], v[di[n]]))
              IN StructHeader(t) + S(Len(di))
    [] t.k = "arr" ->
         IF IsStatic(t) THEN SSize(t)
         ELSE LET n == NItems(v.sh)
                  RECURSIVE S(_)
                  S(k) == IF k = 0 THEN 0 ELSE S(k - 1) + Slot(SizeOf(t.it, v.it[k]))
              IN Slot(DataOff(t) + (IF IsStatic(t.it) THEN n * SSize(t.it) ELSE 8 * n + S(n)))

RECURSIVE Encode(_, _)
Encode(t, v) ==
  CASE t.k = "sc" -> v
    [] t.k = "ref" -> NullWord
    [] t.k = "uref" -> NullWord \o W64(-1)
    [] t.k = "str" -> PadTo(W64(SizeOf(t, v)) \o v \o <<0>>, SizeOf(t, v))
    [] t.k = "struct" ->
         IF IsStatic(t) THEN Cat([i \in 1..Len(t.f) |-> PadTo(Encode(t.f[i], v[i]), Slot(SSize(t.f[i])))])
         ELSE LET si == SIdx(t)  di == DIdx(t)
                  RECURSIVE Off(_)          \* offset of the n-th dynamic field's data
                  Off(n) == IF n = 1 THEN StructHeader(t) ELSE Off(n - 1) + Slot(SizeOf(t.f[di[n - 1]], v[di[n - 1]]))
              IN W64(SizeOf(t, v))
                 \o Cat([p \in 1..Len(si) |-> PadTo(Encode(t.f[si[p]], v[si[p]]), Slot(SSize(t.f[si[p]])))])
                 \o Cat([p \in 1..(Len(di) - 1) |-> W64(Off(p + 1))])
                 \o Cat([p \in 1..Len(di) |-> PadTo(Encode(t.f[di[p]], v[di[p]]), Slot(SizeOf(t.f[di[p]], v[di[p]])))])
    [] t.k = "arr" ->
         LET sh == v.sh
             n == NItems(sh)
             item(m) == IF MemOrder THEN v.it[LinOf(MemIdx(t, sh, m), sh)] ELSE v.it[m]     \* the item stored at memory position m
             hdr == (IF IsStatic(t) THEN <<>> ELSE W64(SizeOf(t, v)))
                    \o Cat([i \in 1..Len(t.sh) |-> IF t.sh[i] < 0 THEN W64(sh[i]) ELSE <<>>])
                    \o (IF StoresStrides(t) THEN Cat([i \in 1..Len(sh) |-> W64(Strides(t, sh, ItemW(t))[i])]) ELSE <<>>)
             RECURSIVE IOff(_)       \* offset of the data of the item at memory position m (dynamic items)
             IOff(m) == IF m = 1 THEN DataOff(t) + 8 * n ELSE IOff(m - 1) + Slot(SizeOf(t.it, item(m - 1)))
             body == IF IsStatic(t.it) THEN Cat([m \in 1..n |-> Encode(t.it, item(m))])
                     ELSE Cat([m \in 1..n |-> W64(IOff(m))]) \o Cat([m \in 1..n |-> PadTo(Encode(t.it, item(m)), Slot(SizeOf(t.it, item(m))))])
         IN PadTo(hdr \o body, SizeOf(t, v))

(* does the format determine the whole image (no freedom in where parts are placed)?  Item data of arrays of  *)
(* dynamically sized items may be placed in any order behind the table, everything else is fixed              *)
RECURSIVE Determined(_)
Determined(t) == CASE t.k = "struct" -> \A i \in 1..Len(t.f) : Determined(t.f[i])
                   [] t.k = "arr" -> IsStatic(t.it) /\ Determined(t.it)
                   [] OTHER -> TRUE
=============================================================================
