----------------------------- MODULE XoAllocGen -----------------------------
(* Exports every REQUEST-level transition of XoAllocImpl (allocate incl. all its internal *)
(* grow/retry steps, free, grow) as one JSON line, for replay into the real XBuffer.      *)
EXTENDS XoAllocImpl, Json
Proj(c, k, lv) == [chunks |-> c, cap |-> k, live |-> {<<r.s, r.e, r.a>> : r \in lv}]
Emit(pr, cmd) == PrintT(ToJson([pre |-> pr, cmd |-> cmd, post |-> Proj(chunks', cap', live')]))
GNext == \/ \E size \in Sizes, a \in Aligns, tok \in Tokens : Call(size, a, tok)
         \/ ScanGrow
         \/ ScanFit /\ Emit(Proj(pre.chunks, pre.cap, pre.live), [op |-> "alloc", size |-> req.size, a |-> req.a])
         \/ \E r \in live : FreeR(r) /\ Emit(Proj(chunks, cap, live), [op |-> "free", s |-> r.s, e |-> r.e, a |-> r.a])
         \/ \E n \in GrowAmounts : ExplicitGrow(n) /\ Emit(Proj(chunks, cap, live), [op |-> "grow", n |-> n])
GSpec == Init /\ [][GNext]_vars
=============================================================================
