------------------------- MODULE XoKernelCallTrace -------------------------
(***************************************************************************)
(* Trace validation of REAL kernel calls against the contract XoKernelCall *)
(* (property C17).  Input: a JSON file (env TRACE_FILE) with a sequence of *)
(* traces recorded by vlib/kernelcall.py from random deep histories on the *)
(* real library.  Only small integers and strings are logged:              *)
(*   ["alloc", b, kind, et, off, size]    an object was created            *)
(*   ["grow",  b, cap]                    the native storage of b was      *)
(*                                        replaced (explicit grow() or an  *)
(*                                        allocation that had to grow)     *)
(*   ["call", shape, ps, as, status, del, exact, ret, bytes, unchanged,    *)
(*            called]                     a probe kernel was called; del = *)
(*        where every raw address the kernel received lies, projected by   *)
(*        the harness to (space, buffer, generation, byte offset) with the *)
(*        base addresses of ALL storages that ever existed (kept alive)    *)
(* Every call is judged by evaluating the contract's Outcome in the model  *)
(* state reached by the logged history; the verdict names the clause.      *)
(***************************************************************************)
EXTENDS XoKernelCall, Json, IOUtils, TLCExt

Traces == JsonDeserialize(IOEnv.TRACE_FILE)

VARIABLES tid, l, fail, dead      \* trace id, position, failing clauses ("" = none), a precondition failed
tvars == <<vars, tid, l, fail, dead>>

Ev(t) == Traces[t].ev
ToP(x) == [d |-> x[1], kind |-> x[2], et |-> x[3]]
(* an object argument is identified by its id only: kind and element type are the model's *)
ToA(x) == IF x[1] = "obj" THEN AObj(x[4]) ELSE [v |-> x[1], et |-> x[2], form |-> x[3], id |-> x[4], first |-> x[5]]

TraceInit ==
  /\ tid \in 1..Len(Traces)
  /\ l = 1 /\ fail = "" /\ dead = FALSE
  /\ gen = [b \in 1..Len(Traces[tid].caps) |-> 0]
  /\ cap = [b \in 1..Len(Traces[tid].caps) |-> Traces[tid].caps[b]]
  /\ top = [b \in 1..Len(Traces[tid].caps) |-> 0]
  /\ objs = <<>> /\ hist = <<>> /\ last = NoCall

Overl(s1, e1, s2, e2) == s1 < e2 /\ s2 < e1

(* where the j-th delivered address should be vs where it is *)
LocClause(x, o, c, j) ==
  IF x.sp = "-" THEN ""                                           \* a scalar by value: judged by the flag "exact"
  ELSE IF o[1] # x.sp \/ o[2] # x.b THEN
       (IF o[1] = "?" THEN "address-nowhere" ELSE "wrong-buffer")
  ELSE IF o[3] # x.g THEN "stale-generation"
  ELSE IF o[4] # x.off THEN
       (IF c.ps[j].d = "ptr" /\ c.as[j].v = "obj" /\ o[4] = objs[c.as[j].id].off /\ DataOff(objs[c.as[j].id].kind) # 0
        THEN "first-byte-not-first-element" ELSE "wrong-offset")
  ELSE ""

CallClause(e) ==
  LET c == Case(e[2], [j \in 1..Len(e[3]) |-> ToP(e[3][j])], [j \in 1..Len(e[4]) |-> ToA(e[4][j])])
      X == Outcome(c)
  IN IF ~Specified(c) THEN <<"harness-produced-unspecified-call", 0>>
     ELSE IF X.status = "refused" THEN
        (IF e[5] = "ok" THEN <<"accepted-must-refuse:" \o X.why, 0>>
         ELSE IF e[11] = 1 THEN <<"refused-but-kernel-ran:" \o X.why, 0>>
         ELSE IF e[10] = 0 THEN <<"refused-but-state-changed:" \o X.why, 0>>
         ELSE <<"", 0>>)
     ELSE IF e[5] # "ok" THEN <<"refused-must-deliver", 0>>
     ELSE IF Len(e[6]) # Len(X.del) THEN <<"harness-arity", 0>>
     ELSE LET bad == {j \in 1..Len(X.del) : LocClause(X.del[j], e[6][j], c, j) # ""} IN
          IF bad # {} THEN LET j == CHOOSE m \in bad : \A n \in bad : m <= n IN <<LocClause(X.del[j], e[6][j], c, j), j>>
          ELSE IF e[7] = 0 THEN <<"scalar-not-exact", 0>>
          ELSE IF e[8] = 0 THEN <<"return-changed", 0>>
          ELSE IF e[9] = 0 THEN <<"bytes-differ", 0>>
          ELSE IF ~LastCurrent' THEN <<"invariant-delivered-current", 0>>
          ELSE <<"", 0>>

(* EVERY failing event is kept ("pos:arg:clause", joined by "|"), so that a known defect does not hide a different one *)
(* later in the same trace; after a failed precondition (another property's duty: dead = TRUE) nothing more is judged. *)
Fail(clause) == IF clause[1] = "" \/ dead THEN fail
                ELSE (IF fail = "" THEN "" ELSE fail \o "|") \o ToString(l) \o ":" \o ToString(clause[2]) \o ":" \o clause[1]

TraceStep ==
  /\ l <= Len(Ev(tid))
  /\ LET e == Ev(tid)[l] IN
     CASE e[1] = "alloc" ->
            /\ objs' = Append(objs, [buf |-> e[2], off |-> e[5], kind |-> e[3], et |-> e[4], cgen |-> gen[e[2]], size |-> e[6]])
            \* the allocator's duties (C04), not this property's: a placement that breaks them ends the trace
            /\ LET pre == IF e[5] < 0 \/ e[5] + e[6] > cap[e[2]] THEN <<"precondition:out-of-bounds", 0>>
                          ELSE IF \E i \in ObjIds : objs[i].buf = e[2] /\ Overl(e[5], e[5] + e[6], objs[i].off, objs[i].off + objs[i].size)
                               THEN <<"precondition:overlap", 0>> ELSE <<"", 0>>
               IN fail' = Fail(pre) /\ dead' = (dead \/ pre[1] # "")
            /\ UNCHANGED <<gen, cap, top, hist, last>>
       [] e[1] = "grow" ->
            /\ gen' = [gen EXCEPT ![e[2]] = gen[e[2]] + 1]
            /\ cap' = [cap EXCEPT ![e[2]] = e[3]]
            /\ fail' = Fail(IF e[3] < cap[e[2]] THEN <<"precondition:capacity-shrank", 0>> ELSE <<"", 0>>)
            /\ dead' = (dead \/ e[3] < cap[e[2]])
            /\ UNCHANGED <<top, objs, hist, last>>
       [] e[1] = "call" ->
            /\ UNCHANGED <<gen, cap, top, objs, hist>>
            /\ last' = Outcome(Case(e[2], [j \in 1..Len(e[3]) |-> ToP(e[3][j])], [j \in 1..Len(e[4]) |-> ToA(e[4][j])]))
            /\ fail' = Fail(CallClause(e)) /\ UNCHANGED dead
  /\ l' = l + 1 /\ UNCHANGED tid

TraceDone ==
  /\ l = Len(Ev(tid)) + 1
  /\ PrintT(<<"VERDICT", tid, fail>>)
  /\ l' = l + 1 /\ UNCHANGED <<vars, tid, fail, dead>>

TraceNext == TraceStep \/ TraceDone
TraceSpec == TraceInit /\ [][TraceNext]_tvars
=============================================================================
