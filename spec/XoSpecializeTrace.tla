-------------------------- MODULE XoSpecializeTrace --------------------------
(***************************************************************************)
(* Validation of REAL executions against the contract part of XoSpecialize *)
(* (Part A only; Rewrite is never consulted here).                          *)
(*                                                                         *)
(* Input (env TRACE_FILE), produced by vlib/specialize.py:                  *)
(*   recs : one record per source: src = abstract source (as exported by   *)
(*          XoSpecializeGen), obs = observations, one per target:          *)
(*     t     target the text was specialised for by the real                *)
(*           specialize_source                                              *)
(*     built 1 iff the produced text compiled for that target               *)
(*     q     qualifier words found where the header's placeholders stood    *)
(*     cfg   sequence of <<n, block, runs>>: the kernel was launched with   *)
(*           the geometry the real context computes for (n, block) and      *)
(*           every plain statement recorded (id, index); runs are the       *)
(*           canonical run-length encoded counts <<id, lo, hi, c>>          *)
(*   texts : pass-through cases, lines as tokens of their exact text        *)
(*     inp  <<annotated?, token>> per source line,  out  tokens produced    *)
(* One VERDICT line per record naming the first failing clause ("" = ok).   *)
(***************************************************************************)
EXTENDS XoSpecialize, Json, IOUtils

Data == JsonDeserialize(IOEnv.TRACE_FILE)
Recs == Data.recs
Texts == Data.texts

VARIABLE tid

NormLine(ln) == IF ln.k = "only" THEN [k |-> "only", c |-> Range(ln.c)]
                ELSE IF ln.k = "inc" THEN [k |-> "inc", f |-> ln.f, c |-> Range(ln.c)]
                ELSE IF ln.k = "vec" THEN [k |-> "vec", h |-> ln.h]
                ELSE [k |-> ln.k]
NormSrc(s) == [p \in 1..Len(s) |-> NormLine(s[p])]
NormQ(q) == [kern |-> Range(q.kern), mem |-> Range(q.mem), restr |-> Range(q.restr), fun |-> Range(q.fun)]

RunsFor(runs, id) == {<<runs[k][2], runs[k][3], runs[k][4]>> : k \in {j \in 1..Len(runs) : runs[j][1] = id}}

(* first failing clause of one launch: <<clause, id>>; cls = the contract's class of every statement on this target *)
CfgVerdict(ids, cls, t, cf) ==
  LET n == cf[1]
      runs == cf[3]
      bad == {id \in ids : StmtClause(cls[id], t, n, RunsFor(runs, id)) # ""}
  IN IF \E k \in 1..Len(runs) : runs[k][1] \notin ids THEN <<"unknown-statement-executed", None>>
     ELSE IF bad = {} THEN <<"", None>>
     ELSE LET id == CHOOSE id \in bad : \A o \in bad : id <= o
          IN <<StmtClause(cls[id], t, n, RunsFor(runs, id)), id>>

(* r = one source with the observations of several targets; x = one of them *)
ObsVerdict(s, ids, wf, x) ==
  LET t == x.t
      cls == [id \in ids |-> ClassOf(s, t, id)]
      vs == [c \in 1..Len(x.cfg) |-> CfgVerdict(ids, cls, t, x.cfg[c])]
      badc == {c \in 1..Len(x.cfg) : vs[c][1] # ""}
  IN IF ~wf THEN <<"ill-formed-source", 0, 0, None>>           \* machinery error, never expected
     ELSE IF x.built # 1 THEN <<"expansion-does-not-build", 0, 0, None>>
     ELSE IF QualClause(t, NormQ(x.q)) # "" THEN <<QualClause(t, NormQ(x.q)), 0, 0, None>>
     ELSE IF badc = {} THEN <<"", 0, 0, None>>
     ELSE LET c == CHOOSE c \in badc : \A o \in badc : c <= o
          IN <<vs[c][1], x.cfg[c][1], x.cfg[c][2], vs[c][2]>>

TextVerdict(x) ==
  LET inp == [i \in 1..Len(x.inp) |-> [a |-> x.inp[i][1], t |-> x.inp[i][2]]]
      (* "included files are spliced only for the contexts they name": x.forb = tokens of the lines of a file that is named, *)
      (* inside an included file, by an include line whose context list does NOT contain this target                        *)
      forb == {x.forb[i] : i \in DOMAIN x.forb}
  IN IF ~PlainPreserved(inp, x.out) THEN "unannotated-text-changed"
     ELSE IF \E k \in DOMAIN x.out : x.out[k] \in forb THEN "file-spliced-for-a-context-it-does-not-name"
     ELSE ""

TInit == tid = 0 /\ src = <<>>
PrintObs(r, k) ==
  LET s == NormSrc(r.src)
      ids == StmtIds(s)
      wf == WellFormed(s)
  IN \A j \in 1..Len(r.obs) :
        LET v == ObsVerdict(s, ids, wf, r.obs[j]) IN PrintT(<<"VERDICT", k, j, v[1], v[2], v[3], v[4]>>)
TNext ==
  /\ tid < Len(Recs) + Len(Texts)
  /\ tid' = tid + 1 /\ UNCHANGED src
  /\ IF tid' <= Len(Recs)
     THEN PrintObs(Recs[tid'], tid')
     ELSE PrintT(<<"TVERDICT", tid' - Len(Recs), TextVerdict(Texts[tid' - Len(Recs)])>>)
TraceSpec == TInit /\ [][TNext]_<<tid, src>>
=============================================================================
