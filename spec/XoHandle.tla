------------------------------ MODULE XoHandle ------------------------------
(***************************************************************************)
(* Implementation-shaped model of what C06 calls "handles cache structure  *)
(* computed from the constructor arguments, views recompute it from the    *)
(* bytes": the per-handle cache of the offsets of dynamic parts            *)
(* (struct.py `_offsets` dict, array.py `_offsets` table).                 *)
(*                                                                         *)
(* An object's LAYOUT (how its total size is distributed over its dynamic  *)
(* parts) lives in the buffer; every Python handle carries a reference to  *)
(* a cache cell (a Python dict / ndarray) holding the layout it believes   *)
(* in.  The actions are the code paths that create or rewrite such cells:  *)
(*   New        T(...)               constructor handle, own cell          *)
(*   View       T._from_buffer       fresh cell read from the bytes        *)
(*   CopyNew    T(h)                 new object, byte copy; as implemented *)
(*                                   the new handle SHARES the cell of h   *)
(*                                   (`info._offsets = arg._offsets`)      *)
(*   Update     h._update(z)         bytes of the object take the layout   *)
(*                                   of z; the updated handle gets a NEW   *)
(*                                   cell (fix 56692ae)                    *)
(*   Drop       a handle goes out of use                                   *)
(* Mode selects the implementation variant:                                *)
(*   "fixed"    as on the current tree                                     *)
(*   "norefresh" before 56692ae (the updated handle keeps its cell)        *)
(*   "inplace"  the cell is refreshed IN PLACE (seeded change C06f): every *)
(*              handle sharing the cell - handles of OTHER objects - sees  *)
(*              the new layout                                             *)
(* Contract (C06): a handle is indistinguishable from a view, i.e. its     *)
(* cell holds the layout stored in the bytes: Coherent.  It fails on every *)
(* variant through the one history recorded as a known finding (update     *)
(* through another handle of the same object); `stale` marks exactly the   *)
(* handles that history leaves behind, and CoherentUnlessStale must hold   *)
(* on the current tree.                                                    *)
(***************************************************************************)
EXTENDS Integers, Sequences, FiniteSets, TLC, Json

CONSTANTS MaxLen, MaxObj, MaxHandles, NLayouts, Mode, Export,
          Real      \* "struct": cells are Python dicts, copy-construction hands the source's dict on, views read a new dict;
                    \* "array":  a view's table is a live window onto the bytes (cell 0), copy-construction computes a new table

Layouts == 1..NLayouts

VARIABLES lay,      \* lay[o]: layout stored in the bytes of object o
          hs,       \* sequence of handles: [obj, cell, kind, live]
          cells,    \* sequence of cache cells: the layout each holds
          stale,    \* set of handle indices left behind by an update through another handle of their object
          hist
vars == <<lay, hs, cells, stale, hist>>

Init == lay = <<>> /\ hs = <<>> /\ cells = <<>> /\ stale = {} /\ hist = <<>>

Live == {h \in 1..Len(hs) : hs[h].live}
Log(ev) == hist' = Append(hist, ev)

New(l) ==
  /\ Len(lay) < MaxObj /\ Len(hs) < MaxHandles
  /\ lay' = Append(lay, l)
  /\ cells' = Append(cells, l)
  /\ hs' = Append(hs, [obj |-> Len(lay) + 1, cell |-> Len(cells) + 1, kind |-> "ctor", live |-> TRUE])
  /\ Log([op |-> "new", l |-> l]) /\ UNCHANGED stale

View(o) ==
  /\ o \in 1..Len(lay) /\ Len(hs) < MaxHandles
  /\ IF Real = "array"
     THEN /\ cells' = cells
          /\ hs' = Append(hs, [obj |-> o, cell |-> 0, kind |-> "view", live |-> TRUE])
     ELSE /\ cells' = Append(cells, lay[o])
          /\ hs' = Append(hs, [obj |-> o, cell |-> Len(cells) + 1, kind |-> "view", live |-> TRUE])
  /\ Log([op |-> "view", o |-> o]) /\ UNCHANGED <<lay, stale>>

(* the copy is written from what the SOURCE HANDLE believes (its cell), byte-copying the source object: a stale source     *)
(* handle is excluded here (what a stale handle produces is part of the known finding, not a new one)                       *)
CopyNew(h) ==
  /\ h \in Live /\ h \notin stale /\ Len(lay) < MaxObj /\ Len(hs) < MaxHandles
  /\ lay' = Append(lay, lay[hs[h].obj])
  /\ IF Real = "array"
     THEN /\ cells' = Append(cells, lay[hs[h].obj])
          /\ hs' = Append(hs, [obj |-> Len(lay) + 1, cell |-> Len(cells) + 1, kind |-> "copy", live |-> TRUE])
     ELSE /\ cells' = cells
          /\ hs' = Append(hs, [obj |-> Len(lay) + 1, cell |-> hs[h].cell, kind |-> "copy", live |-> TRUE])
  /\ Log([op |-> "copynew", h |-> h]) /\ UNCHANGED stale

Update(h, l) ==
  /\ h \in Live /\ h \notin stale /\ l \in Layouts
  /\ LET o == hs[h].obj IN
     /\ lay' = [lay EXCEPT ![o] = l]
     \* ("fixed": a live window is replaced by a computed table as well)
     /\ CASE Mode = "fixed" -> /\ cells' = Append(cells, l)
                               /\ hs' = [hs EXCEPT ![h].cell = Len(cells) + 1]
          [] Mode = "norefresh" -> UNCHANGED <<cells, hs>>
          [] Mode = "inplace" -> /\ cells' = IF hs[h].cell = 0 THEN cells ELSE [cells EXCEPT ![hs[h].cell] = l]
                                 /\ UNCHANGED hs
     \* the handles the known finding is about: other live handles of the SAME object, when the layout really changes
     /\ stale' = stale \cup {g \in Live : g # h /\ hs[g].obj = o /\ hs[g].cell # 0 /\ l # lay[o]}
  /\ Log([op |-> "update", h |-> h, l |-> l])

Drop(h) ==
  /\ h \in Live
  /\ hs' = [hs EXCEPT ![h].live = FALSE]
  /\ stale' = stale \ {h}
  /\ Log([op |-> "drop", h |-> h]) /\ UNCHANGED <<lay, cells>>

Next ==
  /\ Len(hist) < MaxLen
  /\ \/ \E l \in Layouts : New(l)
     \/ \E o \in 1..Len(lay) : View(o)
     \/ \E h \in Live : CopyNew(h)
     \/ \E h \in Live, l \in Layouts : Update(h, l)
     \/ \E h \in Live : Drop(h)
Spec == Init /\ [][Next]_vars

CoherentH(h) == hs[h].cell = 0 \/ cells[hs[h].cell] = lay[hs[h].obj]
Coherent == \A h \in Live : CoherentH(h)
CoherentUnlessStale == \A h \in Live : h \notin stale => CoherentH(h)
(* the finding is exactly that: a stale handle is one whose object was updated through another handle *)
StaleOnlyByCrossUpdate == \A h \in stale : h \in Live /\ hs[h].kind \in {"ctor", "view", "copy"}

(* export: every history (all lengths) with, per handle, whether the model says it is coherent *)
Exported == (Export /\ hist # <<>>) =>
  PrintT(ToJson([hist |-> hist, lay |-> lay,
                 hs |-> [h \in 1..Len(hs) |-> [obj |-> hs[h].obj, live |-> hs[h].live, kind |-> hs[h].kind,
                                               coherent |-> CoherentH(h), stale |-> h \in stale]]]))
=============================================================================
