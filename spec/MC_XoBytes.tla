---------------------------- MODULE MC_XoBytes ----------------------------
(* bounded instances of XoBytes: the initial capacities are the pairs of CapA x CapB (cfg files cannot write tuples) *)
EXTENDS XoBytes
CONSTANTS CapA, CapB
McCaps == CapA \X CapB
=============================================================================
