---------------------------- MODULE MC_XoBytes ----------------------------
(* bounded instances of XoBytes: the initial capacities are the pairs of CapA x CapB (cfg files cannot write tuples) *)
EXTENDS XoBytes
CONSTANTS CapA, CapB
McCaps == {c \in CapA \X CapB : c[1] <= c[2]}     \* (a,b) and (b,a) are mirror images
=============================================================================
