----------------------------- MODULE XoCapiProg -----------------------------
(***************************************************************************)
(* code -> spec for the accessor generator: the offset programs PARSED     *)
(* FROM THE SOURCE THE TREE'S GENERATOR EMITS (one per class and access    *)
(* path, vlib/capimc.py) are executed by XoCapi!Run on the images the      *)
(* documented format prescribes, for every extent in Exts of the dynamic   *)
(* dimensions, every path and EVERY in-range index tuple, and must arrive  *)
(* at the address XoLayout!Nav reads from the same bytes (property C02;    *)
(* C15 for the OpenCL / CUDA forms of the same functions).                 *)
(*                                                                         *)
(* Input (env TRACE_FILE): sequence of records [t, progs] with progs a     *)
(* sequence of [p, ops]: p a type path (index steps all-zero tuples), ops  *)
(* the parsed program in the instruction set of XoCapi.                    *)
(* Verdict per record: "" or "<clause>@ext=<n>" of the first extent with a *)
(* disagreement; clauses                                                    *)
(*   prog:ill-scoped      an index variable the path does not bind or a    *)
(*                        stride that was never loaded                     *)
(*   prog:address         the program does not compute Nav's address       *)
(***************************************************************************)
EXTENDS XoCapi, Json, IOUtils, TLCExt

CONSTANT Exts
Recs == JsonDeserialize(IOEnv.TRACE_FILE)
VARIABLES tid, done
tvars == <<tid, done>>

Table(rec) == {rec.progs[n] : n \in 1..Len(rec.progs)}
Verdict(rec) ==
  IF \E e \in Table(rec) : ~WellScoped(e.ops, Len(Idxs(e.p))) THEN "prog:ill-scoped"
  ELSE LET bad == {x \in Exts : Disagree(rec.t, Image(rec.t, x), 0, Table(rec)) # {}} IN
       IF bad = {} THEN ""
       ELSE LET x == CHOOSE y \in bad : \A z \in bad : y <= z
                p == CHOOSE q \in Disagree(rec.t, Image(rec.t, x), 0, Table(rec)) : TRUE
            IN "prog:address@ext=" \o ToString(x) \o "@path=" \o ToString(p)

Init == tid \in 1..Len(Recs) /\ done = FALSE
Next == /\ ~done
        /\ PrintT(<<"VERDICT", tid, Verdict(Recs[tid])>>)
        /\ done' = TRUE /\ UNCHANGED tid
Spec == Init /\ [][Next]_tvars
=============================================================================
