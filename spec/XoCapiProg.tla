----------------------------- MODULE XoCapiProg -----------------------------
(***************************************************************************)
(* code -> spec for the accessor generator: the offset programs PARSED     *)
(* FROM THE SOURCE THE TREE'S GENERATOR EMITS (one per class and access    *)
(* path, vlib/capimc.py) are executed by XoCapi!Run on the images the      *)
(* documented format prescribes, for every extent in Exts of the dynamic   *)
(* dimensions, every path and EVERY in-range index tuple, and must arrive  *)
(* at the address XoLayout!Nav reads from the same bytes (property C02;    *)
(* C15 for the OpenCL / CUDA forms of the same functions).                 *)
(*                                                                         *)
(* Input (env TRACE_FILE): sequence of records [t, progs] with progs a     *)
(* sequence of [p, kind, ops, c, w]: p a type path (index steps all-zero     *)
(* tuples), ops the parsed program in the instruction set of XoCapi, kind, *)
(* c, w as in XoCapi!AccOf.                                                *)
(* Verdict per record: "" or "<clause>@ext=<n>" of the first extent with a *)
(* disagreement; clauses                                                    *)
(*   prog:ill-scoped      an index variable the path does not bind or a    *)
(*                        stride that was never loaded                     *)
(*   prog:<kind>          the accessor of that kind (getp get set len      *)
(*                        typeid) does not arrive at what the format gives *)
(*                        (address; address and width; item count; member) *)
(***************************************************************************)
EXTENDS XoCapi, Json, IOUtils, TLCExt

CONSTANT Exts
Recs == JsonDeserialize(IOEnv.TRACE_FILE)
VARIABLES tid, done
tvars == <<tid, done>>

Table(rec) == {rec.progs[n] : n \in 1..Len(rec.progs)}
Verdict(rec) ==
  IF \E e \in Table(rec) : ~WellScoped(e.ops, Len(Idxs(e.p))) THEN "prog:ill-scoped"
  ELSE LET bad == {x \in Exts : AccDisagree(rec.t, Image(rec.t, x), 0, Table(rec)) # {}} IN
       IF bad = {} THEN ""
       ELSE LET x == CHOOSE y \in bad : \A z \in bad : y <= z
                q == CHOOSE r \in AccDisagree(rec.t, Image(rec.t, x), 0, Table(rec)) : TRUE
            IN "prog:" \o q[2] \o "@ext=" \o ToString(x) \o "@path=" \o ToString(q[1])

Init == tid \in 1..Len(Recs) /\ done = FALSE
Next == /\ ~done
        /\ PrintT(<<"VERDICT", tid, Verdict(Recs[tid])>>)
        /\ done' = TRUE /\ UNCHANGED tid
Spec == Init /\ [][Next]_tvars
=============================================================================
