---------------------------- MODULE XoHybridGen ----------------------------
(* Exports every transition of XoHybrid as one JSON line for replay on real xo.HybridClass definitions:            *)
(*   hist = the operations (with their outcome) of the first history that reached the pre-state (breadth first,     *)
(*          one worker, so it is a shortest one), cmd / res = this operation and its outcome, post = model state.   *)
(* hist and depth are hidden by the VIEW, so histories that reach the same abstract state share one node.           *)
EXTENDS XoHybrid, Json
VARIABLE hist
S(H, hp) == [hs |-> H, heap |-> hp]
Emit(cmd, res) == /\ PrintT(ToJson([hist |-> hist, cmd |-> cmd, res |-> res, post |-> S(hs', heap')]))
                  /\ hist' = Append(hist, [cmd |-> cmd, res |-> res])
GInit == Init /\ hist = <<>> /\ PrintT(ToJson([init |-> S(hs, heap)]))
GNext ==
  /\ depth < MaxDepth
  /\ LET E == AllE IN
     \/ \E e \in E : \E f \in FOf(e), v \in Vals : SetLeaf(e, f, v) /\ Emit([op |-> "setleaf", e |-> e, f |-> f.py, v |-> v], "ok")
     \/ \E e \in E : \E f \in FOf(e), s \in E : SetNested(e, f, s) /\ Emit([op |-> "setnested", e |-> e, f |-> f.py, src |-> s], "ok")
     \/ \E e \in E : \E f \in FOf(e), s \in E :
           \/ SetRef(e, f, s) /\ Emit([op |-> "setref", e |-> e, f |-> f.py, src |-> s], "ok")
           \/ SetRefRefused(e, f, s) /\ Emit([op |-> "setref", e |-> e, f |-> f.py, src |-> s], "refused")
     \/ \E e \in E : \E f \in FOf(e) : ClearRef(e, f) /\ Emit([op |-> "clearref", e |-> e, f |-> f.py], "ok")
     \/ \E s \in E, b \in Bufs : Copy(s, b) /\ Emit([op |-> "copy", src |-> s, b |-> b], "ok")
     \/ \E e \in E, b \in Bufs :
           \/ MoveDo(e, b) /\ Emit([op |-> "move", e |-> e, b |-> b], "ok")
           \/ MoveRefused(e, b) /\ Emit([op |-> "move", e |-> e, b |-> b], "refused")
GSpec == GInit /\ [][GNext]_<<vars, hist>>
=============================================================================
