---------------------------- MODULE XoKernelDict ----------------------------
(***************************************************************************)
(* The kernel table of a context (xobjects/context.py: KernelDict,         *)
(* KernelDispatcher, XContext.add_kernels; xobjects/struct.py:             *)
(* Struct.compile_class_kernels(only_if_needed); the n_threads of a        *)
(* kernel lives in its description, xobjects.context.Kernel).  No listed   *)
(* property covers it (DESIGN.md 7a; C17 is about the call itself); see    *)
(* EXTRAS.md.                                                              *)
(*                                                                         *)
(* Two contexts and two struct classes:  S with kernels {k1, k2},  T with  *)
(* kernels {k2, k3} (k2 is a name both classes use).  A kernel object in a *)
(* context's table records the class whose description it carries, the     *)
(* build that made it (gen) and how often it was invoked.                  *)
(*                                                                         *)
(* AS IMPLEMENTED (the transitions):                                       *)
(*   ctx.kernels.<name>      -> a KernelDispatcher, whether or not the     *)
(*                              name exists                                *)
(*   dispatcher(args.., kw..) -> positional arguments are refused           *)
(*                              (ValueError) before anything is looked up; *)
(*                              otherwise table[name](kw..): KeyError for   *)
(*                              an unknown name, else exactly that kernel  *)
(*   dispatcher.set_n_threads(n) -> for every entry whose KEY == name:     *)
(*                              entry.description.n_threads = n.  The      *)
(*                              description is the class's Kernel object,  *)
(*                              shared by every context that built it.     *)
(*   cls.compile_class_kernels(ctx, only_if_needed) -> nothing when every  *)
(*                              kernel NAME of the class is in the table,  *)
(*                              else one add_kernels call that replaces    *)
(*                              all kernels of the class                   *)
(* DOCUMENTED (KernelDict's docstring, the return annotation               *)
(* Dict[Tuple[str, tuple], KernelType] of build_kernels): "The keys are    *)
(* tuples of the form (kernel_name, kernel_classes) ... indexed by kernel  *)
(* name ... returns a KernelDispatcher object, which dynamically           *)
(* dispatches the kernel call to the correct kernel based on the types of  *)
(* the arguments."  A kernel stored under such a key must therefore be     *)
(* reachable through its name, and set_n_threads must reach it.  As        *)
(* implemented neither is the case (DocViol).                              *)
(***************************************************************************)
EXTENDS Integers, Sequences, FiniteSets, TLC, Json

CONSTANTS MaxLen, Wrong, Export
\* Wrong: "" | "setn-all" | "always-compile" | "positional-accepted" (vacuity self-tests)

VARIABLES kd,      \* per context: sequence of table entries [key, cls, gen, calls] in insertion order (a python dict)
          nt,      \* n_threads of the class-level kernel descriptions: [cls][name]; "U" = the description of the tuple-keyed kernel
          builds,  \* per context: number of add_kernels calls made by compile_class_kernels
          hist, trace
vars == <<kd, nt, builds, hist, trace>>

Cs == {1, 2}
Classes == {"S", "T"}
K(cls) == IF cls = "S" THEN <<"k1", "k2">> ELSE <<"k2", "k3">>
Names == {"k1", "k2", "k3"}
TupleKey(n) == "(" \o n \o ", classes)"          \* the documented key form, written as a string in the model
Range(s) == {s[x] : x \in DOMAIN s}

Has(t, key) == \E x \in DOMAIN t : t[x].key = key
At(t, key) == CHOOSE x \in DOMAIN t : t[x].key = key
(* dict.__setitem__ / update: an existing key keeps its position *)
Put(t, e) == IF Has(t, e.key) THEN [t EXCEPT ![At(t, e.key)] = e] ELSE Append(t, e)
RECURSIVE PutAll(_, _)
PutAll(t, es) == IF es = <<>> THEN t ELSE PutAll(Put(t, es[1]), Tail(es))
Del(t, key) == SelectSeq(t, LAMBDA e : e.key # key)

NtOf(n2, e) == IF e.cls = "U" THEN n2["U"]["u"] ELSE n2[e.cls][e.key]
View(k2, n2, b2) == [tables |-> [c \in Cs |-> [x \in DOMAIN k2[c] |-> [key |-> k2[c][x].key, cls |-> k2[c][x].cls, gen |-> k2[c][x].gen,
                                                                       calls |-> k2[c][x].calls, nt |-> NtOf(n2, k2[c][x])]]],
                     builds |-> b2]

Init == /\ kd = [c \in Cs |-> <<>>]
        /\ nt = [cls \in Classes \cup {"U"} |-> IF cls = "U" THEN [n \in {"u"} |-> 1] ELSE [n \in Range(K(cls)) |-> 1]]
        /\ builds = [c \in Cs |-> 0]
        /\ hist = <<>> /\ trace = <<>>

Step(cmd, k2, n2, b2, out, docviol) ==
  /\ kd' = k2 /\ nt' = n2 /\ builds' = b2
  /\ hist' = Append(hist, cmd)
  /\ trace' = Append(trace, [cmd |-> cmd, out |-> out, docviol |-> docviol, pre |-> View(kd, nt, builds), post |-> View(k2, n2, b2)])

TotalBuilds == builds[1] + builds[2]

(* cls.compile_class_kernels(context=ctx, only_if_needed=oin) *)
Compile(c, cls, oin) ==
  LET cmd == [k |-> "compile", c |-> c, x |-> cls, y |-> IF oin THEN "only_if_needed" ELSE "always"]
      allFound == \A x \in DOMAIN K(cls) : Has(kd[c], K(cls)[x])
  IN IF oin /\ allFound /\ Wrong # "always-compile"
     THEN Step(cmd, kd, nt, builds, "ok", FALSE)
     ELSE LET g == TotalBuilds + 1
              es == [x \in DOMAIN K(cls) |-> [key |-> K(cls)[x], cls |-> cls, gen |-> g, calls |-> 0]]
          IN Step(cmd, [kd EXCEPT ![c] = PutAll(@, es)], nt, [builds EXCEPT ![c] = @ + 1], "ok", FALSE)

(* ctx.kernels.<name>(...) ; how = "kw" (named arguments only) | "pos" (a positional argument) *)
Call(c, name, how) ==
  LET cmd == [k |-> "call", c |-> c, x |-> name, y |-> how]
      docreach == ~Has(kd[c], name) /\ Has(kd[c], TupleKey(name))       \* documented: the kernel stored as (name, classes) is dispatched to
  IN IF how = "pos" /\ Wrong # "positional-accepted" THEN Step(cmd, kd, nt, builds, "ValueError", FALSE)
     ELSE IF ~Has(kd[c], name) THEN Step(cmd, kd, nt, builds, "KeyError", docreach)
     ELSE Step(cmd, [kd EXCEPT ![c][At(kd[c], name)].calls = @ + 1], nt, builds, "ok", FALSE)

(* ctx.kernels.<name>.set_n_threads(n) with n = step number + 1 *)
SetN(c, name) ==
  LET cmd == [k |-> "setn", c |-> c, x |-> name, y |-> ""]
      n == Len(hist) + 2
      docreach == Has(kd[c], TupleKey(name))
  IN IF Wrong = "setn-all"
     THEN Step(cmd, kd, [cls \in DOMAIN nt |-> [m \in DOMAIN nt[cls] |-> IF \E x \in DOMAIN kd[c] : kd[c][x].cls = cls /\ (cls = "U" \/ kd[c][x].key = m) THEN n ELSE nt[cls][m]]],
               builds, "ok", FALSE)
     ELSE IF Has(kd[c], name)
     THEN Step(cmd, kd, [nt EXCEPT ![kd[c][At(kd[c], name)].cls][name] = n], builds, "ok", docreach)
     ELSE Step(cmd, kd, nt, builds, "ok", docreach)                       \* as implemented: silently nothing

(* del ctx.kernels[name] *)
Remove(c, name) == /\ Has(kd[c], name)
                   /\ Step([k |-> "del", c |-> c, x |-> name, y |-> ""], [kd EXCEPT ![c] = Del(@, name)], nt, builds, "ok", FALSE)

(* ctx.kernels[(name, classes)] = kernel : the key form the docstring describes *)
AddTuple(c, name) == /\ ~Has(kd[c], TupleKey(name))
                     /\ Step([k |-> "addtuple", c |-> c, x |-> name, y |-> ""],
                             [kd EXCEPT ![c] = Append(@, [key |-> TupleKey(name), cls |-> "U", gen |-> 0, calls |-> 0])], nt, builds, "ok", FALSE)

(* ctx.kernels[name]: as implemented the kernel object itself (documented: a KernelDispatcher) *)
Index(c, name) == Step([k |-> "index", c |-> c, x |-> name, y |-> ""], kd, nt, builds, IF Has(kd[c], name) THEN "kernel" ELSE "KeyError", Has(kd[c], name))

Next == /\ Len(hist) < MaxLen
        /\ \/ \E c \in Cs, cls \in Classes, oin \in BOOLEAN : Compile(c, cls, oin)
           \/ \E c \in Cs, name \in {"k1", "k2", "zz"} : Call(c, name, "kw")
           \/ \E c \in Cs : Call(c, "k1", "pos")
           \/ \E c \in Cs, name \in {"k1", "k2", "zz"} : SetN(c, name)
           \/ \E c \in Cs, name \in {"k1", "k2"} : Remove(c, name)
           \/ AddTuple(1, "k1") \/ Index(1, "k1")
Spec == Init /\ [][Next]_vars

(* ------------------------------------------------------------------ contract *)
Last == trace[Len(trace)]
Is(k) == trace # <<>> /\ Last.cmd.k = k
Keys(v, c) == {v.tables[c][x].key : x \in DOMAIN v.tables[c]}
Entry(v, c, key) == v.tables[c][CHOOSE x \in DOMAIN v.tables[c] : v.tables[c][x].key = key]

(* compiling "only if needed" a class whose kernel names are all present does nothing: no build, no kernel object replaced *)
OnlyIfNeededIdempotent ==
  (Is("compile") /\ Last.cmd.y = "only_if_needed" /\ Range(K(Last.cmd.x)) \subseteq Keys(Last.pre, Last.cmd.c)) => Last.post = Last.pre
(* ... and otherwise exactly one build, after which every kernel name of the class is present and fresh *)
CompileEstablishes ==
  Is("compile") => /\ Range(K(Last.cmd.x)) \subseteq Keys(Last.post, Last.cmd.c)
                   /\ Last.post # Last.pre => (/\ Last.post.builds[Last.cmd.c] = Last.pre.builds[Last.cmd.c] + 1
                                                /\ \A n \in Range(K(Last.cmd.x)) : Entry(Last.post, Last.cmd.c, n).calls = 0
                                                                                  /\ Entry(Last.post, Last.cmd.c, n).cls = Last.cmd.x)
(* a call invokes exactly one kernel - the one stored under that name - or none at all; positional arguments never reach a kernel *)
CallInvokesExactlyOne ==
  Is("call") => IF Last.out = "ok"
                THEN /\ Last.cmd.y = "kw" /\ Last.cmd.x \in Keys(Last.pre, Last.cmd.c)
                     /\ \A c \in Cs : \A x \in DOMAIN Last.post.tables[c] :
                          Last.post.tables[c][x] = IF c = Last.cmd.c /\ Last.pre.tables[c][x].key = Last.cmd.x
                                                   THEN [Last.pre.tables[c][x] EXCEPT !.calls = @ + 1] ELSE Last.pre.tables[c][x]
                ELSE Last.post = Last.pre /\ (Last.cmd.y = "pos" => Last.out = "ValueError")
(* set_n_threads changes the thread count of kernels of that name only (in this and, through the shared description, in other contexts) *)
SetNTouchesOnlyThatName ==
  Is("setn") => \A c \in Cs : \A x \in DOMAIN Last.post.tables[c] :
                   Last.post.tables[c][x].key # Last.cmd.x => Last.post.tables[c][x] = Last.pre.tables[c][x]
(* no operation on one context adds, removes, replaces or invokes a kernel of the other *)
OtherContextKeepsItsKernels ==
  trace # <<>> => \A c \in Cs : c # Last.cmd.c =>
     /\ Last.post.builds[c] = Last.pre.builds[c] /\ Len(Last.post.tables[c]) = Len(Last.pre.tables[c])
     /\ \A x \in DOMAIN Last.post.tables[c] : [Last.post.tables[c][x] EXCEPT !.nt = 0] = [Last.pre.tables[c][x] EXCEPT !.nt = 0]
(* DOCUMENTED level: expected to be violated as implemented *)
TupleKeysAreDispatched == trace # <<>> => ~Last.docviol

(* the pre-state of a step is the post-state of the one before: it is not printed *)
Exported == (Export /\ Len(hist) = MaxLen) =>
   PrintT(ToJson([trace |-> [x \in DOMAIN trace |-> [cmd |-> trace[x].cmd, out |-> trace[x].out, docviol |-> trace[x].docviol, post |-> trace[x].post]]]))
=============================================================================
