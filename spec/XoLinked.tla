------------------------------- MODULE XoLinked -------------------------------
(***************************************************************************)
(* BaseLinkedArray (xobjects/linkedarray.py) as used by LinkedArrayCpu     *)
(* (xobjects/context_cpu.py) and BypassLinked.  No listed property covers  *)
(* it (DESIGN.md 7a); see EXTRAS.md.                                       *)
(*                                                                         *)
(* A linked array L is a VIEW of an underlying 1-D array (arr), created by *)
(* from_array(a, mode, container, container_setitem_name).  The state      *)
(* machine below says, for every way of writing through L, whether the     *)
(* write LANDS in arr, is REFUSED, or is FORWARDED to the container (and   *)
(* with which arguments), as a function of                                 *)
(*    mode  in  none | readonly | fwd ("setitem_from_container")           *)
(*    flag  =   container._flag_bypass_linked   (absent | true | false)    *)
(*    the container (None or an object) and the callback name              *)
(*    (None | a name the container lacks | a real method).                 *)
(*                                                                         *)
(* Two levels.                                                             *)
(*  AS IMPLEMENTED (the transitions): what the code does, statement by     *)
(*    statement (__setitem__ has three branches; numpy's other write       *)
(*    routes - in-place operators, fill, ufunc out=, element assignment    *)
(*    through a slice of L - do not pass through __setitem__ at all).      *)
(*  DOCUMENTED (the predicate DocViol, carried in every step record): the  *)
(*    only statement the code base makes about a readonly array is its     *)
(*    error message "This array is read only".  A step that changes the    *)
(*    content of a readonly, not bypassed array contradicts it.            *)
(* TLC checks the setitem contract (invariants below) on the transitions,  *)
(* finds a counterexample to ReadonlyMeansReadonly (expected: the engine   *)
(* requires it, and the replay shows the same on the real code), and       *)
(* exports every history of length MaxLen for the replay.                  *)
(***************************************************************************)
EXTENDS Integers, Sequences, FiniteSets, TLC, Json

CONSTANTS N,        \* length of the underlying array (positions 1..N, initial content arr[p] = p)
          MaxLen,   \* length of the exported histories
          Modes,    \* subset of {"none","readonly","fwd","bogus"}: the modes of this TLC process (the runs are split by mode)
          Wrong,    \* "" = the model; "readonly-lands" | "forward-twice" | "bypass-ignored" = deliberately wrong variants (vacuity self-test)
          Export    \* TRUE: print every history of length MaxLen (and every failed creation) as JSON

VARIABLES cfg,      \* the linked array's creation arguments and the container's callback behaviour; never changes
          arr,      \* content of the underlying array
          flag,     \* container._flag_bypass_linked: "absent" | "true" | "false"
          depth,    \* number of BypassLinked context managers entered and not yet left
          fwd,      \* calls the container has received: sequence of <<index tag, step>>
          hist,     \* commands so far
          trace     \* one record per step: command, pre/post projection, outcome, DocViol
vars == <<cfg, arr, flag, depth, fwd, hist, trace>>

Pos == 1..N
Arr0 == [p \in Pos |-> p]

(* ways of indexing used by the write commands: first element, last element (written as -1), the whole array with a scalar,   *)
(* the whole array with a vector, a boolean mask computed from the content (elements never written so far, value < 10)       *)
IdxTags == {"i1", "iN", "all", "allvec", "mask"}
Where(ix, a) == CASE ix = "i1" -> {1} [] ix = "iN" -> {N} [] ix = "mask" -> {p \in Pos : a[p] < 10} [] OTHER -> Pos
NewVal(ix, step, p) == 10 * step + (IF ix = "allvec" THEN p ELSE 0)
Apply(a, ix, step) == LET S == Where(ix, a) IN [p \in Pos |-> IF p \in S THEN NewVal(ix, step, p) ELSE a[p]]

(* write routes of numpy.ndarray that do not go through __setitem__ of L *)
Routes == {"iadd", "fill", "view", "ufunc"}
ApplyRoute(a, r, step) == CASE r = "iadd"  -> [p \in Pos |-> a[p] + step]          \* L += step
                            [] r = "ufunc" -> [p \in Pos |-> a[p] + step]          \* np.add(L, step, out=L)
                            [] r = "fill"  -> [p \in Pos |-> 10 * step]            \* L.fill(10*step)
                            [] OTHER       -> [p \in Pos |-> IF p = 1 THEN 10 * step ELSE a[p]]   \* L[0:1][0] = 10*step

(* ------------------------------------------------------------------ creation: from_array *)
Configs ==
  {c \in [mode : Modes, shape : {"1d", "2d", "strided"}, cont : {"none", "obj"}, cbn : {"none", "missing", "ok"}, beh : {"log", "apply", "bypass"},
           start : {"plain", "entered"}] :        \* "entered": the history starts inside one `with BypassLinked(container)` block
     /\ (c.start = "entered") => c.cont = "obj"
     /\ (c.shape # "1d") => (c.mode = "none" /\ c.cont = "none" /\ c.cbn = "none")          \* creation failures: one representative each
     /\ (c.mode = "bogus") => (c.shape = "1d" /\ c.cont = "none" /\ c.cbn = "none")
     /\ (c.mode # "fwd") => c.cbn = "none"                                                  \* the callback name is only ever read in mode fwd
     /\ (c.cont = "none" \/ c.cbn # "ok") => c.beh = "log"}                                 \* the callback's behaviour matters only if it can be called

(* assert len(a.shape) == 1; assert mode in (None, "readonly", "setitem_from_container"); the view is built from a.data (as implemented:   *)
(* a non-contiguous 1-D input is refused by the buffer protocol)                                                                          *)
Created(c) == IF c.shape = "2d" THEN "AssertionError"
              ELSE IF c.mode = "bogus" THEN "AssertionError"
              ELSE IF c.shape = "strided" THEN "BufferError"
              ELSE "ok"

Init == /\ cfg \in Configs
        /\ arr = Arr0 /\ fwd = <<>> /\ hist = <<>> /\ trace = <<>>
        /\ flag = (IF cfg.start = "entered" THEN "true" ELSE "absent")
        /\ depth = (IF cfg.start = "entered" THEN 1 ELSE 0)

(* ------------------------------------------------------------------ __setitem__ *)
Bypassed == cfg.cont = "obj" /\ flag = "true"        \* hasattr(container, "_flag_bypass_linked") and container._flag_bypass_linked

SetitemBranch ==
  IF cfg.mode = "none" \/ (Bypassed /\ Wrong # "bypass-ignored") THEN "land"
  ELSE IF cfg.mode = "fwd" THEN
         (IF cfg.cbn = "none" THEN "TypeError"                     \* getattr(container, None)
          ELSE IF cfg.cont = "none" THEN "AttributeError"           \* getattr(None, name)
          ELSE IF cfg.cbn = "missing" THEN "AttributeError"
          ELSE "forward")
  ELSE IF Wrong = "readonly-lands" THEN "land" ELSE "ValueError"     \* "This array is read only"

DocViolNow(a2) == cfg.mode = "readonly" /\ ~Bypassed /\ a2 # arr

Rec(cmd, a2, f2, w2, out) ==
  [cmd |-> cmd, pre |-> arr, preflag |-> flag, prefwd |-> Len(fwd), arr |-> a2, flag |-> f2, nfwd |-> Len(w2),
   lastfwd |-> IF Len(w2) > Len(fwd) THEN w2[Len(w2)] ELSE <<>>, out |-> out, docviol |-> DocViolNow(a2)]

Step(cmd, a2, f2, d2, w2, out) ==
  /\ arr' = a2 /\ flag' = f2 /\ depth' = d2 /\ fwd' = w2
  /\ hist' = Append(hist, cmd)
  /\ trace' = Append(trace, Rec(cmd, a2, f2, w2, out))
  /\ UNCHANGED cfg

Write(ix) ==
  LET step == Len(hist) + 1
      br == SetitemBranch
      cmd == [k |-> "W", x |-> ix]
  IN CASE br = "land" -> Step(cmd, Apply(arr, ix, step), flag, depth, fwd, "ok")
       [] br = "forward" ->
            LET w1 == Append(fwd, <<ix, step>>)
                w2 == IF Wrong = "forward-twice" THEN Append(w1, <<ix, step>>) ELSE w1
            IN CASE cfg.beh = "log"   -> Step(cmd, arr, flag, depth, w2, "ok")                          \* the callback only records the call
                 [] cfg.beh = "apply" -> Step(cmd, Apply(arr, ix, step), flag, depth, w2, "ok")          \* ... writes the underlying array itself
                 [] OTHER             -> Step(cmd, Apply(arr, ix, step), "absent", depth, w2, "ok")      \* ... writes L again under `with BypassLinked(self)`
       [] OTHER -> Step(cmd, arr, flag, depth, fwd, br)

(* as implemented: none of these reaches __setitem__; they write the shared memory directly *)
Escape(r) == Step([k |-> "E", x |-> r], ApplyRoute(arr, r, Len(hist) + 1), flag, depth, fwd, "ok")

(* BypassLinked(container).__enter__ : container._flag_bypass_linked = True *)
Enter == /\ cfg.cont = "obj"
         /\ Step([k |-> "enter", x |-> ""], arr, "true", depth + 1, fwd, "ok")
(* BypassLinked(container).__exit__ : del container._flag_bypass_linked   (as implemented: a flag, not a counter - leaving an inner block *)
(* ends the bypass of the outer one, and leaving the outer one then fails with AttributeError)                                          *)
Exit == /\ depth > 0
        /\ IF flag = "absent" THEN Step([k |-> "exit", x |-> ""], arr, flag, depth - 1, fwd, "AttributeError")
           ELSE Step([k |-> "exit", x |-> ""], arr, "absent", depth - 1, fwd, "ok")
(* user code: container._flag_bypass_linked = False *)
SetFalse == /\ cfg.cont = "obj"
            /\ Step([k |-> "setfalse", x |-> ""], arr, "false", depth, fwd, "ok")

Next == /\ Created(cfg) = "ok"
        /\ Len(hist) < MaxLen
        /\ \/ \E ix \in IdxTags : Write(ix)
           \/ \E r \in Routes : Escape(r)
           \/ Enter \/ Exit \/ SetFalse
Spec == Init /\ [][Next]_vars

(* ------------------------------------------------------------------ contract of __setitem__ (state predicates over the last step) *)
Last == trace[Len(trace)]
IsW == trace # <<>> /\ Last.cmd.k = "W"
WasBypassed == cfg.cont = "obj" /\ Last.preflag = "true"
FwdPossible == cfg.mode = "fwd" /\ cfg.cont = "obj" /\ cfg.cbn = "ok"

(* a readonly array refuses every __setitem__ unless bypassed: nothing lands, nothing is forwarded *)
ReadonlyRefuses == (IsW /\ cfg.mode = "readonly" /\ ~WasBypassed) =>
                      (Last.arr = Last.pre /\ Last.nfwd = Last.prefwd /\ Last.out = "ValueError")
(* a write is forwarded exactly once, with exactly the index and the value it was called with - or not at all *)
ForwardedExactlyOnce == IsW => IF FwdPossible /\ ~WasBypassed
                               THEN Last.nfwd = Last.prefwd + 1 /\ Last.lastfwd = <<Last.cmd.x, Len(trace)>>
                               ELSE Last.nfwd = Last.prefwd
(* with the bypass flag set every mode behaves like mode None: the write lands, the container is not called *)
BypassLands == (IsW /\ WasBypassed) => (Last.arr = Apply(Last.pre, Last.cmd.x, Len(trace)) /\ Last.nfwd = Last.prefwd /\ Last.out = "ok")
NoneModeLands == (IsW /\ cfg.mode = "none") => (Last.arr = Apply(Last.pre, Last.cmd.x, Len(trace)) /\ Last.nfwd = Last.prefwd /\ Last.out = "ok")
(* the linked array itself writes nothing when it forwards (the content changes only if the callback changes it) *)
ForwardWritesNothingItself == (IsW /\ FwdPossible /\ ~WasBypassed /\ cfg.beh = "log") => Last.arr = Last.pre
(* a write never touches positions outside the ones addressed; a failing write changes nothing at all *)
FrameCondition == IsW => /\ \A p \in Pos : p \notin Where(Last.cmd.x, Last.pre) => Last.arr[p] = Last.pre[p]
                         /\ Last.out # "ok" => (Last.arr = Last.pre /\ Last.flag = Last.preflag /\ Last.nfwd = Last.prefwd)
(* only BypassLinked, user code, or a callback that uses BypassLinked changes the flag *)
FlagStable == (IsW /\ ~(FwdPossible /\ ~WasBypassed /\ cfg.beh = "bypass")) => Last.flag = Last.preflag
TypeOK == /\ flag \in {"absent", "true", "false"} /\ depth \in 0..(MaxLen + 1) /\ Len(fwd) <= 2 * MaxLen
          /\ cfg.cont = "none" => flag = "absent"

(* DOCUMENTED level: "This array is read only".  Expected to be VIOLATED on the as-implemented transitions (routes that bypass __setitem__) *)
ReadonlyMeansReadonly == trace # <<>> => ~Last.docviol

(* ------------------------------------------------------------------ export *)
Exported == (Export /\ (Len(hist) = MaxLen \/ Created(cfg) # "ok")) =>
               PrintT(ToJson([cfg |-> cfg, created |-> Created(cfg), trace |-> trace]))
=============================================================================
