---------------------------- MODULE XoCapiTrace ----------------------------
(***************************************************************************)
(* Conformance of the GENERATED C accessor API (xobjects/capi.py, emitted  *)
(* at run time from the working tree, specialised by specialize_source for *)
(* one of the four targets, compiled and EXECUTED) with the documented     *)
(* layout: every recorded call of a generated function is checked by TLC   *)
(* against XoLayout!Nav / Decode evaluated on the bytes of the buffer the  *)
(* object lives in.                                                        *)
(*                                                                         *)
(* Input (env TRACE_FILE): sequence of records                              *)
(*   [t, mem, a, q]  type expression, buffer bytes, object address, calls  *)
(* call: [k, path, r, ...]                                                  *)
(*   k = "getp"   r = returned pointer minus buffer base                   *)
(*   k = "get"    r = bytes of the returned scalar                         *)
(*   k = "len"    r = returned length                                      *)
(*   k = "typeid" r = returned member index                                *)
(*   k = "member" r = returned member address minus buffer base            *)
(*   k = "set"    val = bytes of the value passed, d = <<pos, byte>> for   *)
(*                every byte of the buffer image that differs after the    *)
(*                call                                                      *)
(* path: steps [f |-> i] | [i |-> <<idx>>] | [d |-> 1] as in XoLayout!Nav  *)
(* (the harness only issues calls whose references are non-null and whose  *)
(* indices are in range, per the property).                                *)
(***************************************************************************)
EXTENDS XoLayout, Json, IOUtils, TLCExt

Recs == JsonDeserialize(IOEnv.TRACE_FILE)
VARIABLES tid, done
tvars == <<tid, done>>

Clause(rec, qu) ==
  LET nv == Nav(rec.t, rec.mem, rec.a, qu.path)
      m == rec.mem
  IN CASE qu.k = "getp" -> IF qu.r = nv.a THEN "" ELSE "getp:address"
       [] qu.k = "get" -> IF qu.r = Decode(nv.t, m, nv.a) THEN "" ELSE "get:value"
       [] qu.k = "len" -> IF qu.r = NItems(Shape(nv.t, m, nv.a)) THEN "" ELSE "len:length"
       [] qu.k = "typeid" -> IF qu.r = Decode(nv.t, m, nv.a).tid THEN "" ELSE "typeid:member-index"
       [] qu.k = "member" -> IF qu.r = Decode(nv.t, m, nv.a).at THEN "" ELSE "member:address"
       [] qu.k = "set" ->
            LET w == nv.t.w
                newb(x) == IF \E i \in 1..Len(qu.d) : qu.d[i][1] = x THEN qu.d[CHOOSE i \in 1..Len(qu.d) : qu.d[i][1] = x][2] ELSE B(m, x)
            IN IF \E i \in 1..Len(qu.d) : qu.d[i][1] < nv.a \/ qu.d[i][1] >= nv.a + w THEN "set:wrote-outside-element"
               ELSE IF [k \in 1..w |-> newb(nv.a + k - 1)] # qu.val THEN "set:value" ELSE ""

RECURSIVE JoinC(_)
JoinC(s) == IF s = <<>> THEN "" ELSE IF Len(s) = 1 THEN s[1] ELSE s[1] \o ";" \o JoinC(Tail(s))

(* every failing call of the record: "<index>=<clause>" *)
Verdict(rec) ==
  LET wf == WF(rec.t, rec.mem, rec.a) IN
  IF wf # "" THEN "image:" \o wf          \* not a well-formed object: nothing is claimed about accessors on it
  ELSE JoinC(SelectSeq([i \in 1..Len(rec.q) |-> LET c == Clause(rec, rec.q[i]) IN IF c = "" THEN "" ELSE ToString(i) \o "=" \o c],
                       LAMBDA x : x # ""))

Init == tid \in 1..Len(Recs) /\ done = FALSE
Next == /\ ~done
        /\ PrintT(<<"VERDICT", tid, Verdict(Recs[tid])>>)
        /\ done' = TRUE /\ UNCHANGED tid
Spec == Init /\ [][Next]_tvars
=============================================================================
