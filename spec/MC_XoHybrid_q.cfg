\* bounded instance of XoHybrid.tla as the quick tier runs it (vlib/hybrid.py writes the same text at run time).
\* The populations that start with five objects are run separately by the quick tier:
\*   Scens = {8} MaxDepth = 3 MaxH = 6 WSlots = {"a","h","w"}   (Wrap: a nested part holding a reference)
\*   Scens = {9} MaxDepth = 3 MaxH = 6 WSlots = {"a","p","w"}   (Pair / WrapPair: two references per object)
SPECIFICATION Spec
CONSTANTS Scens = {1,2,3,4,5,6,7} MaxDepth = 4 MaxH = 3 Vals = {1} WSlots = {"a","x","arr"} Bufs = {1,2} Bug = FALSE
INVARIANT Mirror
INVARIANT CopyIndependent
INVARIANT PartsInside
INVARIANT RefShares
CHECK_DEADLOCK FALSE
