\* bounded instance of XoHybrid.tla as the quick tier runs it (vlib/hybrid.py writes the same text at run time)
SPECIFICATION Spec
CONSTANTS Scens = {1,2,3,4,5,6,7,8} MaxDepth = 4 MaxH = 3 Vals = {1} WSlots = {"a","x","arr"} Bufs = {1,2} Bug = FALSE
INVARIANT Mirror
INVARIANT CopyIndependent
INVARIANT PartsInside
INVARIANT RefShares
CHECK_DEADLOCK FALSE
