---------------------------- MODULE XoHybridMeta ----------------------------
(***************************************************************************)
(* Construction rules of hybrid classes (xobjects/hybrid_class.py:         *)
(* MetaHybridClass.__new__, _build_xofields_dict).  No listed property     *)
(* covers them (DESIGN.md 7a; C18 starts from classes that exist); see     *)
(* EXTRAS.md.                                                              *)
(*                                                                         *)
(* A class DEFINITION is what the class statement supplies:                *)
(*   own    [has, f]: whether _xofields is given, its ordered field names  *)
(*   ren    [has, m]: whether _rename is given, its ordered (field, new    *)
(*          name) pairs                                                    *)
(*   bases  up to two base classes from a small library (BaseKinds), and   *)
(*          whether xo.HybridClass itself closes the list (root)           *)
(*   cname  whether _cname is given                                        *)
(* Impl(d)  AS IMPLEMENTED: the metaclass transcribed branch by branch:    *)
(*          the early return "use _XoStruct from base class", the choice   *)
(*          of _xofields, the two rename checks, the name tables.          *)
(* Doc(d)   DOCUMENTED: the three error messages of the code ("Cannot      *)
(*          rename fields to names of other fields", "Two fields are       *)
(*          renamed to the same name", "Multiple bases have _xofields")    *)
(*          and the two tests test_rename_*_fails state when a definition  *)
(*          must be refused with ValueError.                               *)
(* Invariants: a definition with fields of its own is accepted iff its     *)
(* rename map is CLEAN (stated independently of the code's set algebra),   *)
(* and then the python / xobject name tables are consistent.               *)
(* A second family of cases (kind "deps") covers the rewriting of          *)
(* _depends_on entries and _kernels argument types (hybrid class ->        *)
(* its _XoStruct, ThisClass -> this class's _XoStruct).                    *)
(***************************************************************************)
EXTENDS Integers, Sequences, FiniteSets, TLC, Json

CONSTANTS Wrong,      \* "" | "rename-to-field-allowed" | "multi-base-checked" (vacuity self-tests)
          Export,
          Families    \* subset of {"rename", "bases", "deps"}: which case families this TLC process enumerates

VARIABLES case, res
vars == <<case, res>>

Range(s) == {s[x] : x \in DOMAIN s}
NoDup(s) == \A x, y \in DOMAIN s : x # y => s[x] # s[y]

(* ------------------------------------------------------------------ the library of base classes *)
BaseKinds == {"HF1", "HF2", "HE", "HR", "MF1", "MF2", "ME", "PL"}
(* HF1: hybrid, _xofields = {p}     HF2: hybrid, {q}      HE: hybrid, _xofields = {}      HR: hybrid, {a, b} with _rename = {a: x} *)
(* MF1: plain class with a class attribute _xofields = {p}      MF2: {q}      ME: _xofields = {}      PL: plain class            *)
Hybrid(b) == b \in {"HF1", "HF2", "HE", "HR"}                       \* has _XoStruct (and all name tables)
HasXofAttr(b) == b \in {"HF1", "HF2", "HE", "HR", "MF1", "MF2", "ME"}
FieldsOf(b) == CASE b \in {"HF1", "MF1"} -> <<"p">> [] b \in {"HF2", "MF2"} -> <<"q">> [] b = "HR" -> <<"a", "b">> [] OTHER -> <<>>
Tables(b) ==      \* of a hybrid base or of xo.HybridClass itself ("root")
  CASE b = "HR" -> [xo |-> <<"a", "b">>, py |-> <<"b", "x">>, fields |-> <<"x", "b">>, ren |-> << <<"a", "x">> >>, inv |-> << <<"x", "a">> >>]
    [] OTHER -> [xo |-> FieldsOf(b), py |-> FieldsOf(b), fields |-> FieldsOf(b), ren |-> <<>>, inv |-> <<>>]

Ok(struct, own, t, ren) == [k |-> "ok", e |-> "", struct |-> struct, ownstruct |-> own, xo |-> t.xo, py |-> t.py, fields |-> t.fields, ren |-> ren, inv |-> t.inv]
Err(e) == [k |-> "err", e |-> e, struct |-> "", ownstruct |-> FALSE, xo |-> <<>>, py |-> <<>>, fields |-> <<>>, ren |-> <<>>, inv |-> <<>>]

(* ------------------------------------------------------------------ as implemented *)
RECURSIVE Remove(_, _)
Remove(s, x) == IF s = <<>> THEN <<>> ELSE IF Head(s) = x THEN Tail(s) ELSE <<Head(s)>> \o Remove(Tail(s), x)      \* list.remove: first occurrence
RECURSIVE PyNames(_, _)
PyNames(py, ren) == IF ren = <<>> THEN py ELSE PyNames(Append(Remove(py, ren[1][1]), ren[1][2]), Tail(ren))          \* py_fnames.remove(kk); .append(vv)
RenOf(ren, f) == IF \E x \in DOMAIN ren : ren[x][1] = f THEN ren[CHOOSE x \in DOMAIN ren : ren[x][1] = f][2] ELSE f
(* {v: k for k, v in rename.items()}: insertion order of first occurrence, last value wins *)
Inverse(ren) == LET vals == [x \in DOMAIN ren |-> ren[x][2]]
                    first == SelectSeq([x \in DOMAIN ren |-> x], LAMBDA x : \A y \in 1..(x - 1) : vals[y] # vals[x])
                IN [i \in DOMAIN first |-> <<vals[first[i]], ren[CHOOSE y \in DOMAIN ren : vals[y] = vals[first[i]] /\ \A z \in DOMAIN ren : vals[z] = vals[first[i]] => z <= y][1]>>]

StructBases(d) == SelectSeq(d.bases, Hybrid)
Inherits(d) == ~d.own.has /\ (d.root \/ StructBases(d) # <<>>)       \* "_xofields" not in data and any base has _XoStruct

Impl(d) ==
  IF Inherits(d) /\ Wrong # "multi-base-checked"
  THEN \* "No action, use _XoStruct from base class": every table is looked up through the MRO; a _rename given here is stored but not applied
       LET src == IF StructBases(d) # <<>> THEN StructBases(d)[1] ELSE "root" IN
       Ok(src, FALSE, Tables(src), IF d.ren.has THEN d.ren.m ELSE Tables(src).ren)
  ELSE LET filled == SelectSeq(d.bases, LAMBDA b : FieldsOf(b) # <<>>)
           fromBases == ~d.own.has /\ \E x \in DOMAIN d.bases : HasXofAttr(d.bases[x])
           xerr == IF fromBases /\ Len(filled) > 1 THEN "ValueError"                           \* "Multiple bases have _xofields"
                   ELSE IF fromBases /\ Len(filled) = 0 THEN "UnboundLocalError"                \* as implemented: only empty _xofields found, `xofields` never bound
                   ELSE ""
           xof == IF d.own.has THEN d.own.f                                                    \* data["_xofields"]
                  ELSE IF fromBases /\ Len(filled) = 1 THEN FieldsOf(filled[1])
                  ELSE <<>>
       IN IF xerr # "" THEN Err(xerr)
          ELSE LET ren == IF d.ren.has THEN d.ren.m ELSE <<>>
                   keys == {ren[x][1] : x \in DOMAIN ren}
                   vals == {ren[x][2] : x \in DOMAIN ren}
                   struct == IF d.cname THEN "custom" ELSE "own"
               IN IF (keys \cup (IF Wrong = "rename-to-field-allowed" THEN {} ELSE Range(xof))) \cap vals # {}
                  THEN Err("ValueError")                                                       \* "Cannot rename fields to names of other fields"
                  ELSE IF Cardinality(keys) # Cardinality(vals) THEN Err("ValueError")         \* "Two fields are renamed to the same name"
                  ELSE IF \E f \in keys : f \notin Range(xof) THEN Err("ValueError")           \* as implemented: list.remove(x): x not in list
                  ELSE Ok(struct, TRUE, [xo |-> xof, py |-> PyNames(xof, ren), fields |-> [x \in DOMAIN xof |-> RenOf(ren, xof[x])], inv |-> Inverse(ren)], ren)

(* ------------------------------------------------------------------ as documented *)
Doc(d) ==
  LET ren == IF d.ren.has THEN d.ren.m ELSE <<>>
      keys == {ren[x][1] : x \in DOMAIN ren}
      vals == {ren[x][2] : x \in DOMAIN ren}
      filledBases == SelectSeq(d.bases, LAMBDA b : FieldsOf(b) # <<>>)
  IN IF d.own.has /\ vals \cap ((Range(d.own.f) \cup keys)) # {} THEN "ValueError"       \* renaming to the name of another field (test_rename_with_ambiguous_fields_fails)
     ELSE IF d.own.has /\ Cardinality(keys) # Cardinality(vals) THEN "ValueError"       \* two fields to the same name (test_rename_of_two_xo_fields_to_same_name_fails)
     ELSE IF ~d.own.has /\ Len(filledBases) > 1 THEN "ValueError"                        \* "Multiple bases have _xofields"
     ELSE "unspecified"
DocAccepts(d, r) == Doc(d) = "unspecified" \/ (r.k = "err" /\ r.e = Doc(d))

(* ------------------------------------------------------------------ the second family: _depends_on / _kernels / _extra_c_sources *)
(* entries: "H" a hybrid class, "S" a struct class, "F" a scalar type, "This" xo.ThisClass *)
DepImage(x) == IF x = "H" THEN "HS" ELSE x                                  \* hybrid class -> its _XoStruct
ArgImage(x, shared) == CASE x = "This" -> (IF shared THEN "PrevS" ELSE "Self")     \* ThisClass -> this class's _XoStruct.  As implemented the Arg object
                         [] x = "H" -> "HS" [] OTHER -> x                           \* is rewritten in place: a Kernel object already used by an earlier class
                                                                                    \* definition ("shared") keeps pointing at THAT class's struct
ImplDeps(d) ==
  IF d.path = "own"
  THEN [k |-> "ok", deps |-> [x \in DOMAIN d.dep.s |-> DepImage(d.dep.s[x])],
        haskernel |-> d.kern.has,
        args |-> [x \in DOMAIN d.kern.args |-> ArgImage(d.kern.args[x], d.shared)],
        ret |-> d.kern.ret,    \* as implemented: ret is never rewritten
        extra |-> d.extra]
  ELSE \* the struct is the base class's: nothing of this definition reaches it
       [k |-> "ok", deps |-> <<>>, haskernel |-> FALSE, args |-> <<>>, ret |-> "none", extra |-> FALSE]

(* ------------------------------------------------------------------ the cases *)
Absent == [has |-> FALSE, f |-> <<>>]
Own(f) == [has |-> TRUE, f |-> f]
Owns == {Absent} \cup {Own(f) : f \in {<<>>, <<"a">>, <<"a", "b">>, <<"b", "a">>, <<"a", "b", "c">>}}
Pairs == {<<k, v>> : k \in {"a", "b", "z"}, v \in {"a", "b", "x", "y"}}
NoRen == [has |-> FALSE, m |-> <<>>]
Ren(m) == [has |-> TRUE, m |-> m]
Rens == {NoRen} \cup {Ren(m) : m \in {<<>>} \cup {<<p>> : p \in Pairs} \cup {<<p, q>> \in Pairs \X Pairs : p[1] # q[1]}}
BaseSeqs == {<<>>} \cup {<<b>> : b \in BaseKinds} \cup {<<b, c>> \in BaseKinds \X BaseKinds : b # c}
DepSeqs == {[has |-> FALSE, s |-> <<>>]} \cup {[has |-> TRUE, s |-> q] : q \in {<<>>} \cup {<<x>> : x \in {"H", "S", "F"}} \cup {<<x, y>> : x \in {"H", "S", "F"}, y \in {"H", "S"}}}
Kerns == {[has |-> FALSE, args |-> <<>>, ret |-> "none"]} \cup {[has |-> TRUE, args |-> a, ret |-> r] : a \in {<<x>> : x \in {"This", "H", "S", "F"}} \cup {<<x, y>> : x \in {"This", "H"}, y \in {"This", "H", "S", "F"}},
                                                     r \in {"none", "This", "H", "F"}}

RenameCases == {[kind |-> "class", own |-> o, ren |-> r, bases |-> <<>>, root |-> rt, cname |-> cn] :
                  o \in Owns, r \in Rens, rt \in BOOLEAN, cn \in BOOLEAN}
BaseCases == {[kind |-> "class", own |-> o, ren |-> r, bases |-> b, root |-> rt, cname |-> cn] :
                  o \in {Absent, Own(<<>>), Own(<<"a">>)}, r \in {NoRen, Ren(<< <<"a", "x">> >>), Ren(<< <<"p", "pp">> >>), Ren(<< <<"a", "b">> >>)}, b \in BaseSeqs, rt \in BOOLEAN, cn \in BOOLEAN}
DepsCases == {c \in {[kind |-> "deps", path |-> p, dep |-> d, kern |-> k, extra |-> e, shared |-> s] :
                         p \in {"own", "inherit"}, d \in DepSeqs, k \in Kerns, e \in BOOLEAN, s \in BOOLEAN} : c.shared => c.kern.has}

Cases == (IF "rename" \in Families THEN RenameCases ELSE {}) \cup (IF "bases" \in Families THEN BaseCases ELSE {}) \cup (IF "deps" \in Families THEN DepsCases ELSE {})

Init == /\ case \in Cases
        /\ res = IF case.kind = "class" THEN Impl(case) ELSE ImplDeps(case)
Next == UNCHANGED vars
Spec == Init /\ [][Next]_vars

(* ------------------------------------------------------------------ contract *)
IsClass == case.kind = "class"
OwnPath == IsClass /\ ~Inherits(case)
(* CLEAN rename map, stated without the code's set algebra: every renamed name is a field; no new name is a field (renamed or not) *)
(* or a renamed name; no two fields get the same new name                                                                      *)
Clean(xof, ren) == /\ \A x \in DOMAIN ren : ren[x][1] \in Range(xof)
                   /\ \A x \in DOMAIN ren : ren[x][2] \notin Range(xof) /\ \A y \in DOMAIN ren : ren[x][2] # ren[y][1]
                   /\ \A x, y \in DOMAIN ren : x # y => ren[x][2] # ren[y][2]
AcceptedIffClean == (OwnPath /\ case.own.has) => (res.k = "ok" <=> (~case.ren.has \/ Clean(case.own.f, case.ren.m)))
(* the name tables of an accepted class that builds its own struct *)
TablesConsistent == (OwnPath /\ res.k = "ok") =>
   /\ Len(res.py) = Len(res.xo) /\ Len(res.fields) = Len(res.xo) /\ NoDup(res.py) /\ NoDup(res.fields)
   /\ Range(res.py) = Range(res.fields)
   /\ \A x \in DOMAIN res.xo : res.fields[x] = RenOf(res.ren, res.xo[x])
   /\ Len(res.inv) = Len(res.ren) /\ \A x \in DOMAIN res.ren : \E y \in DOMAIN res.inv : res.inv[y] = <<res.ren[x][2], res.ren[x][1]>>
   /\ \A x \in DOMAIN res.ren : res.ren[x][1] \notin Range(res.py)
(* a class without _xofields of its own that has a hybrid base is never refused and shares that base's struct and tables *)
InheritedStructIsShared == (IsClass /\ Inherits(case)) => (res.k = "ok" /\ ~res.ownstruct /\ res.xo = Tables(res.struct).xo /\ res.py = Tables(res.struct).py)
(* after class creation no hybrid class and no ThisClass is left among the struct's dependencies and kernel argument types *)
OnlyStructsLeft == (case.kind = "deps" /\ case.path = "own") => (\A x \in DOMAIN res.deps : res.deps[x] # "H") /\ (\A x \in DOMAIN res.args : res.args[x] \notin {"H", "This"})
(* DOCUMENTED level: expected to be violated as implemented (two hybrid bases with fields are accepted) *)
ImplMeetsDoc == IsClass => DocAccepts(case, res)

Exported == Export => PrintT(ToJson([case |-> case, res |-> res,
                                     doc |-> IF IsClass THEN Doc(case) ELSE "unspecified",
                                     docviol |-> IF IsClass THEN ~DocAccepts(case, res) ELSE FALSE]))
=============================================================================
