---------------------------- MODULE MC_XoEncode ----------------------------
(***************************************************************************)
(* Bounded instance of the model-level theorem about the documented format *)
(* (see XoEncode) over a TLC-enumerated type grammar, and export of every  *)
(* enumerated (type, canonical value, prescribed image) for the spec->code *)
(* comparison with the real library.                                       *)
(*   Depth      nesting depth of the grammar                               *)
(*   MaxFields  fields per struct, MaxNd dimensions per array              *)
(*   StaticDims declared static extents (dynamic is always included),      *)
(*              DynExt extents given to                                    *)
(*              the dynamic dimensions, Widths scalar widths               *)
(*   Parts/Part partition of the top-level types over TLC processes        *)
(***************************************************************************)
EXTENDS XoEncode, Json, SequencesExt

CONSTANTS Depth, MaxFields, MaxNd, StaticDims, DynExt, Widths, Parts, Part, Export
Dims == {-1} \cup StaticDims        \* -1 = dynamic dimension (a cfg file cannot hold a negative literal)
VARIABLES cty, cext, fin        \* current type, current extent of dynamic dimensions
vars == <<cty, cext, fin>>

Perms(n) == {p \in [1..n -> 0..(n - 1)] : \A i, j \in 1..n : i # j => p[i] # p[j]}
Leaf == {[k |-> "sc", w |-> w] : w \in Widths} \cup {[k |-> "str"]}
        \cup {[k |-> "ref", to |-> [k |-> "struct", f |-> <<[k |-> "sc", w |-> 8]>>]],
              [k |-> "uref", of |-> <<[k |-> "struct", f |-> <<[k |-> "sc", w |-> 8]>>], [k |-> "arr", it |-> [k |-> "sc", w |-> 8], sh |-> <<2>>, ord |-> <<0>>]>>]}
Structs(T, nf) == {[k |-> "struct", f |-> fs] : fs \in UNION {[1..n -> T] : n \in 1..nf}}
Arrays(T, nd) == {[k |-> "arr", it |-> it, sh |-> sh, ord |-> p] : it \in T, sh \in UNION {[1..n -> Dims] : n \in 1..nd}, p \in UNION {Perms(n) : n \in 1..nd}}
RECURSIVE Types(_)
Types(d) == IF d = 0 THEN Leaf
            ELSE LET T == Types(d - 1) IN T \cup Structs(T, MaxFields) \cup {a \in Arrays(T, MaxNd) : Len(a.sh) = Len(a.ord)}
(* the top level is partitioned over TLC processes by the position of the type in an arbitrary but fixed order *)
Top == LET s == SetToSeq(Types(Depth)) IN {s[i] : i \in {j \in 1..Len(s) : j % Parts = Part}}

RECURSIVE Canon(_, _, _)
Canon(ty, ext, s) ==
  CASE ty.k = "sc" -> [i \in 1..ty.w |-> ((s * 31 + i * 7) % 255) + 1]
    [] ty.k = "str" -> [i \in 1..((s % 3) * 4 + (s % 2)) |-> 65 + ((s + i) % 26)]
    [] ty.k = "struct" -> [i \in 1..Len(ty.f) |-> Canon(ty.f[i], ext, s * 3 + i)]
    [] ty.k = "arr" -> LET sh == [i \in 1..Len(ty.sh) |-> IF ty.sh[i] < 0 THEN ext ELSE ty.sh[i]]
                       IN [sh |-> sh, it |-> [k \in 1..NItems(sh) |-> Canon(ty.it, ext, s * 5 + k)]]
    [] OTHER -> NullRef

Theorem(ty, ext) ==
  LET v == Canon(ty, ext, 1)
      enc == Encode(ty, v)
  IN /\ Len(enc) = SizeOf(ty, v)
     /\ WF(ty, enc, 0) = ""
     /\ SizeAt(ty, enc, 0) = SizeOf(ty, v)
     /\ Decode(ty, enc, 0) = v

Init == cty \in Top /\ cext \in DynExt /\ fin = FALSE
Next == /\ ~fin /\ fin' = TRUE /\ UNCHANGED <<cty, cext>>
        /\ (Export /\ Determined(cty)) => PrintT(ToJson([t |-> cty, v |-> Canon(cty, cext, 1), enc |-> Encode(cty, Canon(cty, cext, 1))]))
Spec == Init /\ [][Next]_vars
FormatConsistent == Theorem(cty, cext)
(* vacuity: the enumeration really contains every construct the theorem is about *)
=============================================================================
