SPECIFICATION GSpec
CONSTANTS MaxCap = 7  InitCap = 4  Sizes = {1,2,3}  Aligns = {1,2,4}  GrowStep = 0  GrowAmounts = {2}  Tokens = {7}
VIEW View
CHECK_DEADLOCK FALSE
