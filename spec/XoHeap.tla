------------------------------- MODULE XoHeap -------------------------------
(***************************************************************************)
(* Contract-level abstract heap of xobjects: what the typed layer          *)
(* (struct.py, array.py, string.py, ref.py) promises about objects living  *)
(* in buffers.  State:                                                     *)
(*   mem    the bytes of every buffer (sequence of byte sequences)         *)
(*   reg    per buffer, the regions <<start,size>> handed out by allocate  *)
(*   heap   the live objects: [b, a, t, v]  buffer, address, type          *)
(*          expression, abstract value (XoLayout normal form; references   *)
(*          are shallow [null, at, tid]: the referent is a heap object of  *)
(*          its own, which is what makes aliasing expressible)             *)
(* The transitions are written as operators that compute the abstract      *)
(* post-state from the pre-state and the operation's arguments:            *)
(*   Construct (incl. copy-construction), Set / Bind, Grow, ErrOp, Pickle. *)
(* Input values are in "input form": like the normal form, except that a   *)
(* scalar may be <<>> (left unspecified by the constructor) and a          *)
(* reference says how it is bound: [r |-> "null"] | [r |-> "alias", at,    *)
(* tid] (an object that already lives in the holder's buffer: identity) |  *)
(* [r |-> "new", tid, v] (plain data or a foreign object: a NEW object of  *)
(* the member type is created in the holder's buffer).  Where the contract *)
(* leaves a choice to the implementation (where a new referent is placed)  *)
(* the choice is read from the bytes and then CHECKED (fresh allocation of *)
(* exactly the object's size).                                             *)
(* XoHeapTrace.tla validates recorded executions of the real library       *)
(* against these transitions, with XoLayout!Decode on the real bytes as    *)
(* the refinement mapping.                                                 *)
(***************************************************************************)
EXTENDS XoLayout

HeapAt(heap, b, a) == CHOOSE o \in heap : o.b = b /\ o.a = a
InHeap(heap, b, a) == \E o \in heap : o.b = b /\ o.a = a

(* input form -> abstract value, binding implementation choices from the bytes m of the holder's buffer *)
RECURSIVE Resolve(_, _, _, _)
Resolve(t, inp, m, a) ==
  CASE t.k = "sc" -> IF inp = <<>> THEN Decode(t, m, a) ELSE inp
    [] t.k = "str" -> inp
    [] t.k = "struct" -> [i \in 1..Len(t.f) |-> Resolve(t.f[i], inp[i], m, FieldAddr(t, i, m, a))]
    [] t.k = "arr" -> [sh |-> inp.sh, it |-> [k \in 1..Len(inp.it) |-> Resolve(t.it, inp.it[k], m, ItemAddr(t, m, a, IdxOf(k, inp.sh)))]]
    [] OTHER -> IF inp.r = "null" THEN NullRef
                ELSE IF inp.r = "alias" THEN [null |-> FALSE, at |-> inp.at, tid |-> inp.tid]
                ELSE [null |-> FALSE, at |-> Decode(t, m, a).at, tid |-> inp.tid]

(* the NEW referents an input value creates (transitively): [t, a, inp] *)
RECURSIVE News(_, _, _, _)
News(t, inp, m, a) ==
  CASE t.k \in {"sc", "str"} -> {}
    [] t.k = "struct" -> UNION {News(t.f[i], inp[i], m, FieldAddr(t, i, m, a)) : i \in 1..Len(t.f)}
    [] t.k = "arr" -> UNION {News(t.it, inp.it[k], m, ItemAddr(t, m, a, IdxOf(k, inp.sh))) : k \in 1..Len(inp.it)}
    [] OTHER -> IF inp.r = "new"
                THEN LET tt == TargetType(t, inp.tid)  ta == Decode(t, m, a).at
                     IN {[t |-> tt, a |-> ta, inp |-> inp.v]} \cup News(tt, inp.v, m, ta)
                ELSE {}

(* value with every reference blanked: separates "wrong data" from "wrong reference" *)
RECURSIVE Mask(_, _)
Mask(t, v) ==
  CASE t.k \in {"sc", "str"} -> v
    [] t.k = "struct" -> [i \in 1..Len(t.f) |-> Mask(t.f[i], v[i])]
    [] t.k = "arr" -> [sh |-> v.sh, it |-> [k \in 1..Len(v.it) |-> Mask(t.it, v.it[k])]]
    [] OTHER -> NullRef

(* where two values of type t first differ, as a chain of type-shape tags (stable classification for failure keys) *)
ArrTag(t) == "arr" \o ToString(Len(t.sh)) \o "d"
             \o (IF t.ord # [i \in 1..Len(t.sh) |-> i - 1] THEN "-nonC" ELSE "")
             \o (IF \E i \in 1..Len(t.sh) : t.sh[i] < 0 THEN "-dynshape" ELSE "")
             \o (IF ~IsStatic(t.it) THEN "-dynitem" ELSE "")
RECURSIVE Where(_, _, _)
Where(t, v1, v2) ==
  IF v1 = v2 THEN ""
  ELSE CASE t.k \in {"sc", "str"} -> t.k
         [] t.k = "struct" -> IF Len(v1) # Len(v2) THEN "struct:arity"
                              ELSE LET i == CHOOSE i \in 1..Len(t.f) : v1[i] # v2[i] /\ \A j \in 1..(i - 1) : v1[j] = v2[j]
                                   IN "struct/" \o Where(t.f[i], v1[i], v2[i])
         [] t.k = "arr" -> IF v1.sh # v2.sh \/ Len(v1.it) # Len(v2.it) THEN ArrTag(t) \o ":shape"
                           ELSE LET k == CHOOSE k \in 1..Len(v1.it) : v1.it[k] # v2.it[k] /\ \A j \in 1..(k - 1) : v1.it[j] = v2.it[j]
                                IN ArrTag(t) \o "/" \o Where(t.it, v1.it[k], v2.it[k])
         [] OTHER -> t.k

(* skeleton: every stored size/shape of the object (strings by their box size) *)
RECURSIVE Skel(_, _, _)
Skel(t, m, a) ==
  CASE t.k = "sc" -> 0
    [] t.k = "str" -> I64(m, a)
    [] t.k = "struct" -> <<SizeAt(t, m, a), [i \in 1..Len(t.f) |-> Skel(t.f[i], m, FieldAddr(t, i, m, a))]>>
    [] t.k = "arr" -> LET sh == Shape(t, m, a) IN
                      <<SizeAt(t, m, a), sh, [k \in 1..NItems(sh) |-> Skel(t.it, m, ItemAddr(t, m, a, IdxOf(k, sh)))]>>
    [] OTHER -> 0

TopSkel(t, m, a) == <<SizeAt(t, m, a), IF t.k = "arr" THEN Shape(t, m, a) ELSE <<>>>>      \* stored size and shape of the element itself
RECURSIVE SkelNoStr(_, _, _)       \* the skeleton with string boxes ignored
SkelNoStr(t, m, a) ==
  CASE t.k = "struct" -> <<SizeAt(t, m, a), [i \in 1..Len(t.f) |-> SkelNoStr(t.f[i], m, FieldAddr(t, i, m, a))]>>
    [] t.k = "arr" -> LET sh == Shape(t, m, a) IN
                      <<SizeAt(t, m, a), sh, [k \in 1..NItems(sh) |-> SkelNoStr(t.it, m, ItemAddr(t, m, a, IdxOf(k, sh)))]>>
    [] OTHER -> 0

(* type of the element a local path (no dereference) denotes *)
RECURSIVE ElemType(_, _)
ElemType(t, lp) == IF lp = <<>> THEN t
                   ELSE IF IsF(Head(lp)) THEN ElemType(t.f[Head(lp).f], Tail(lp)) ELSE ElemType(t.it, Tail(lp))
RECURSIVE GetAt(_, _, _)
GetAt(t, v, lp) == IF lp = <<>> THEN v
                   ELSE IF IsF(Head(lp)) THEN GetAt(t.f[Head(lp).f], v[Head(lp).f], Tail(lp))
                   ELSE GetAt(t.it, v.it[LinOf(Head(lp).i, v.sh)], Tail(lp))
RECURSIVE SetAt(_, _, _, _)
SetAt(t, v, lp, nv) ==
  IF lp = <<>> THEN nv
  ELSE IF IsF(Head(lp)) THEN [v EXCEPT ![Head(lp).f] = SetAt(t.f[Head(lp).f], v[Head(lp).f], Tail(lp), nv)]
  ELSE LET k == LinOf(Head(lp).i, v.sh) IN [v EXCEPT !.it = [@ EXCEPT ![k] = SetAt(t.it, v.it[k], Tail(lp), nv)]]

(* which heap object owns the element reached from root (b, a) along path (dereferences follow the ABSTRACT references) *)
RECURSIVE Walk(_, _, _, _, _, _, _)
Walk(heap, b, a, t, v, path, lp) ==
  IF path = <<>> THEN [a |-> a, lp |-> lp]
  ELSE LET s == Head(path) IN
       IF IsF(s) THEN Walk(heap, b, a, t.f[s.f], v[s.f], Tail(path), Append(lp, s))
       ELSE IF IsI(s) THEN Walk(heap, b, a, t.it, v.it[LinOf(s.i, v.sh)], Tail(path), Append(lp, s))
       ELSE LET o == HeapAt(heap, b, v.at) IN Walk(heap, b, o.a, o.t, o.v, Tail(path), <<>>)
Owner(heap, b, a, path) == LET o == HeapAt(heap, b, a) IN Walk(heap, b, a, o.t, o.v, path, <<>>)

(* abstract value -> input form of a COPY of it placed in buffer db (C09): same buffer keeps the referent, *)
(* another buffer duplicates it (transitively)                                                            *)
RECURSIVE AsCopyInput(_, _, _, _, _)
AsCopyInput(heap, t, v, sb, same) ==
  CASE t.k \in {"sc", "str"} -> v
    [] t.k = "struct" -> [i \in 1..Len(t.f) |-> AsCopyInput(heap, t.f[i], v[i], sb, same)]
    [] t.k = "arr" -> [sh |-> v.sh, it |-> [k \in 1..Len(v.it) |-> AsCopyInput(heap, t.it, v.it[k], sb, same)]]
    [] OTHER -> IF v.null THEN [r |-> "null"]
                ELSE IF same THEN [r |-> "alias", at |-> v.at, tid |-> v.tid]
                ELSE LET o == HeapAt(heap, sb, v.at) IN [r |-> "new", tid |-> v.tid, v |-> AsCopyInput(heap, o.t, o.v, sb, same)]

(* input form with "foreign" references (an object living in ANOTHER buffer is assigned) rewritten to what the   *)
(* contract says happens: a new object holding a duplicate of the foreign object's value                          *)
RECURSIVE Norm(_, _, _)
Norm(heap, t, inp) ==
  CASE t.k \in {"sc", "str"} -> inp
    [] t.k = "struct" -> [i \in 1..Len(t.f) |-> Norm(heap, t.f[i], inp[i])]
    [] t.k = "arr" -> [sh |-> inp.sh, it |-> [k \in 1..Len(inp.it) |-> Norm(heap, t.it, inp.it[k])]]
    [] OTHER -> IF inp.r = "foreign"
                THEN LET o == HeapAt(heap, inp.src[1], inp.src[2]) IN [r |-> "new", tid |-> inp.tid, v |-> AsCopyInput(heap, o.t, o.v, o.b, FALSE)]
                ELSE IF inp.r = "new" THEN [r |-> "new", tid |-> inp.tid, v |-> Norm(heap, TargetType(t, inp.tid), inp.v)]
                ELSE inp

(* position-wise pairing of the references of two values of the same type (used to relate an object and its unpickled twin) *)
RECURSIVE RefPairs(_, _, _)
RefPairs(t, v1, v2) ==
  CASE t.k \in {"sc", "str"} -> {}
    [] t.k = "struct" -> UNION {RefPairs(t.f[i], v1[i], v2[i]) : i \in 1..Len(t.f)}
    [] t.k = "arr" -> IF Len(v1.it) # Len(v2.it) THEN {} ELSE UNION {RefPairs(t.it, v1.it[k], v2.it[k]) : k \in 1..Len(v1.it)}
    [] OTHER -> {<<v1, v2, t>>}

(* every abstract reference denotes a live object of the recorded member type in the holder's own buffer (C08) *)
RECURSIVE RefVals(_, _)
RefVals(t, v) ==
  CASE t.k \in {"sc", "str"} -> {}
    [] t.k = "struct" -> UNION {RefVals(t.f[i], v[i]) : i \in 1..Len(t.f)}
    [] t.k = "arr" -> UNION {RefVals(t.it, v.it[k]) : k \in 1..Len(v.it)}
    [] OTHER -> IF v.null THEN {} ELSE {<<v.at, TargetType(t, v.tid)>>}
RefsResolve(heap) == \A o \in heap : \A r \in RefVals(o.t, o.v) : \E p \in heap : p.b = o.b /\ p.a = r[1] /\ p.t = r[2]
=============================================================================
