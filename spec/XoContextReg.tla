---------------------------- MODULE XoContextReg ----------------------------
(***************************************************************************)
(* The buffer registry of a context (xobjects/context.py: XContext.        *)
(* __init__, new_buffer, _buffers (a weak set), _allocations, buffers,     *)
(* __getstate__/__setstate__; ContextCpu overrides the pickling pair).     *)
(* No listed property covers it (DESIGN.md 7a); see EXTRAS.md.             *)
(*                                                                         *)
(* Two contexts, so that independence can be stated.  Each context is of   *)
(* kind "cpu" (ContextCpu, which has its own __getstate__) or "base" (a    *)
(* context class that inherits XContext.__getstate__, as ContextCupy and   *)
(* ContextPyopencl do).                                                    *)
(*                                                                         *)
(* CONTRACT (what DESIGN.md 7a states: "new_buffer registers weakly,       *)
(* _allocations counts, buffers lists live ones"):                         *)
(*   - every buffer made through the context (new_buffer, or an xobject    *)
(*     created with _context=ctx) is listed while somebody still holds it  *)
(*     and disappears from the list when the last reference is dropped     *)
(*     (the registry never keeps a buffer alive);                          *)
(*   - _allocations counts those creations and never decreases;            *)
(*   - contexts do not influence each other;                               *)
(*   - DOCUMENTED level: pickling a context is an observation - it does    *)
(*     not change the context (PickleIsPure).  As implemented this fails   *)
(*     for kind "base": XContext.__getstate__ deletes _buffers from the    *)
(*     live object's __dict__.  TLC is required to find the counterexample *)
(*     and the replay shows the same on the real code.                     *)
(* AS IMPLEMENTED (docs silent): a buffer constructed directly             *)
(* (BufferNumpy(capacity, context=ctx)) is not registered and not counted. *)
(***************************************************************************)
EXTENDS Integers, Sequences, FiniteSets, TLC, Json

CONSTANTS MaxLen, K1, K2, Wrong, Export
Kinds == <<K1, K2>>
\* K1, K2: kind of context 1, kind of context 2;  Wrong: "" | "strong-registry" | "shared-registry" (vacuity self-tests)

VARIABLES bufs,    \* every buffer ever created: [c, cap, refs, reg]; refs = strong references held by the program (0 = dropped)
          alloc,   \* _allocations per context
          regok,   \* per context: the registry attribute still exists
          hist, trace
vars == <<bufs, alloc, regok, hist, trace>>

Cs == {1, 2}
Caps == {"default", "zero", "small", "object"}     \* new_buffer() / new_buffer(0) / new_buffer(16) / made for an xobject created with _context=ctx
NB == Len(bufs)

(* ctx.buffers as a set of buffer indices *)
ListedIn(bs, c) == {i \in DOMAIN bs : /\ bs[i].reg /\ (bs[i].refs > 0 \/ Wrong = "strong-registry")
                                      /\ (bs[i].c = c \/ Wrong = "shared-registry")}
SetToSeq(S, n) == LET RECURSIVE F(_, _)
                      F(T, k) == IF k > n THEN <<>> ELSE IF k \in T THEN <<k>> \o F(T, k + 1) ELSE F(T, k + 1)
                  IN F(S, 1)
View(bs, al, ok) == [alloc |-> al,
                     listed |-> [c \in Cs |-> IF ok[c] THEN SetToSeq(ListedIn(bs, c), Len(bs)) ELSE <<0>>],      \* <<0>> : ctx.buffers raises AttributeError
                     ok |-> ok]

Init == bufs = <<>> /\ alloc = [c \in Cs |-> 0] /\ regok = [c \in Cs |-> TRUE] /\ hist = <<>> /\ trace = <<>>

Step(cmd, b2, a2, ok2, out, extra, docviol) ==
  /\ bufs' = b2 /\ alloc' = a2 /\ regok' = ok2
  /\ hist' = Append(hist, cmd)
  /\ trace' = Append(trace, [cmd |-> cmd, out |-> out, extra |-> extra, docviol |-> docviol, pre |-> View(bufs, alloc, regok), post |-> View(b2, a2, ok2)])

(* ctx.new_buffer(capacity) / SomeType(..., _context=ctx):  buf = self._make_buffer(); self._buffers.add(buf); self._allocations += 1 *)
New(c, cap) ==
  IF regok[c]
  THEN Step([k |-> "new", c |-> c, x |-> cap, b |-> 0], Append(bufs, [c |-> c, cap |-> cap, refs |-> 1, reg |-> TRUE]),
            [alloc EXCEPT ![c] = @ + 1], regok, "ok", <<>>, FALSE)
  ELSE \* as implemented, after the registry attribute was deleted: the buffer is made, registering it fails, the count is not reached
       Step([k |-> "new", c |-> c, x |-> cap, b |-> 0], bufs, alloc, regok, "AttributeError", <<>>, FALSE)

(* BufferNumpy(capacity=.., context=ctx): as implemented not registered, not counted *)
Direct(c) == Step([k |-> "direct", c |-> c, x |-> "small", b |-> 0], Append(bufs, [c |-> c, cap |-> "small", refs |-> 1, reg |-> FALSE]),
                  alloc, regok, "ok", <<>>, FALSE)

Hold(i) == /\ bufs[i].refs = 1
           /\ Step([k |-> "hold", c |-> bufs[i].c, x |-> "", b |-> i], [bufs EXCEPT ![i].refs = 2], alloc, regok, "ok", <<>>, FALSE)
(* drop one reference; when it was the last one the program also runs gc.collect() *)
Drop(i) == /\ bufs[i].refs > 0
           /\ Step([k |-> "drop", c |-> bufs[i].c, x |-> "", b |-> i], [bufs EXCEPT ![i].refs = @ - 1], alloc, regok, "ok", <<>>, FALSE)

(* clone = pickle.loads(pickle.dumps(ctx)).  The clone starts with an empty registry and the same count (both kinds).            *)
(* kind "cpu":  __getstate__ copies __dict__ first - the context is unchanged.                                                   *)
(* kind "base": state = self.__dict__; del state["_buffers"] - the LIVE object loses its registry (and a second pickling raises   *)
(*              KeyError).  DOCUMENTED level: contradicts PickleIsPure.                                                          *)
Pickle(c) ==
  LET cmd == [k |-> "pickle", c |-> c, x |-> "", b |-> 0] IN
  IF Kinds[c] = "cpu" THEN Step(cmd, bufs, alloc, regok, "ok", <<alloc[c], 0>>, FALSE)
  ELSE IF regok[c] THEN Step(cmd, bufs, alloc, [regok EXCEPT ![c] = FALSE], "ok", <<alloc[c], 0>>, TRUE)
  ELSE Step(cmd, bufs, alloc, regok, "KeyError", <<>>, FALSE)

Next == /\ Len(hist) < MaxLen
        /\ \/ \E c \in Cs, cap \in Caps : (cap = "zero" => c = 1) /\ New(c, cap)
           \/ \E c \in Cs : Direct(c)
           \/ \E i \in DOMAIN bufs : Hold(i) \/ Drop(i)
           \/ \E c \in Cs : Pickle(c)
Spec == Init /\ [][Next]_vars

(* ------------------------------------------------------------------ contract *)
Listed(c) == ListedIn(bufs, c)
Made(c) == Cardinality({i \in DOMAIN trace : trace[i].cmd.k = "new" /\ trace[i].cmd.c = c /\ trace[i].out = "ok"})
(* the registry never keeps a buffer alive, and never lists a buffer of another context or one it did not make *)
NoLeak == \A c \in Cs : \A i \in Listed(c) : bufs[i].refs > 0 /\ bufs[i].c = c /\ bufs[i].reg
(* every buffer the context made and somebody still holds is listed *)
LiveAreListed == \A i \in DOMAIN bufs : (bufs[i].reg /\ bufs[i].refs > 0) => i \in Listed(bufs[i].c)
AllocCounts == \A c \in Cs : alloc[c] = Made(c) /\ Cardinality(Listed(c)) <= alloc[c]
Last == trace[Len(trace)]
AllocMonotone == trace # <<>> => \A c \in Cs : Last.post.alloc[c] >= Last.pre.alloc[c]
Independent == trace # <<>> => \A c \in Cs : c # Last.cmd.c =>
                   (Last.post.alloc[c] = Last.pre.alloc[c] /\ Last.post.listed[c] = Last.pre.listed[c] /\ Last.post.ok[c] = Last.pre.ok[c])
(* DOCUMENTED level, expected to be violated as implemented for kind "base" *)
PickleIsPure == (trace # <<>> /\ Last.cmd.k = "pickle") => Last.post = Last.pre

(* the pre-state of a step is the post-state of the one before: it is not printed *)
Exported == (Export /\ Len(hist) = MaxLen) =>
   PrintT(ToJson([kinds |-> Kinds, trace |-> [x \in DOMAIN trace |-> [cmd |-> trace[x].cmd, out |-> trace[x].out, extra |-> trace[x].extra,
                                                                     docviol |-> trace[x].docviol, post |-> trace[x].post]]]))
=============================================================================
