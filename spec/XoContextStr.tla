---------------------------- MODULE XoContextStr ----------------------------
(***************************************************************************)
(* Context selection (xobjects/context.py: get_context_from_string,        *)
(* get_user_context / XOBJECTS_USER_CONTEXT, get_test_contexts /           *)
(* XOBJECTS_TEST_CONTEXTS) and the part of ContextCpu.__init__ they rely   *)
(* on (omp_num_threads, openmp_enabled, allow_prebuilt_kernels, __str__).  *)
(* No listed property covers it (DESIGN.md 7a); see EXTRAS.md.             *)
(*                                                                         *)
(* TLC has no character-level string operations, so a context string is    *)
(* given in split form: a sequence of ":"-separated parts, each a sequence *)
(* of ","-separated tokens from a finite alphabet; the engine joins them   *)
(* into the real string.  What Python's int() and the "platform.device"    *)
(* split make of a token is a table (IsInt / IntStr / IsDevPair).          *)
(*                                                                         *)
(* Impl(..)  AS IMPLEMENTED: get_context_from_string transcribed branch by *)
(*           branch (the unpacking of split(":"), options.split(","),      *)
(*           option[0] only, int(), what the three constructors do when    *)
(*           the GPU back end is not installed).                           *)
(* Doc(..)   DOCUMENTED: the examples in get_user_context's docstring, the *)
(*           explicit `raise ValueError("Cannot create context ...")` for  *)
(*           unknown names, and the back ends' own statement "<X> is not   *)
(*           installed. Context<X> is not available!" (a name whose back   *)
(*           end is missing never yields a context).  "unspecified"        *)
(*           wherever the code base says nothing.                          *)
(* Every case is exported with both; the engine compares the real call     *)
(* with them.                                                              *)
(***************************************************************************)
EXTENDS Integers, Sequences, FiniteSets, TLC, Json

CONSTANTS Cupy, Opencl,     \* BOOLEAN: the back end is importable (bound by the engine from xobjects.context.available)
          Wrong,            \* "" | "auto-is-error" | "all-options-used" (vacuity self-tests)
          Export

VARIABLES case, res
vars == <<case, res>>

(* ------------------------------------------------------------------ tokens *)
TypeToks == {"ContextCpu", "ContextCupy", "ContextPyopencl", "Foo", "", "contextcpu"}
OptToks == {"", "auto", "0", "4", "-1", " 4", "x", "0.0"}
IsInt(t) == t \in {"0", "4", "-1", " 4"}                         \* int(t) succeeds
IntStr(t) == CASE t = "0" -> "0" [] t = "4" -> "4" [] t = " 4" -> "4" [] t = "-1" -> "-1" [] OTHER -> "?"     \* str(int(t))
IsDevPair(t) == t = "0.0"                                        \* platform, device = map(int, t.split(".")) succeeds
Known == {"ContextCpu", "ContextCupy", "ContextPyopencl"}

(* ------------------------------------------------------------------ results *)
Cpu(omp) == [t |-> "cpu", omp |-> omp, openmp |-> omp # "0", prebuilt |-> omp = "0", usable |-> TRUE,
             str |-> IF omp = "0" THEN "ContextCpu" ELSE "ContextCpu:" \o omp]
Gpu(t, usable) == [t |-> t, omp |-> "", openmp |-> FALSE, prebuilt |-> FALSE, usable |-> usable, str |-> ""]
One(c) == [ctxs |-> <<c>>, err |-> ""]
Err(e) == [ctxs |-> <<>>, err |-> e]

(* ------------------------------------------------------------------ get_context_from_string, as implemented *)
(* inp = [none |-> TRUE] or [none |-> FALSE, parts |-> <<part, ...>>], part = sequence of tokens *)
Impl(inp) ==
  IF inp.none THEN One(Cpu("0"))                                            \* if ctxstr is None: return xo.ContextCpu()
  ELSE LET n == Len(inp.parts) IN
       IF n >= 3 THEN Err("ValueError")                                     \* ctxtype, options = ctxstr.split(":")   (too many values to unpack)
       ELSE LET tname == IF Len(inp.parts[1]) = 1 THEN inp.parts[1][1] ELSE "<name with a comma>"   \* the text before the colon, whole
                option == IF n = 1 THEN <<>> ELSE inp.parts[2]              \* options.split(","): never empty when there is a colon
                o1 == option[1]
            IN CASE tname = "ContextCpu" ->
                      IF option = <<>> THEN One(Cpu("0"))
                      ELSE IF o1 = "auto" /\ Wrong # "auto-is-error" THEN One(Cpu("auto"))
                      ELSE IF Wrong = "all-options-used" /\ Len(option) > 1 THEN Err("ValueError")
                      ELSE IF IsInt(o1) THEN One(Cpu(IntStr(o1))) ELSE Err("ValueError")        \* int(option[0]); further options are ignored
                 [] tname = "ContextCupy" ->
                      IF option = <<>> THEN One(Gpu("cupy", Cupy))          \* ContextCupy() touches cupy only when device is given: without the
                                                                            \* back end an object is returned that fails on first use
                      ELSE IF ~IsInt(o1) THEN Err("ValueError")             \* int(option[0])
                      ELSE IF Cupy THEN One(Gpu("cupy", TRUE)) ELSE Err("NameError")
                 [] tname = "ContextPyopencl" ->
                      IF option = <<>> THEN (IF Opencl THEN One(Gpu("opencl", TRUE)) ELSE Err("NameError"))
                      ELSE IF ~IsDevPair(o1) THEN Err("ValueError")         \* map(int, device.split("."))
                      ELSE IF Opencl THEN One(Gpu("opencl", TRUE)) ELSE Err("NameError")
                 [] OTHER -> Err("ValueError")                              \* raise ValueError(f"Cannot create context from `{ctxstr}`")

(* ------------------------------------------------------------------ get_context_from_string, as documented *)
(* [k |-> "is", r |-> result] | [k |-> "anyerror"] (some exception, no context) | [k |-> "unspecified"] *)
Doc(inp) ==
  IF inp.none THEN [k |-> "is", r |-> One(Cpu("0"))]                        \* "If not present use ContextCpu()"
  ELSE LET n == Len(inp.parts)
           tname == IF Len(inp.parts[1]) = 1 THEN inp.parts[1][1] ELSE "<name with a comma>"
           single == n = 2 /\ Len(inp.parts[2]) = 1
           o1 == inp.parts[2][1]
       IN IF tname \notin Known THEN [k |-> "is", r |-> Err("ValueError")]
          ELSE IF tname = "ContextCpu" /\ n = 1 THEN [k |-> "is", r |-> One(Cpu("0"))]                      \* ContextCpu      -> ContextCpu()
          ELSE IF tname = "ContextCpu" /\ single /\ o1 = "auto" THEN [k |-> "is", r |-> One(Cpu("auto"))]    \* ContextCpu:auto -> omp_num_threads='auto'
          ELSE IF tname = "ContextCpu" /\ single /\ o1 \in {"0", "4", "-1"} THEN [k |-> "is", r |-> One(Cpu(o1))]   \* ContextCpu:2 -> omp_num_threads=2
          ELSE IF tname = "ContextCupy" /\ ~Cupy THEN [k |-> "anyerror"]                                    \* "ContextCupy is not available!"
          ELSE IF tname = "ContextPyopencl" /\ ~Opencl THEN [k |-> "anyerror"]
          ELSE IF tname = "ContextCupy" /\ (n = 1 \/ (single /\ IsInt(o1))) THEN [k |-> "is", r |-> One(Gpu("cupy", TRUE))]
          ELSE IF tname = "ContextPyopencl" /\ (n = 1 \/ (single /\ IsDevPair(o1))) THEN [k |-> "is", r |-> One(Gpu("opencl", TRUE))]
          ELSE [k |-> "unspecified"]

DocAccepts(d, r) == CASE d.k = "is" -> r = d.r [] d.k = "anyerror" -> (r.ctxs = <<>> /\ r.err # "") [] OTHER -> TRUE

(* ------------------------------------------------------------------ get_test_contexts, as implemented (a generator: contexts made before an *)
(* error are delivered)                                                                                                                         *)
Defaults == <<Cpu("0"), Cpu("auto")>> \o (IF Cupy THEN <<Gpu("cupy", TRUE)>> ELSE <<>>) \o (IF Opencl THEN <<Gpu("opencl", TRUE)>> ELSE <<>>)
RECURSIVE TestList(_)
TestList(items) == IF items = <<>> THEN [ctxs |-> <<>>, err |-> ""]
                   ELSE LET r == Impl(items[1]) IN
                        IF r.err # "" THEN r
                        ELSE LET rest == TestList(Tail(items)) IN [ctxs |-> r.ctxs \o rest.ctxs, err |-> rest.err]

(* ------------------------------------------------------------------ the cases *)
Part1s == {<<t>> : t \in TypeToks} \cup {<<t, o>> : t \in TypeToks, o \in {"4", ""}}
Part2s == {<<o>> : o \in OptToks} \cup {<<o, p>> : o \in OptToks, p \in OptToks}
Strs == {<<p1>> : p1 \in Part1s}
        \cup {<<p1, p2>> : p1 \in Part1s, p2 \in Part2s}
        \cup {<<p1, <<o>>, <<q>> >> : p1 \in Part1s, o \in OptToks, q \in {"", "1"}}
In(parts) == [none |-> FALSE, parts |-> parts]
None == [none |-> TRUE, parts |-> <<>>]
TestItems == {<< <<"ContextCpu">> >>, << <<"ContextCpu">>, <<"4">> >>, << <<"ContextCpu">>, <<"auto">> >>, << <<"Foo">> >>, << <<"">> >>,
              << <<"ContextCupy">>, <<"0">> >>}
TestLists == {<<a>> : a \in TestItems} \cup {<<a, b>> : a \in TestItems, b \in TestItems}
             \cup {<<a, b, c>> : a \in TestItems, b \in TestItems, c \in TestItems}

Cases == {[kind |-> "parse", env |-> "arg", items |-> <<None>>]}
         \cup {[kind |-> "parse", env |-> "arg", items |-> <<In(s)>>] : s \in Strs}
         \cup {[kind |-> "user", env |-> "unset", items |-> <<None>>]}
         \cup {[kind |-> "user", env |-> "set", items |-> <<In(s)>>] : s \in {<<p1>> : p1 \in Part1s} \cup {<<p1, <<o>> >> : p1 \in Part1s, o \in OptToks}}
         \cup {[kind |-> "test", env |-> e, items |-> <<>>] : e \in {"unset", "all"}}
         \cup {[kind |-> "test", env |-> "set", items |-> [x \in DOMAIN l |-> In(l[x])]] : l \in TestLists}
         \cup {[kind |-> "ctor", env |-> omp, items |-> <<>>] : omp \in {"default", "0", "4", "-1", "auto"}}

Eval(c) == CASE c.kind \in {"parse", "user"} -> Impl(c.items[1])
             [] c.kind = "test" -> IF c.env = "set" THEN TestList(c.items) ELSE [ctxs |-> Defaults, err |-> ""]
             [] OTHER -> One(Cpu(IF c.env = "default" THEN "0" ELSE c.env))        \* xo.ContextCpu(omp_num_threads=..)
DocOf(c) == IF c.kind \in {"parse", "user"} THEN Doc(c.items[1]) ELSE [k |-> "unspecified"]

Init == /\ case \in Cases
        /\ res = Eval(case)
Next == UNCHANGED vars
Spec == Init /\ [][Next]_vars

(* ------------------------------------------------------------------ invariants of the transcription *)
(* the docstring examples of get_user_context *)
Ex(parts, r) == Impl(In(parts)) = r
DocumentedExamples ==
  /\ Ex(<< <<"ContextCpu">> >>, One(Cpu("0")))
  /\ Ex(<< <<"ContextCpu">>, <<"4">> >>, One(Cpu("4")))
  /\ Ex(<< <<"ContextCpu">>, <<"auto">> >>, One(Cpu("auto")))
  /\ Impl(None) = One(Cpu("0"))
  /\ (Cupy => Ex(<< <<"ContextCupy">>, <<"0">> >>, One(Gpu("cupy", TRUE))))
  /\ (Opencl => Ex(<< <<"ContextPyopencl">>, <<"0.0">> >>, One(Gpu("opencl", TRUE))) /\ Ex(<< <<"ContextPyopencl">> >>, One(Gpu("opencl", TRUE))))
UnknownNameIsValueError == (case.kind \in {"parse", "user"} /\ ~case.items[1].none /\
                            (Len(case.items[1].parts[1]) # 1 \/ case.items[1].parts[1][1] \notin Known)) => res = Err("ValueError")
(* what test_helpers.for_all_test_contexts relies on: str(ctx) names a context that get_context_from_string rebuilds (CPU contexts) *)
StrParts(c) == IF c.omp = "0" THEN << <<"ContextCpu">> >> ELSE << <<"ContextCpu">>, <<c.omp>> >>
CpuStrRoundTrip == \A i \in DOMAIN res.ctxs : res.ctxs[i].t = "cpu" => Impl(In(StrParts(res.ctxs[i]))) = One(res.ctxs[i])
(* threads are requested only by an explicit option; serial contexts (and only they) may use prebuilt kernels *)
SerialIffNoThreads == \A i \in DOMAIN res.ctxs : res.ctxs[i].t = "cpu" => (res.ctxs[i].prebuilt <=> ~res.ctxs[i].openmp) /\ (res.ctxs[i].openmp <=> res.ctxs[i].omp # "0")
OneOrError == case.kind \in {"parse", "user", "ctor"} => (Len(res.ctxs) = 1 /\ res.err = "") \/ (res.ctxs = <<>> /\ res.err # "")
(* DOCUMENTED level: expected to be violated as implemented when a GPU back end is missing ("ContextCupy" without options) *)
ImplMeetsDoc == DocAccepts(DocOf(case), res)

Exported == Export => PrintT(ToJson([case |-> case, res |-> res, doc |-> DocOf(case), docviol |-> ~DocAccepts(DocOf(case), res)]))
=============================================================================
