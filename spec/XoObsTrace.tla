----------------------------- MODULE XoObsTrace -----------------------------
(***************************************************************************)
(* The objects the repository's OWN tests construct (recorded by            *)
(* vlib/observe_plugin.py while the unedited test-suite runs) checked       *)
(* against the documented format: every object is well formed, its stored   *)
(* size is the size it reports, and the decoder written from the            *)
(* documentation recovers the value the library itself reads back.          *)
(* This guards against the specification and the harness sharing a          *)
(* misreading: these objects and their expected behaviour are the           *)
(* maintainers'.                                                            *)
(***************************************************************************)
EXTENDS XoHeap, Json, IOUtils, TLCExt
Recs == JsonDeserialize(IOEnv.TRACE_FILE)
VARIABLES tid, done
Verdict(r) ==
  LET wf == WF(r.t, r.mem, r.a) IN
  IF wf # "" THEN wf
  ELSE IF SizeAt(r.t, r.mem, r.a) # r.size THEN "size:reported-size"
  ELSE LET d == Decode(r.t, r.mem, r.a) IN
       IF Mask(r.t, d) # Mask(r.t, r.v) THEN "decode:value@" \o Where(r.t, Mask(r.t, r.v), Mask(r.t, d))
       ELSE IF d # r.v THEN "ref:word" ELSE ""
Init == tid \in 1..Len(Recs) /\ done = FALSE
Next == ~done /\ PrintT(<<"VERDICT", tid, Verdict(Recs[tid])>>) /\ done' = TRUE /\ UNCHANGED tid
Spec == Init /\ [][Next]_<<tid, done>>
=============================================================================
