------------------------------- MODULE XoCapi -------------------------------
(***************************************************************************)
(* Implementation-shaped model of the generator of the C accessor API      *)
(* (xobjects/capi.py: gen_method_offset, Field_get_c_offset,               *)
(* Ref_get_c_offset, Index_get_c_offset).                                  *)
(*                                                                         *)
(* The generator turns an access path (field / item / dereference steps)   *)
(* of a class into a STRAIGHT-LINE PROGRAM over one accumulator `offset`:  *)
(*     add K        offset += K                (constant parts are summed  *)
(*                                              and flushed before every   *)
(*                                              step that reads memory)    *)
(*     ld  K        offset += load64(obj + offset + K)                     *)
(*                                             (2nd.. dynamic field, Ref)  *)
(*     sv  K, j     s_j = load64(obj + offset + K)      (stored stride j)  *)
(*     ix  D, st    offset += D + SUM i_k * s_k          (static items)    *)
(*     lx  D, st    offset += load64(obj + offset + D + SUM i_k * s_k)     *)
(*                                             (item-offset table lookup)  *)
(* st is a sequence of <<index variable number, stride>>; stride >= 0 is a *)
(* constant, -(j) refers to the loaded s_(j-1).  `as = 1` makes a step an  *)
(* ASSIGNMENT (offset = ...) instead of an increment: that is the form the *)
(* pinned tree emitted for arrays of dynamically sized items (repaired by  *)
(* fix 1626a7d); GenMode = "assign" reproduces it and TLC must reject it   *)
(* (vacuity self-test).                                                    *)
(*                                                                         *)
(* Gen(t, path, acc, ic) is the program the generator emits ("as           *)
(* implemented"), Run executes a program on an image.  Refinement, checked *)
(* by TLC over a bounded type grammar (MC_XoCapi):                         *)
(*     Run(Gen(T, p), mem, indices of p).off = Nav(T, mem, 0, p).a         *)
(* for every path p with every in-range index tuple of every image the     *)
(* documented format prescribes (XoEncode), i.e. the generator's design    *)
(* refines the address function of the format (property C02).  The same    *)
(* Run is used to execute the programs PARSED FROM THE TREE'S REAL OUTPUT  *)
(* (XoCapiProg) - code -> spec - and Gen is compared with them             *)
(* instruction by instruction - spec -> code.                              *)
(***************************************************************************)
EXTENDS XoEncode, SequencesExt

CONSTANT GenMode      \* "asis" | "assign" (deliberately wrong: see above)

Op(o, k, st, as) == [op |-> o, k |-> k, st |-> st, as |-> as]
Flush(acc) == IF acc > 0 THEN <<Op("add", acc, <<>>, 0)>> ELSE <<>>

(* Index_get_c_offset for an array class t whose first index variable is i_ic *)
IndexOps(t, ic) ==
  LET nd == Len(t.sh)
      dyn == StoresStrides(t)                                   \* the class has no _strides: they are read from the header
      loads == IF dyn THEN [ii \in 1..nd |-> Op("sv", 8 + 8 * NDyn(t) + 8 * (ii - 1), <<<<ii - 1, 0>>>>, 0)] ELSE <<>>
      cst == IF dyn THEN <<>> ELSE IF NDyn(t) > 0 THEN <<ItemW(t)>> ELSE Strides(t, t.sh, ItemW(t))
      st == [ii \in 1..nd |-> <<ic + ii - 1, IF dyn THEN 0 - ii ELSE cst[ii]>>]
  IN loads \o <<Op(IF IsStatic(t.it) THEN "ix" ELSE "lx", DataOff(t), st,
                   IF GenMode = "assign" /\ ~IsStatic(t.it) THEN 1 ELSE 0)>>

(* gen_method_offset: constant parts accumulate in acc, every memory-reading step flushes them first *)
RECURSIVE Gen(_, _, _, _)
Gen(t, path, acc, ic) ==
  IF path = <<>> THEN Flush(acc)
  ELSE LET s == Head(path) IN
       IF IsF(s) THEN
            IF Indirect(t, s.f) THEN Flush(acc) \o <<Op("ld", FieldPos(t, s.f), <<>>, 0)>> \o Gen(t.f[s.f], Tail(path), 0, ic)
            ELSE Gen(t.f[s.f], Tail(path), acc + FieldPos(t, s.f), ic)
       ELSE IF IsI(s) THEN Flush(acc) \o IndexOps(t, ic) \o Gen(t.it, Tail(path), 0, ic + Len(t.sh))
       ELSE Flush(acc) \o <<Op("ld", 0, <<>>, 0)>> \o Gen(t.to, Tail(path), 0, ic)

(* ---------------------------------- execution ---------------------------------- *)
StrideOf(e, sv) == IF e[2] >= 0 THEN e[2] ELSE sv[0 - e[2] - 1]
Lin(o, sv, idx) == LET RECURSIVE S(_)
                       S(n) == IF n = 0 THEN 0 ELSE S(n - 1) + idx[o.st[n][1] + 1] * StrideOf(o.st[n], sv)
                   IN o.k + S(Len(o.st))
Base(s, o) == IF o.as = 1 THEN 0 ELSE s.off
Step(s, o, mem, idx) ==
  CASE o.op = "add" -> [s EXCEPT !.off = Base(s, o) + o.k]
    [] o.op = "ld" -> [s EXCEPT !.off = Base(s, o) + I64(mem, s.off + o.k)]
    [] o.op = "sv" -> [s EXCEPT !.sv = (o.st[1][1] :> I64(mem, s.off + o.k)) @@ @]
    [] o.op = "ix" -> [s EXCEPT !.off = Base(s, o) + Lin(o, s.sv, idx)]
    [] o.op = "lx" -> [s EXCEPT !.off = Base(s, o) + I64(mem, s.off + Lin(o, s.sv, idx))]
RECURSIVE RunFrom(_, _, _, _)
RunFrom(s, prog, mem, idx) == IF prog = <<>> THEN s ELSE RunFrom(Step(s, Head(prog), mem, idx), Tail(prog), mem, idx)
Run(prog, mem, a, idx) == RunFrom([off |-> a, sv |-> <<>>], prog, mem, idx).off
(* does the program refer to an index variable the path does not bind, or to a stride it never loaded? (never the case for Gen) *)
WellScoped(prog, nidx) ==
  \A n \in 1..Len(prog) : prog[n].op \in {"ix", "lx"} =>
      \A m \in 1..Len(prog[n].st) :
          /\ prog[n].st[m][1] \in 0..(nidx - 1)
          /\ prog[n].st[m][2] < 0 => \E q \in 1..(n - 1) : prog[q].op = "sv" /\ prog[q].st[1][1] = 0 - prog[n].st[m][2] - 1

(* ---------------------------- paths of an image / of a type ---------------------------- *)
RECURSIVE AllPaths(_, _, _)
AllPaths(t, mem, a) ==       \* every path with every in-range index tuple, through non-null plain references
  {<<>>} \cup
  CASE t.k = "struct" -> UNION {{<<[f |-> i]>> \o p : p \in AllPaths(t.f[i], mem, FieldAddr(t, i, mem, a))} : i \in 1..Len(t.f)}
    [] t.k = "arr" -> LET sh == Shape(t, mem, a)
                      IN UNION {{<<[i |-> IdxOf(k, sh)]>> \o p : p \in AllPaths(t.it, mem, ItemAddr(t, mem, a, IdxOf(k, sh)))} : k \in 1..NItems(sh)}
    [] t.k = "ref" -> IF IsNull(mem, a) THEN {} ELSE {<<[d |-> 1]>> \o p : p \in AllPaths(t.to, mem, a + I64(mem, a))}
    [] OTHER -> {}
RECURSIVE TypePaths(_)
TypePaths(t) ==              \* the generator's paths: index steps carry the rank only (all-zero tuple)
  {<<>>} \cup
  CASE t.k = "struct" -> UNION {{<<[f |-> i]>> \o p : p \in TypePaths(t.f[i])} : i \in 1..Len(t.f)}
    [] t.k = "arr" -> {<<[i |-> [n \in 1..Len(t.sh) |-> 0]]>> \o p : p \in TypePaths(t.it)}
    [] t.k = "ref" -> {<<[d |-> 1]>> \o p : p \in TypePaths(t.to)}
    [] OTHER -> {}
RECURSIVE Idxs(_)
Idxs(p) == IF p = <<>> THEN <<>> ELSE (IF IsI(Head(p)) THEN Head(p).i ELSE <<>>) \o Idxs(Tail(p))
Shape0(p) == [n \in 1..Len(p) |-> IF IsI(p[n]) THEN [i |-> [m \in 1..Len(p[n].i) |-> 0]] ELSE p[n]]    \* the type path of a concrete path

(* ------------------------ canonical images with referents attached ------------------------ *)
RECURSIVE Canon(_, _, _)
Canon(ty, ext, s) ==         \* all dynamic dimensions get extent ext; every leaf a value of its own
  CASE ty.k = "sc" -> [i \in 1..ty.w |-> ((s * 31 + i * 7) % 255) + 1]
    [] ty.k = "str" -> [i \in 1..((s % 3) * 4 + (s % 2)) |-> 65 + ((s + i) % 26)]
    [] ty.k = "struct" -> [i \in 1..Len(ty.f) |-> Canon(ty.f[i], ext, s * 3 + i)]
    [] ty.k = "arr" -> LET sh == [i \in 1..Len(ty.sh) |-> IF ty.sh[i] < 0 THEN ext ELSE ty.sh[i]]
                       IN [sh |-> sh, it |-> [k \in 1..NItems(sh) |-> Canon(ty.it, ext, s * 5 + k)]]
    [] OTHER -> NullRef
(* attach one referent behind the image for every plain reference word and point the word at it *)
RECURSIVE Attach(_, _, _)
Attach(mem, slots, n) ==
  IF slots = <<>> THEN mem
  ELSE LET a == Head(slots)[1]
           rt == Head(slots)[2]
           tid == IF rt.k = "ref" THEN 0 ELSE n % Len(rt.of)        \* union references: the members in turn
           tt == TargetType(rt, tid)
           padded == PadTo(mem, Slot(Len(mem)) + 8 * (n % 2))       \* referents at varying distances
           at == Len(padded)
           words == W64(at - a) \o (IF rt.k = "uref" THEN W64(tid) ELSE <<>>)
           patched == SubSeq(padded, 1, a) \o words \o SubSeq(padded, a + Len(words) + 1, Len(padded))
       IN Attach(patched \o Encode(tt, Canon(tt, 1, 7 + n)), Tail(slots), n + 1)
(* every plain reference and every second union reference gets a referent (the other union references stay null) *)
Image(ty, ext) == LET enc == Encode(ty, Canon(ty, ext, 1))
                      rs == SetToSeq({s \in RefSlots(ty, enc, 0) : s[2].k = "ref"})
                      us == SetToSeq({s \in RefSlots(ty, enc, 0) : s[2].k = "uref"})
                  IN Attach(enc, rs \o SelectSeq(us, LAMBDA s : (s[1] \div 8) % 2 = 0), 0)

(* ---------------------- the accessors built on the offset program ---------------------- *)
(* one record per generated function: [p, kind, ops, c, w]                                   *)
(*   getp    returns obj + offset                                                            *)
(*   get/set read / write a scalar of c bytes at obj + offset                                *)
(*   len     c * product of the header words w (8-byte words after obj + offset); a static   *)
(*           shape has no offset program at all (ops = <<>>, the constant is returned)       *)
(*   typeid  the word at obj + offset, the program ends with `add 8` (member index)          *)
(*   member  returns obj + offset, the program ends with `ld 0` (address of the referent)    *)
RECURSIVE EndType(_, _)
EndType(t, p) == IF p = <<>> THEN t
                 ELSE IF IsF(Head(p)) THEN EndType(t.f[Head(p).f], Tail(p))
                 ELSE IF IsI(Head(p)) THEN EndType(t.it, Tail(p)) ELSE EndType(t.to, Tail(p))
Acc(p, kind, ops, c, w) == [p |-> p, kind |-> kind, ops |-> ops, c |-> c, w |-> w]
StaticFactor(t) == LET RECURSIVE F(_)
                       F(n) == IF n = 0 THEN 1 ELSE F(n - 1) * (IF t.sh[n] < 0 THEN 1 ELSE t.sh[n])
                   IN F(Len(t.sh))
AccOf(t, p) ==
  LET et == EndType(t, p)
      g == Gen(t, p, 0, 0)
  IN (IF et.k \in {"sc", "str", "struct", "arr", "uref"} THEN {Acc(p, "getp", g, 0, <<>>)} ELSE {})
     \cup (IF et.k = "sc" THEN {Acc(p, "get", g, et.w, <<>>), Acc(p, "set", g, et.w, <<>>)} ELSE {})
     \cup (IF et.k = "arr" THEN {IF NDyn(et) = 0 THEN Acc(p, "len", <<>>, StaticFactor(et), <<>>)
                                  ELSE Acc(p, "len", g, StaticFactor(et), [n \in 1..NDyn(et) |-> n])} ELSE {})
     \cup (IF et.k = "uref" THEN {Acc(p, "typeid", g \o <<Op("add", 8, <<>>, 0)>>, 0, <<>>),
                                   Acc(p, "member", g \o <<Op("ld", 0, <<>>, 0)>>, 0, <<>>)} ELSE {})
AccResult(e, mem, a, idx) ==
  LET off == Run(e.ops, mem, a, idx)
      RECURSIVE PW(_)
      PW(n) == IF n = 0 THEN 1 ELSE PW(n - 1) * I64(mem, off + 8 * e.w[n])
  IN CASE e.kind = "getp" -> off
       [] e.kind \in {"get", "set"} -> <<off, e.c>>
       [] e.kind = "len" -> e.c * PW(Len(e.w))
       [] e.kind = "typeid" -> I64(mem, off)
       [] e.kind = "member" -> off
AccExpected(kind, nv, mem) ==
  CASE kind = "getp" -> nv.a
    [] kind \in {"get", "set"} -> <<nv.a, nv.t.w>>
    [] kind = "len" -> NItems(Shape(nv.t, mem, nv.a))
    [] kind = "typeid" -> Decode(nv.t, mem, nv.a).tid
    [] kind = "member" -> Decode(nv.t, mem, nv.a).at
(* the member address of a NULL union reference is not defined: such (path, kind) pairs are not claimed *)
Claimed(kind, nv, mem) == kind = "member" => ~IsNull(mem, nv.a)
AccRefines(t, mem, a) ==
  \A p \in AllPaths(t, mem, a) : \A e \in AccOf(t, Shape0(p)) :
      Claimed(e.kind, Nav(t, mem, a, p), mem) => AccResult(e, mem, a, Idxs(p)) = AccExpected(e.kind, Nav(t, mem, a, p), mem)
(* a GIVEN accessor table (parsed from real source) against the format: the (path, kind) pairs that disagree *)
AccDisagree(t, mem, a, table) ==
  {<<p, e.kind>> : p \in AllPaths(t, mem, a), e \in table} \cap
  {x \in AllPaths(t, mem, a) \X {"getp", "get", "set", "len", "typeid", "member"} :
      \E e \in table : e.p = Shape0(x[1]) /\ e.kind = x[2] /\ Claimed(e.kind, Nav(t, mem, a, x[1]), mem) /\ AccResult(e, mem, a, Idxs(x[1])) # AccExpected(e.kind, Nav(t, mem, a, x[1]), mem)}

(* the refinement statement for one image *)
Refines(t, mem, a) == \A p \in AllPaths(t, mem, a) : Run(Gen(t, p, 0, 0), mem, a, Idxs(p)) = Nav(t, mem, a, p).a
(* first path on which a GIVEN program table (type path -> program) disagrees with the format; <<>> wrapped in a record *)
Disagree(t, mem, a, table) ==
  {p \in AllPaths(t, mem, a) : \E e \in table : e.p = Shape0(p) /\ Run(e.ops, mem, a, Idxs(p)) # Nav(t, mem, a, p).a}
=============================================================================
