--------------------------- MODULE XoSpecializeGen ---------------------------
(* Exports every complete well-formed source of the bounded instance as one JSON line:   *)
(* the source, the loop variable every line's text refers to, and per target the         *)
(* contract's classification of every statement and the implementation-shaped Rewrite.   *)
EXTENDS XoSpecialize, Json

SeqOfSet(S) == SetToSeq(S)
LineOut(ln) == IF ln.k \in {"only"} THEN [k |-> ln.k, c |-> SeqOfSet(ln.c)]
               ELSE IF ln.k = "inc" THEN [k |-> ln.k, f |-> ln.f, c |-> SeqOfSet(ln.c)]
               ELSE IF ln.k = "vec" THEN [k |-> ln.k, h |-> ln.h]
               ELSE [k |-> ln.k]
Rec(s) ==
  LET u == USplice(s) IN
  [src  |-> [p \in 1..Len(s) |-> LineOut(s[p])],
   (* per top-level line: the variable of the block that encloses it (for a vec line: its own id) *)
   encl |-> [p \in 1..Len(s) |-> LET i == CHOOSE i \in 1..Len(u) : u[i].id \div 10 = p IN Encl(u, i)],
   stm  |-> SeqOfSet({<<id, VarOf(s, id)>> : id \in StmtIds(s)}),
   tg   |-> [t \in Targets |->
               [cls |-> SeqOfSet({<<id, ClassOf(s, t, id)>> : id \in StmtIds(s)}),
                rw  |-> Rewrite(s, t),
                q   |-> [kern |-> SeqOfSet(Quals(t).kern), fun |-> SeqOfSet(Quals(t).fun),
                         mem |-> SeqOfSet(Quals(t).mem), restr |-> SeqOfSet(Quals(t).restr)]]]]
Emit(s) == (Complete(s) /\ WellFormed(s)) => PrintT(ToJson(Rec(s)))
GInit == Init /\ (Part = 0 => Emit(<<>>))
GNext == Next /\ Emit(src')
GSpec == GInit /\ [][GNext]_src
=============================================================================
