------------------------------- MODULE XoSort -------------------------------
(***************************************************************************)
(* Property C14: "every class API is emitted once, after all of its        *)
(* dependencies" - xobjects/context.py: sort_classes + topological_sort.   *)
(*                                                                         *)
(* PART 1, CONTRACT (constant-level operators, no state): what any         *)
(*   implementation of "order the classes for code generation" owes its    *)
(*   caller.  Used for the verdict on real results (XoSortTrace.tla) and   *)
(*   as the invariant of PART 2.                                           *)
(* PART 2, IMPLEMENTATION-SHAPED MODEL: sort_classes and topological_sort  *)
(*   transliterated statement by statement (one action per loop head /     *)
(*   loop body), with Python's insertion-ordered dicts, the class list     *)
(*   that grows while it is iterated, the name map with last-wins, the     *)
(*   duplicate dependency entries, the two seeding comprehensions, the     *)
(*   parent-count decrement, the cycle flag and the final filter.          *)
(*   TLC checks   implementation model => contract   over ALL dependency   *)
(*   graphs on <= N classes x API flags x root lists.                      *)
(*                                                                         *)
(* NOTE ON THE FIX.  The constant Fixed selects the second seeding         *)
(* comprehension of topological_sort:                                      *)
(*   Fixed = FALSE  the pinned tree:  [item for item in graph              *)
(*                  if num_parents[item] == 0]                              *)
(*                  - a class without dependencies that something depends  *)
(*                  on is seeded by BOTH comprehensions and comes out      *)
(*                  twice; TLC finds deps = (1 :> <<>> @@ 2 :> <<1>>),     *)
(*                  roots = <<2>>, api[1]  =>  result <<1, 1, 2>>.         *)
(*   Fixed = TRUE   the code AS IT WILL BE AFTER the proposed fix          *)
(*                  (/tmp/eng-c14_fix_1.diff):  [item for item in graph    *)
(*                  if item not in source].  The checks run with it; the   *)
(*                  engine also runs Fixed = FALSE once per check and      *)
(*                  requires TLC to find the counterexample (vacuity).     *)
(***************************************************************************)
EXTENDS Integers, Sequences, FiniteSets, TLC

(***************************************************************************)
(* PART 1.  CONTRACT                                                       *)
(*   D  : class -> sequence of the classes it names as dependencies, ALL   *)
(*        edge kinds together (struct fields, array item type, Ref target, *)
(*        UnionRef members, _depends_on), duplicates allowed               *)
(*   A  : class -> BOOLEAN, "has a C API to emit" (_gen_c_api)             *)
(*   R  : the root list handed in by the caller (any order, repeats)       *)
(*   o  : the outcome, [k |-> "ok", res |-> sequence of classes] or        *)
(*        [k |-> "error", ...]                                              *)
(***************************************************************************)
DepKinds == {"field", "item", "ref", "member", "declared"}

Range(s) == {s[x] : x \in DOMAIN s}
Direct(D, c) == Range(D[c])

RECURSIVE ClosureOf(_, _)
ClosureOf(D, S) == LET T == S \cup UNION {Direct(D, c) : c \in S}
                   IN IF T = S THEN S ELSE ClosureOf(D, T)

Needed(D, R) == ClosureOf(D, Range(R))          \* the roots and everything they depend on, transitively
Below(D, c) == ClosureOf(D, Direct(D, c))       \* everything c depends on (contains c iff c lies on a cycle)
Cyclic(D, R) == \E c \in Needed(D, R) : c \in Below(D, c)
Wanted(D, A, R) == {c \in Needed(D, R) : A[c]}  \* the APIs that have to be emitted

NoDup(s) == \A x, y \in DOMAIN s : x # y => s[x] # s[y]
Before(s, x) == {s[y] : y \in 1..(x - 1)}
Ordered(D, A, s) == \A x \in DOMAIN s : \A d \in Below(D, s[x]) : A[d] => d \in Before(s, x)

Valid(D, A, R, res) == /\ NoDup(res)                        \* emitted once
                       /\ Range(res) = Wanted(D, A, R)      \* exactly the closure, API-bearing classes only
                       /\ Ordered(D, A, res)                \* after all of its dependencies

Meets(D, A, R, o) == IF Cyclic(D, R) THEN o.k # "ok"        \* cycles are reported, no source
                     ELSE o.k = "ok" /\ Valid(D, A, R, o.res)

(* the same, naming the first clause that fails ("" = holds) and a class that witnesses it (0 = none) *)
Clause(D, A, R, o) ==
  IF Cyclic(D, R) THEN (IF o.k = "ok" THEN "cycle-not-reported" ELSE "")
  ELSE IF o.k # "ok" THEN "error-on-acyclic-graph"
  ELSE IF ~NoDup(o.res) THEN "duplicate"
  ELSE IF \E c \in Wanted(D, A, R) : c \notin Range(o.res) THEN "missing"
  ELSE IF \E c \in Range(o.res) : c \notin Wanted(D, A, R) THEN "extra"
  ELSE IF ~Ordered(D, A, o.res) THEN "order"
  ELSE ""
Witness(D, A, R, o) ==
  LET cl == Clause(D, A, R, o) IN
  CASE cl = "cycle-not-reported" -> CHOOSE c \in Needed(D, R) : c \in Below(D, c)
    [] cl = "duplicate" -> o.res[CHOOSE x \in DOMAIN o.res : \E y \in DOMAIN o.res : x # y /\ o.res[x] = o.res[y]]
    [] cl = "missing" -> CHOOSE c \in Wanted(D, A, R) : c \notin Range(o.res)
    [] cl = "extra" -> CHOOSE c \in Range(o.res) : c \notin Wanted(D, A, R)
    [] cl = "order" -> o.res[CHOOSE x \in DOMAIN o.res : \E d \in Below(D, o.res[x]) : A[d] /\ d \notin Before(o.res, x)]
    [] OTHER -> 0

(***************************************************************************)
(* PART 2.  IMPLEMENTATION-SHAPED MODEL                                    *)
(***************************************************************************)
CONSTANTS N,          \* classes are 1..N
          MaxDeps,    \* longest dependency list of one class
          DepMode,    \* "lists": any sequence (duplicates = two fields of one type, field + _depends_on);
                      \* "nodup": duplicate-free sequences;  "sets": increasing sequences only
          SelfDeps,   \* TRUE: a class may name itself (only reachable by mutating _depends_on/_reftypes; a cycle)
          MaxRoots,   \* longest root list
          DupRoots,   \* TRUE: the caller may pass a class twice (kernel argument + extra_classes)
          ApiAll,     \* TRUE: only cases where every class in reach has an API (keeps configurations with long lists small)
          Shape,      \* "any", or only "acyclic" / only "cyclic" (a cycle in reach of the roots) graphs: most graphs are cyclic,
                      \* the configurations spend their budget separately on the two halves of the contract
          SplitModes, \* subset of {"inner","decl","half"}: which part of a dependency list comes from _get_inner_types()
                      \* and which from _depends_on (the code concatenates them; the split cannot change the result)
          Fixed,      \* see NOTE ON THE FIX
          NParts, Part   \* the initial states are partitioned over NParts independent TLC processes

VARIABLES case,   \* the input: never changes
          st      \* the interpreter state of sort_classes / topological_sort

vars == <<case, st>>
Classes == 1..N
Name(c) == c      \* cls.__name__; sort_classes identifies classes by name, names are unique in the enumerated cases

(* ---- Python's insertion-ordered dict: key sequence + value function ---- *)
DEmpty == [keys |-> <<>>, val |-> <<>>]
DHas(d, key) == key \in DOMAIN d.val
DGet(d, key, dflt) == IF DHas(d, key) THEN d.val[key] ELSE dflt
DSet(d, key, v) == [keys |-> IF DHas(d, key) THEN d.keys ELSE Append(d.keys, key),
                    val  |-> [x \in (DOMAIN d.val) \cup {key} |-> IF x = key THEN v ELSE d.val[x]]]
DDel(d, key) == [keys |-> SelectSeq(d.keys, LAMBDA x : x # key),
                 val  |-> [x \in (DOMAIN d.val) \ {key} |-> d.val[x]]]

(* {cls.__name__: cls for cls in classes}: the LAST class of a name wins *)
LastWins(s) == [nm \in {Name(s[x]) : x \in DOMAIN s} |->
                  s[CHOOSE x \in DOMAIN s : Name(s[x]) = nm /\ \A y \in DOMAIN s : Name(s[y]) = nm => y <= x]]

(* ---- enumeration of the inputs ---- *)
DepLists(c) == {s \in UNION {[1..len -> Classes] : len \in 0..MaxDeps} :
                  /\ SelfDeps \/ c \notin Range(s)
                  /\ DepMode = "nodup" => NoDup(s)
                  /\ DepMode = "sets" => \A x, y \in DOMAIN s : x < y => s[x] < s[y]}
(* root lists up to renaming of classes: first occurrences are 1, 2, 3, ... in this order *)
RootLists == {s \in UNION {[1..len -> Classes] : len \in 1..MaxRoots} :
                /\ DupRoots \/ NoDup(s)
                /\ \A x \in DOMAIN s : s[x] <= 1 + Cardinality(Before(s, x))}

SumSeq(s) == LET RECURSIVE Sm(_)
                 Sm(x) == IF x = 0 THEN 0 ELSE x * s[x] + Sm(x - 1)
             IN Sm(Len(s))
PartOf(d) == LET RECURSIVE Pc(_)
                 Pc(c) == IF c = 0 THEN 0 ELSE (c + 1) * SumSeq(d[c]) + Len(d[c]) + Pc(c - 1)
             IN Pc(N) % NParts
WholeAcyclic(d) == \A c \in Classes : c \notin Below(d, c)

St0 == [pc |-> "start", classes |-> <<>>, cbn |-> <<>>, deps |-> DEmpty, i |-> 0, cdeps |-> <<>>, j |-> 0,
        names |-> <<>>, graph |-> DEmpty, np |-> <<>>, k |-> 0, m |-> 0, result |-> <<>>, ri |-> 0, ci |-> 0,
        cyc |-> FALSE, out |-> [k |-> "none", res |-> <<>>]]

(* one bound variable per class (N <= 4) so that TLC enumerates the graphs without building the function set *)
ASSUME N \in 1..4
DL(c) == IF c <= N THEN DepLists(c) ELSE {<<>>}
Init ==
  /\ \E d1 \in DL(1) : \E d2 \in DL(2) : \E d3 \in DL(3) : \E d4 \in DL(4) :
     LET d == [c \in Classes |-> <<d1, d2, d3, d4>>[c]] IN
     /\ PartOf(d) = Part
     /\ (CASE Shape = "acyclic" -> WholeAcyclic(d) [] Shape = "cyclic" -> ~WholeAcyclic(d) [] OTHER -> TRUE) = TRUE   \* "= TRUE": evaluate, do not
     /\ \E r \in RootLists : \E a \in [Classes -> BOOLEAN] : \E sm \in SplitModes :
        /\ (IF Shape = "cyclic" THEN Cyclic(d, r) ELSE TRUE) = TRUE                                                    \* branch on the witnesses
        /\ \A c \in Classes \ Needed(d, r) : d[c] = <<>> /\ ~a[c]     \* classes out of reach are not part of the case
        /\ IF ApiAll THEN \A c \in Needed(d, r) : a[c] ELSE TRUE
        /\ LET plain(c) == ~a[c] /\ d[c] = <<>>         \* a scalar: neither _get_inner_types nor _depends_on
           IN case = [deps |-> d, api |-> a, roots |-> r, sm |-> sm,
                      nin |-> [c \in Classes |-> CASE sm = "inner" -> Len(d[c]) [] sm = "decl" -> 0
                                                   [] OTHER -> (Len(d[c]) + 1) \div 2],
                      hasInner |-> [c \in Classes |-> sm # "decl" /\ ~plain(c)],
                      hasDecl  |-> [c \in Classes |-> sm # "inner" /\ ~plain(c)]]
  /\ st = St0

InnerTypes(c) == IF case.hasInner[c] THEN SubSeq(case.deps[c], 1, case.nin[c]) ELSE <<>>
Declared(c) == IF case.hasDecl[c] THEN SubSeq(case.deps[c], case.nin[c] + 1, Len(case.deps[c])) ELSE <<>>

(* ------------------------------ sort_classes ------------------------------ *)
(* class_by_name = {cls.__name__: cls for cls in classes}; deps = {} *)
Start ==
  /\ st.pc = "start"
  /\ st' = [st EXCEPT !.pc = "for_cls", !.classes = case.roots, !.cbn = LastWins(case.roots), !.deps = DEmpty, !.i = 1]

(* for cls in classes:   (the list may have grown since the last visit) *)
ForCls ==
  /\ st.pc = "for_cls"
  /\ IF st.i > Len(st.classes)
     THEN st' = [st EXCEPT !.pc = "ts_child", !.graph = DEmpty, !.np = [c \in Classes |-> 0], !.k = 1]   \* topological_sort(deps)
     ELSE LET cls == st.classes[st.i] IN
          st' = [st EXCEPT !.pc = "for_dep", !.cdeps = InnerTypes(cls) \o Declared(cls), !.names = <<>>, !.j = 1]

(* for local_dep in cls_deps: register unseen names (appends to the list being iterated), collect names *)
ForDep ==
  /\ st.pc = "for_dep"
  /\ IF st.j > Len(st.cdeps)
     THEN st' = [st EXCEPT !.pc = "for_cls", !.deps = DSet(st.deps, Name(st.classes[st.i]), st.names), !.i = st.i + 1]
     ELSE LET dd == st.cdeps[st.j]
              new == Name(dd) \notin DOMAIN st.cbn
          IN st' = [st EXCEPT !.cbn = IF new THEN [x \in (DOMAIN st.cbn) \cup {Name(dd)} |-> IF x = Name(dd) THEN dd ELSE st.cbn[x]] ELSE @,
                              !.classes = IF new THEN Append(@, dd) ELSE @,
                              !.names = Append(@, Name(dd)),
                              !.j = @ + 1]

(* ---------------------------- topological_sort ---------------------------- *)
(* for child, parents in source.items(): *)
TsChild ==
  /\ st.pc = "ts_child"
  /\ IF st.k > Len(st.deps.keys) THEN st' = [st EXCEPT !.pc = "seed_a"]
     ELSE st' = [st EXCEPT !.pc = "ts_parent", !.m = 1]

(*     for parent in parents: graph.setdefault(parent, []).append(child); num_parents[child] += 1 *)
TsParent ==
  /\ st.pc = "ts_parent"
  /\ LET child == st.deps.keys[st.k]
         parents == st.deps.val[child]
     IN IF st.m > Len(parents) THEN st' = [st EXCEPT !.pc = "ts_child", !.k = @ + 1]
        ELSE LET p == parents[st.m] IN
             st' = [st EXCEPT !.graph = DSet(st.graph, p, Append(DGet(st.graph, p, <<>>), child)),
                              !.np[child] = @ + 1, !.m = @ + 1]

(* result = [child for child, parents in source.items() if len(parents) == 0] *)
SeedA ==
  /\ st.pc = "seed_a"
  /\ st' = [st EXCEPT !.pc = "seed_b", !.result = SelectSeq(st.deps.keys, LAMBDA c : Len(st.deps.val[c]) = 0)]

(* pinned tree:  result.extend([item for item in graph if num_parents[item] == 0])
   after the fix: result.extend([item for item in graph if item not in source])       *)
SeedB ==
  /\ st.pc = "seed_b"
  /\ st' = [st EXCEPT !.pc = "walk", !.ri = 1,
                      !.result = @ \o SelectSeq(st.graph.keys, LAMBDA x : IF Fixed THEN ~DHas(st.deps, x) ELSE st.np[x] = 0)]

(* for parent in result:   (result grows while iterated)   if parent in graph: *)
Walk ==
  /\ st.pc = "walk"
  /\ IF st.ri > Len(st.result) THEN st' = [st EXCEPT !.pc = "cycle"]
     ELSE IF DHas(st.graph, st.result[st.ri]) THEN st' = [st EXCEPT !.pc = "walk_child", !.ci = 1]
     ELSE st' = [st EXCEPT !.ri = @ + 1]

(*         for child in graph[parent]: num_parents[child] -= 1; if it is 0: result.append(child)
           del graph[parent] *)
WalkChild ==
  /\ st.pc = "walk_child"
  /\ LET parent == st.result[st.ri]
         kids == st.graph.val[parent]
     IN IF st.ci > Len(kids) THEN st' = [st EXCEPT !.pc = "walk", !.graph = DDel(st.graph, parent), !.ri = @ + 1]
        ELSE LET child == kids[st.ci] IN
             st' = [st EXCEPT !.np[child] = @ - 1,
                              !.result = IF st.np[child] - 1 = 0 THEN Append(@, child) ELSE @,
                              !.ci = @ + 1]

(* has_cycle = bool(graph); if has_cycle: result.extend(list(graph.keys())) *)
CycleFlag ==
  /\ st.pc = "cycle"
  /\ LET cyc == st.graph.keys # <<>> IN
     st' = [st EXCEPT !.pc = "finish", !.cyc = cyc, !.result = IF cyc THEN @ \o st.graph.keys ELSE @]

(* back in sort_classes: raise ValueError on a cycle, else map names back and keep classes with _gen_c_api *)
Finish ==
  /\ st.pc = "finish"
  /\ LET kept == SelectSeq(st.result, LAMBDA cn : case.api[st.cbn[cn]]) IN
     st' = [st EXCEPT !.pc = "done",
                      !.out = IF st.cyc THEN [k |-> "error", res |-> <<>>]
                              ELSE [k |-> "ok", res |-> [x \in 1..Len(kept) |-> st.cbn[kept[x]]]]]

Step == /\ (Start \/ ForCls \/ ForDep \/ TsChild \/ TsParent \/ SeedA \/ SeedB \/ Walk \/ WalkChild \/ CycleFlag \/ Finish)
        /\ UNCHANGED case
Next == Step \/ (st.pc = "done" /\ UNCHANGED vars)      \* with deadlock checking ON: the only place to stop is "done"
Spec == Init /\ [][Next]_vars
FairSpec == Spec /\ WF_vars(Step)

(* ------------------------------- properties ------------------------------- *)
(* the implementation model meets the contract *)
ImplMeetsContract == st.pc = "done" => Meets(case.deps, case.api, case.roots, st.out)
(* the on-line closure is complete and exact when the iteration over the growing list ends *)
ClosureComplete == st.pc \notin {"start", "for_cls", "for_dep"} =>
                     /\ Range(st.classes) = Needed(case.deps, case.roots)
                     /\ DOMAIN st.deps.val = {Name(c) : c \in Needed(case.deps, case.roots)}
                     /\ \A c \in Needed(case.deps, case.roots) : st.deps.val[Name(c)] = [x \in DOMAIN case.deps[c] |-> Name(case.deps[c][x])]
(* parent counts never go negative; a node enters result only with count 0 *)
CountsSane == st.pc \in {"walk", "walk_child", "cycle", "finish"} => \A c \in Classes : st.np[c] >= 0
(* the iteration over lists that grow while iterated ends, on every input *)
Terminates == <>(st.pc = "done")
=============================================================================
