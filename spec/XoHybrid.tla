------------------------------ MODULE XoHybrid ------------------------------
(***************************************************************************)
(* Contract-level abstract machine for xobjects hybrid (Python-dressed)    *)
(* objects (xobjects/hybrid_class.py), property C18.                       *)
(*                                                                         *)
(*  heap  : sequence of ALLOCATIONS [cls, buf, val]; the index is the      *)
(*          allocation id (aid).  val is the abstract value tree of the    *)
(*          xobject data: a function from XO field names to a token (leaf  *)
(*          slot), a nested value tree (nested hybrid class) or a location *)
(*          (reference field; <<>> = null).                                *)
(*          A LOCATION is <<aid, xo-path>>: "the struct found by following *)
(*          xo-path inside allocation aid", i.e. the model's (buffer,      *)
(*          offset) of a (nested) xobject.                                 *)
(*  hs    : sequence of HANDLES = the hybrid objects the user holds.  A    *)
(*          handle carries the python-side dressing tree                   *)
(*             node == [loc, mv, kids]                                     *)
(*          loc  = where this dressed object's _xobject lives,             *)
(*          mv   = may be moved (False for parts living inside another and *)
(*                 for reference targets),                                 *)
(*          kids = for every nested hybrid field the dressed child node,   *)
(*                 for every reference field [loc |-> target or <<>>].     *)
(*                                                                         *)
(* Reading an attribute walks the DRESSING tree (python names); reading    *)
(* `_xobject` walks the HEAP (xo names).  The property says both always    *)
(* agree (Mirror), at every depth, under renaming.                         *)
(*                                                                         *)
(* Bug = TRUE switches SetNested to what the pinned tree does (the new     *)
(* dressed child inherits the SOURCE's dressed children) and, for a part   *)
(* with several reference fields, to a dressing that keeps the source's    *)
(* sharing (references that designated one object in the source share the  *)
(* FIRST duplicate); it is only used to show that the invariants are not   *)
(* vacuous.                                                                *)
(***************************************************************************)
EXTENDS Integers, Sequences, FiniteSets, TLC

CONSTANTS Scens,      \* which initial populations (subset of 1..9), one initial state each
          MaxDepth,   \* histories of at most this many operations
          MaxH,       \* at most this many handles (bounds Copy)
          Vals,       \* tokens written by SetLeaf
          WSlots,     \* python names of the leaf slots SetLeaf writes (bounds the branching; all slots are always READ)
          Bufs,       \* buffers
          Bug         \* FALSE = contract

VARIABLES hs, heap, depth
vars == <<hs, heap, depth>>
View == <<hs, heap>>

(* ------------------------------------------------------------------ classes *)
F(n, py, k, c) == [n |-> n, py |-> py, k |-> k, c |-> c]
CT == [ Leaf    |-> << F("a","a","leaf",""), F("s","s","leaf",""), F("arr","arr","leaf","") >>,
        Mid     |-> << F("inner","inner","nest","Leaf"), F("k","k","leaf","") >>,
        Outer   |-> << F("mid","mid","nest","Mid"), F("z","z","leaf","") >>,
        Holder  |-> << F("r","r","ref","Leaf"), F("h","h","leaf","") >>,
        Renamed |-> << F("_x","x","leaf",""), F("_in","inn","nest","Leaf"), F("y","y","leaf","") >>,
        Wrap    |-> << F("hold","hold","nest","Holder"), F("w","w","leaf","") >>,         \* a nested part that itself holds a reference
        Pair    |-> << F("r1","r1","ref","Leaf"), F("_r2","r2","ref","Leaf"), F("p","p","leaf","") >>,   \* two references (the second renamed)
        WrapPair |-> << F("hold","hold","nest","Pair"), F("w","w","leaf","") >> ]         \* a nested part that holds two references
(* constant lookup tables (TLC evaluates them once) *)
FL == [c \in DOMAIN CT |-> {CT[c][i] : i \in 1..Len(CT[c])}]
FP == [c \in DOMAIN CT |-> [py \in {f.py : f \in FL[c]} |-> CHOOSE f \in FL[c] : f.py = py]]
FN == [c \in DOMAIN CT |-> [n \in {f.n : f \in FL[c]} |-> CHOOSE f \in FL[c] : f.n = n]]
(* xo-paths of the reference fields of a struct of class c, its nested parts included (not through references) *)
(* in declaration order (the order fixes nothing but the numbering of the duplicates Copy / SetNested allocate) *)
RECURSIVE RefPathSeq(_, _)
RefPathSeq(c, i) ==
  IF i > Len(CT[c]) THEN <<>>
  ELSE LET f == CT[c][i]
           sub == IF f.k = "nest" THEN RefPathSeq(f.c, 1) ELSE <<>> IN
       (IF f.k = "ref" THEN << <<f.n>> >> ELSE [j \in 1..Len(sub) |-> <<f.n>> \o sub[j]]) \o RefPathSeq(c, i + 1)
RPS == [c \in DOMAIN CT |-> RefPathSeq(c, 1)]
RP == [c \in DOMAIN CT |-> {RPS[c][j] : j \in 1..Len(RPS[c])}]
ASSUME \A c \in DOMAIN CT : Cardinality(RP[c]) = Len(RPS[c])
HR == [c \in DOMAIN CT |-> RP[c] # {}]
Flds(c) == FL[c]
ByPy(c, py) == FP[c][py]
HasRefField(c) == HR[c]

NullLoc == <<>>
Child(loc, n) == <<loc[1], Append(loc[2], n)>>

RECURSIVE Walk(_, _), Put(_, _, _)
Walk(v, p) == IF p = <<>> THEN v ELSE Walk(v[Head(p)], Tail(p))
Put(v, p, x) == IF p = <<>> THEN x ELSE [v EXCEPT ![Head(p)] = Put(@, Tail(p), x)]
ValAt(hp, loc) == Walk(hp[loc[1]].val, loc[2])
BufOf(hp, loc) == hp[loc[1]].buf
A(c, b, v) == [cls |-> c, buf |-> b, val |-> v]

(* A value tree v (reference paths ps) that is being stored in buffer b: a reference keeps its referent inside b; a referent *)
(* that lives in another buffer is DUPLICATED into b, once PER REFERENCE PATH: references that designated one and the same   *)
(* object in the source designate two distinct duplicates in the stored value (as implemented: Ref._to_buffer, one field at a *)
(* time; DESIGN 1.5 "Copy").  Gives the extended heap and the value tree to store.                                            *)
RECURSIVE DupRefs(_, _, _, _)
DupRefs(hp, v, ps, b) ==
  IF ps = <<>> THEN [hp |-> hp, v |-> v]
  ELSE LET t == Walk(v, Head(ps)) IN
       IF t # NullLoc /\ BufOf(hp, t) # b
       THEN DupRefs(Append(hp, A("Leaf", b, ValAt(hp, t))), Put(v, Head(ps), <<Len(hp) + 1, <<>>>>), Tail(ps), b)
       ELSE DupRefs(hp, v, Tail(ps), b)

(* the dressing a constructor / copy / move / (correct) nested assignment builds for a struct of class c at loc *)
RECURSIVE FreshKids(_, _, _)
FreshKids(hp, c, loc) ==
  [n \in {f.n : f \in {g \in Flds(c) : g.k # "leaf"}} |->
     LET f == FN[c][n] IN
     IF f.k = "nest" THEN [loc |-> Child(loc, n), mv |-> FALSE, kids |-> FreshKids(hp, f.c, Child(loc, n))]
     ELSE [loc |-> ValAt(hp, Child(loc, n))]]
FreshNode(hp, c, loc, mv) == [loc |-> loc, mv |-> mv, kids |-> FreshKids(hp, c, loc)]

(* ------------------------------------------------------------------ expressions <<hid, python path>> *)
(* all python paths of class c that end at a dressed object (the handle itself, nested parts, reference targets) *)
RECURSIVE NodePaths(_)
NodePaths(c) == {<<>>} \cup UNION {{<<f.py>> \o p : p \in NodePaths(f.c)} : f \in {g \in Flds(c) : g.k # "leaf"}}
NP == [c \in DOMAIN CT |-> NodePaths(c)]          \* constant table (evaluated once)
RECURSIVE ClassAt(_, _)
ClassAt(c, p) == IF p = <<>> THEN c ELSE ClassAt(ByPy(c, Head(p)).c, Tail(p))
RECURSIVE ThroughRef(_, _)
ThroughRef(c, p) == IF p = <<>> THEN FALSE ELSE ByPy(c, Head(p)).k = "ref" \/ ThroughRef(ByPy(c, Head(p)).c, Tail(p))
RECURSIVE XoPath(_, _)
XoPath(c, p) == IF p = <<>> THEN <<>> ELSE <<ByPy(c, Head(p)).n>> \o XoPath(ByPy(c, Head(p)).c, Tail(p))

(* dressed walk: the python object reached by h.p1.p2...; a reference kid has no dressing of its own in the model *)
RECURSIVE DNode(_, _, _)
DNode(node, c, p) ==
  IF p = <<>> THEN node
  ELSE LET f == ByPy(c, Head(p)) IN
       IF f.k = "nest" THEN DNode(node.kids[f.n], f.c, Tail(p))
       ELSE [loc |-> node.kids[f.n].loc, mv |-> FALSE, kids |-> <<>>]      \* f.c = Leaf: nothing below
Node(H, e) == DNode(H[e[1]].node, H[e[1]].cls, e[2])
(* xobject walk: the location reached by h._xobject.x1.x2... (references are followed through the heap) *)
RECURSIVE XLoc(_, _, _, _)
XLoc(hp, loc, c, p) ==
  IF p = <<>> THEN loc
  ELSE LET f == ByPy(c, Head(p)) IN
       IF f.k = "nest" THEN XLoc(hp, Child(loc, f.n), f.c, Tail(p))
       ELSE ValAt(hp, Child(loc, f.n))                                     \* ref: Tail(p) = <<>> because f.c = Leaf
Valid(H, e) == e[1] \in 1..Len(H) /\ e[2] \in NP[H[e[1]].cls] /\ Node(H, e).loc # NullLoc
Exprs(H) == UNION {{<<i, p>> : p \in {q \in NP[H[i].cls] : Valid(H, <<i, q>>)}} : i \in 1..Len(H)}   \* every denotable hybrid object
ECls(H, e) == ClassAt(H[e[1]].cls, e[2])
ERef(H, e) == ThroughRef(H[e[1]].cls, e[2])
LeafSlots(c) == {f \in Flds(c) : f.k = "leaf"}

(* replace the dressed child at xo-path xp below node *)
RECURSIVE SetKid(_, _, _)
SetKid(node, xp, new) == IF xp = <<>> THEN new
                         ELSE [node EXCEPT !.kids[Head(xp)] = SetKid(@, Tail(xp), new)]

(* ------------------------------------------------------------------ initial populations *)
LeafV(t) == [a |-> t + 1, s |-> t + 2, arr |-> t + 3]
MidV(t) == [inner |-> LeafV(t), k |-> t + 4]
OuterV(t) == [mid |-> MidV(t), z |-> t + 5]
HolderV(t) == [r |-> NullLoc, h |-> t + 1]
RenV(t) == [_x |-> t + 4, _in |-> LeafV(t), y |-> t + 5]
HolderR(t, tgt) == [r |-> <<tgt, <<>>>>, h |-> t + 1]
PairV(t, t1, t2) == [r1 |-> IF t1 = 0 THEN NullLoc ELSE <<t1, <<>>>>, _r2 |-> IF t2 = 0 THEN NullLoc ELSE <<t2, <<>>>>, p |-> t + 1]
InitHeap(Scen) ==
  CASE Scen = 1 -> << A("Outer", 1, OuterV(10)), A("Mid", 2, MidV(20)) >>                              \* three levels, source in another buffer
    [] Scen = 2 -> << A("Holder", 1, HolderV(10)), A("Leaf", 1, LeafV(20)), A("Leaf", 2, LeafV(30)) >>  \* references within / across buffers
    [] Scen = 3 -> << A("Renamed", 1, RenV(10)), A("Leaf", 2, LeafV(20)) >>                             \* renamed scalar and renamed nested field
    [] Scen = 4 -> << A("Holder", 1, HolderV(10)), A("Mid", 1, MidV(20)) >>                             \* reference to a part nested in another object
    [] Scen = 5 -> << A("Outer", 1, OuterV(10)), A("Outer", 1, OuterV(20)) >>                           \* nested parts as sources, same buffer
    [] Scen = 6 -> << A("Holder", 1, HolderV(10)), A("Holder", 1, HolderV(20)), A("Leaf", 1, LeafV(30)) >>  \* two holders sharing one target
    [] Scen = 7 -> << A("Mid", 1, MidV(10)), A("Leaf", 1, LeafV(20)) >>                                 \* two levels
    [] Scen = 8 -> << A("Leaf", 1, LeafV(10)), A("Holder", 1, HolderR(20, 1)),                          \* a nested part that holds a reference:
                      A("Wrap", 1, [hold |-> HolderR(20, 1), w |-> 35]),                               \* wrap built with hold = m0 (r = t0), buffer 1;
                      A("Leaf", 2, LeafV(40)), A("Holder", 2, HolderR(50, 4)) >>                        \* t1 and m1 (r = t1) in buffer 2
    [] Scen = 9 -> << A("Leaf", 1, LeafV(10)), A("Leaf", 1, LeafV(20)),                                 \* two references per object: t0, t1,
                      A("Pair", 1, PairV(30, 1, 1)), A("Pair", 1, PairV(40, 1, 2)),                    \* ps (both references on t0), pd (t0 and t1), buffer 1;
                      A("WrapPair", 2, [hold |-> PairV(50, 0, 0), w |-> 65]) >>                        \* a WrapPair in buffer 2 (its part starts with null references)
(* as implemented: an object that is the target of a reference stays where it is *)
IsTarget(hp, i) == \E j \in 1..Len(hp) : \E p \in RP[hp[j].cls] : ValAt(hp, <<j, p>>) = <<i, <<>>>>
Init ==
  \E sc \in Scens :
    /\ heap = InitHeap(sc)
    /\ hs = [i \in 1..Len(InitHeap(sc)) |-> [cls |-> InitHeap(sc)[i].cls, node |-> FreshNode(InitHeap(sc), InitHeap(sc)[i].cls, <<i, <<>>>>, ~IsTarget(InitHeap(sc), i))]]
    /\ depth = 0

(* ------------------------------------------------------------------ actions *)
Tick == depth' = depth + 1

(* h.p1...pn.slot = v   (through nested parts and through non-null references) *)
SetLeaf(e, f, v) ==
  /\ Valid(hs, e) /\ f \in LeafSlots(ECls(hs, e)) /\ f.py \in WSlots
  /\ LET L == Node(hs, e).loc IN heap' = [heap EXCEPT ![L[1]].val = Put(@, Append(L[2], f.n), v)]
  /\ UNCHANGED hs /\ Tick

(* Bug only: the dressing of a stored part with several reference fields that keeps the SOURCE's sharing - a reference whose *)
(* source value v[n] equals that of an earlier reference field gets the dressed object of that earlier field                 *)
DirectRefs(c) == {f \in FL[c] : f.k = "ref"}
MemoKids(hp, c, dst, v) ==
  LET fresh == FreshKids(hp, c, dst)
      idx(n) == CHOOSE i \in 1..Len(CT[c]) : CT[c][i].n = n
      same(i, n) == CT[c][i].k = "ref" /\ v[CT[c][i].n] = v[n]
      first(n) == CT[c][CHOOSE j \in 1..idx(n) : same(j, n) /\ \A k \in 1..(j - 1) : ~same(k, n)].n
  IN [n \in DOMAIN fresh |-> IF FN[c][n].k = "ref" /\ v[n] # NullLoc THEN fresh[first(n)] ELSE fresh[n]]

(* h.p1...pn.f = src    f a nested hybrid field: stores an independent COPY of src *)
SetNested(e, f, src) ==
  /\ Valid(hs, e) /\ ~ERef(hs, e) /\ f \in Flds(ECls(hs, e)) /\ f.k = "nest"
  /\ Valid(hs, src) /\ ~ERef(hs, src) /\ ECls(hs, src) = f.c
  /\ LET N == Node(hs, e)
         M == Node(hs, src)
         dst == Child(N.loc, f.n)
         v == ValAt(heap, M.loc)
         \* the copy's references: same buffer -> the same referent (shared); other buffer -> a DUPLICATE of the referent in
         \* the destination's buffer (as Copy does, one per reference), never an object of the other buffer
         D == DupRefs(heap, v, RPS[f.c], BufOf(heap, dst))
         hp == IF dst = M.loc THEN heap                       \* same memory: nothing to copy
               ELSE [D.hp EXCEPT ![dst[1]].val = Put(@, dst[2], D.v)]
         new == [loc |-> dst, mv |-> FALSE,
                 kids |-> IF ~Bug THEN FreshKids(hp, f.c, dst)
                          ELSE IF Cardinality(DirectRefs(f.c)) > 1 THEN MemoKids(hp, f.c, dst, v) ELSE M.kids]
     IN /\ heap' = hp
        /\ hs' = [hs EXCEPT ![e[1]].node = SetKid(@, Append(XoPath(hs[e[1]].cls, e[2]), f.n), new)]
  /\ Tick

(* h.r = src   r a reference field: shares src; refused across buffers *)
RefOK(e, f, src) ==
  /\ Valid(hs, e) /\ ~ERef(hs, e) /\ f \in Flds(ECls(hs, e)) /\ f.k = "ref"      \* e: a handle or a nested part (wrap.hold.r = t)
  /\ Valid(hs, src) /\ ~ERef(hs, src) /\ ECls(hs, src) = f.c
SetRef(e, f, src) ==
  /\ RefOK(e, f, src)
  /\ LET N == Node(hs, e)
         M == Node(hs, src) IN
     /\ BufOf(heap, M.loc) = BufOf(heap, N.loc)
     /\ heap' = [heap EXCEPT ![N.loc[1]].val = Put(@, Append(N.loc[2], f.n), M.loc)]
     /\ hs' = [i \in 1..Len(hs) |->
                 IF i = e[1] THEN [hs[i] EXCEPT !.node = SetKid(@, Append(XoPath(hs[i].cls, e[2]), f.n), [loc |-> M.loc])]
                 ELSE IF i = src[1] /\ src[2] = <<>> THEN [hs[i] EXCEPT !.node.mv = FALSE]   \* as implemented: a reference target stays where it is
                 ELSE hs[i]]
  /\ Tick
SetRefRefused(e, f, src) ==
  /\ RefOK(e, f, src)
  /\ BufOf(heap, Node(hs, src).loc) # BufOf(heap, Node(hs, e).loc)
  /\ UNCHANGED <<hs, heap>> /\ Tick

(* h.r = None: the attribute reflects the (now null) buffer data *)
ClearRef(e, f) ==
  /\ Valid(hs, e) /\ ~ERef(hs, e) /\ f \in Flds(ECls(hs, e)) /\ f.k = "ref"
  /\ Node(hs, e).kids[f.n].loc # NullLoc
  /\ LET N == Node(hs, e) IN
     /\ heap' = [heap EXCEPT ![N.loc[1]].val = Put(@, Append(N.loc[2], f.n), NullLoc)]
     /\ hs' = [hs EXCEPT ![e[1]].node = SetKid(@, Append(XoPath(hs[e[1]].cls, e[2]), f.n), [loc |-> NullLoc])]
  /\ Tick

(* n = src.copy(_buffer = b): an independent equal object; a reference keeps its target inside the same buffer and *)
(* gets a duplicate of the target in another buffer, one per reference (DESIGN 1.5 "Copy")                         *)
Copy(src, b) ==
  /\ Valid(hs, src) /\ ~ERef(hs, src) /\ Len(hs) < MaxH
  /\ LET M == Node(hs, src)
         c == ECls(hs, src)
         v == ValAt(heap, M.loc)
         D == DupRefs(heap, v, RPS[c], b)                   \* the reference fields may sit in a nested part (Wrap: hold.r)
         hp == Append(D.hp, A(c, b, D.v))
     IN /\ heap' = hp
        /\ hs' = Append(hs, [cls |-> c, node |-> FreshNode(hp, c, <<Len(hp), <<>>>>, TRUE)])
  /\ Tick

(* src.move(_buffer = b) *)
MoveArgs(e) == Valid(hs, e) /\ ~ERef(hs, e)
HoldsRef(e) == \E p \in RP[ECls(hs, e)] : Walk(ValAt(heap, Node(hs, e).loc), p) # NullLoc   \* at any depth
MustRefuse(e) == e[2] # <<>> \/ HoldsRef(e)                        \* nested in another, or contains references
MayRefuse(e) == MustRefuse(e) \/ ~Node(hs, e).mv \/ HasRefField(ECls(hs, e))   \* left open by the property: reference targets, null references
MoveDo(e, b) ==
  /\ MoveArgs(e) /\ ~MustRefuse(e)
  /\ LET c == ECls(hs, e)
         hp == Append(heap, A(c, b, ValAt(heap, Node(hs, e).loc))) IN
     /\ heap' = hp
     /\ hs' = [hs EXCEPT ![e[1]].node = FreshNode(hp, c, <<Len(hp), <<>>>>, hs[e[1]].node.mv)]
  /\ Tick
MoveRefused(e, b) ==
  /\ MoveArgs(e) /\ MayRefuse(e)
  /\ UNCHANGED <<hs, heap>> /\ Tick

AllE == Exprs(hs)
AllF == UNION {Flds(c) : c \in DOMAIN CT}
FOf(e) == Flds(ECls(hs, e))
Next ==
  /\ depth < MaxDepth
  /\ LET E == AllE IN
     \/ \E e \in E : \E f \in FOf(e), v \in Vals : SetLeaf(e, f, v)
     \/ \E e \in E : \E f \in FOf(e), s \in E : SetNested(e, f, s)
     \/ \E e \in E : \E f \in FOf(e), s \in E : SetRef(e, f, s) \/ SetRefRefused(e, f, s)
     \/ \E e \in E : \E f \in FOf(e) : ClearRef(e, f)
     \/ \E s \in E, b \in Bufs : Copy(s, b)
     \/ \E e \in E, b \in Bufs : MoveDo(e, b) \/ MoveRefused(e, b)
Spec == Init /\ [][Next]_vars

(* ------------------------------------------------------------------ what a user reads *)
ReadDressed(H, hp, e, f) == ValAt(hp, Child(Node(H, e).loc, f.n))
ReadXo(H, hp, e, f) == ValAt(hp, Child(XLoc(hp, H[e[1]].node.loc, H[e[1]].cls, e[2]), f.n))
(* the whole value tree of the object denoted by e, as seen through attributes *)
DressedVals(H, hp, e) ==
  LET c == ECls(H, e)
      P == {p \in NP[c] : Valid(H, <<e[1], e[2] \o p>>)}
      D == UNION {{<<p, f.py>> : f \in LeafSlots(ClassAt(c, p))} : p \in P}
  IN [q \in D |-> ReadDressed(H, hp, <<e[1], e[2] \o q[1]>>, ByPy(ClassAt(c, q[1]), q[2]))]

(* ------------------------------------------------------------------ C18 invariants *)
(* Mirror: at EVERY depth the dressed child is the xobject field (same buffer, same offset), hence every attribute *)
(* read equals the buffer data read through _xobject, under renaming                                                *)
MirrorAt(e) == /\ Node(hs, e).loc = XLoc(heap, hs[e[1]].node.loc, hs[e[1]].cls, e[2])
               /\ Node(hs, e).loc # NullLoc =>
                    \A f \in LeafSlots(ECls(hs, e)) : ReadDressed(hs, heap, e, f) = ReadXo(hs, heap, e, f)
Mirror == \A i \in 1..Len(hs) : \A p \in NP[hs[i].cls] : MirrorAt(<<i, p>>)

(* the storage a handle owns (itself and its nested parts, not what it merely references) *)
RECURSIVE OwnLocs(_, _)
OwnLocs(node, c) == {node.loc} \cup UNION {OwnLocs(node.kids[f.n], f.c) : f \in {g \in Flds(c) : g.k = "nest"}}
Prefix(p, q) == Len(p) <= Len(q) /\ SubSeq(q, 1, Len(p)) = p
Overlap(L1, L2) == L1[1] = L2[1] /\ (Prefix(L1[2], L2[2]) \/ Prefix(L2[2], L1[2]))
(* distinct hybrid objects never share storage: what was stored by copy / nested assignment is independent *)
CopyIndependent == \A i, j \in 1..Len(hs) : i # j =>
                     \A L1 \in OwnLocs(hs[i].node, hs[i].cls), L2 \in OwnLocs(hs[j].node, hs[j].cls) : ~Overlap(L1, L2)
(* every part of an object lives in the object's buffer, inside the object *)
PartsInside == \A i \in 1..Len(hs) : \A L \in OwnLocs(hs[i].node, hs[i].cls) : L[1] = hs[i].node.loc[1]
(* a reference shares (dressed child = target = what the buffer's reference word designates) within one buffer *)
RefShares == \A i \in 1..Len(hs) : \A p \in {q \in NP[hs[i].cls] : ~ThroughRef(hs[i].cls, q)} :       \* the handle and its nested parts
               \A f \in Flds(ClassAt(hs[i].cls, p)) : f.k = "ref" =>
                 LET t == Node(hs, <<i, p>>).kids[f.n].loc IN
                 /\ t = ValAt(heap, <<hs[i].node.loc[1], hs[i].node.loc[2] \o XoPath(hs[i].cls, p) \o <<f.n>>>>)
                 /\ t # NullLoc => BufOf(heap, t) = BufOf(heap, hs[i].node.loc)

(* action properties *)
CopyEqual == [][depth < MaxDepth => \A s \in AllE, b \in Bufs : Copy(s, b) =>
                  /\ DressedVals(hs', heap', <<Len(hs'), <<>>>>) = DressedVals(hs, heap, s)
                  /\ BufOf(heap', hs'[Len(hs')].node.loc) = b
                  /\ \A i \in 1..Len(hs) : DressedVals(hs', heap', <<i, <<>>>>) = DressedVals(hs, heap, <<i, <<>>>>)]_vars
MovePreserves == [][depth < MaxDepth => \A e \in AllE, b \in Bufs : MoveDo(e, b) =>
                      /\ DressedVals(hs', heap', e) = DressedVals(hs, heap, e)
                      /\ \A L \in OwnLocs(hs'[e[1]].node, hs'[e[1]].cls) : BufOf(heap', L) = b
                      /\ \A i \in 1..Len(hs) : DressedVals(hs', heap', <<i, <<>>>>) = DressedVals(hs, heap, <<i, <<>>>>)]_vars
MoveRefusal == \A e \in AllE, b \in Bufs : (MoveArgs(e) /\ MustRefuse(e)) => ~ENABLED MoveDo(e, b)
(* a write through one object is seen only by objects that reach the written storage *)
WriteLocal == [][depth < MaxDepth => \A e \in AllE : \A f \in FOf(e), v \in Vals : SetLeaf(e, f, v) =>
                   \A i \in 1..Len(hs) : \A q \in DOMAIN DressedVals(hs, heap, <<i, <<>>>>) :
                      DressedVals(hs', heap', <<i, <<>>>>)[q] # DressedVals(hs, heap, <<i, <<>>>>)[q] =>
                        Child(Node(hs, <<i, q[1]>>).loc, ByPy(ClassAt(hs[i].cls, q[1]), q[2]).n) = Child(Node(hs, e).loc, f.n)]_vars
NestedStoresCopy == [][depth < MaxDepth => \A e \in AllE : \A f \in FOf(e), s \in AllE : SetNested(e, f, s) =>
                        /\ DressedVals(hs', heap', <<e[1], Append(e[2], f.py)>>) = DressedVals(hs, heap, s)
                        /\ DressedVals(hs', heap', s) = DressedVals(hs, heap, s)]_vars
=============================================================================
