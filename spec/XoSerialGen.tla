---------------------------- MODULE XoSerialGen ----------------------------
(* One JSON line per class definition enumerated by XoSerial: the field descriptors with what the contract says about *)
(* each key (must / mustnot / may be present) and what the constructor supplies for an absent key.                    *)
EXTENDS XoSerial, Json
CONSTANTS FullUpTo, Stride, Seed     \* definitions with more than FullUpTo fields: every Stride-th one is exported (all of them are CHECKED)
RECURSIVE Mix(_, _)
Mix(c, k) == IF k = 0 THEN Seed ELSE (Mix(c, k - 1) * 31 + Code(c[k])) % 1000003
Picked == Len(cls) > 0 /\ (Len(cls) <= FullUpTo \/ Mix(cls, Len(cls)) % Stride = 0)
Case == [i \in 1..Len(cls) |-> [kind |-> cls[i].kind, dk |-> cls[i].dk, ren |-> cls[i].ren, vc |-> cls[i].vc,
                                pres |-> Presence(cls[i]), sup |-> Supplied(cls[i])]]
Emit == Picked => PrintT(ToJson([case |-> Case, ctx |-> ctx]))
ASSUME PrintT(ToJson([deviations |-> {[kind |-> f.kind, dk |-> f.dk, ren |-> f.ren, vc |-> f.vc, code |-> CodePresent(f), contract |-> Presence(f)] : f \in Deviations}]))
=============================================================================
