---------------------------- MODULE XoSerialGen ----------------------------
(* One JSON line per class definition enumerated by XoSerial: the field descriptors with what the contract says about *)
(* each key (must / mustnot / may be present) and what the constructor supplies for an absent key.                    *)
EXTENDS XoSerial, Json
Case == [i \in 1..Len(cls) |-> [kind |-> cls[i].kind, dk |-> cls[i].dk, ren |-> cls[i].ren, vc |-> cls[i].vc,
                                pres |-> Presence(cls[i]), sup |-> Supplied(cls[i])]]
Emit == PrintT(ToJson([case |-> Case]))
ASSUME PrintT(ToJson([deviations |-> {[kind |-> f.kind, dk |-> f.dk, ren |-> f.ren, vc |-> f.vc, code |-> CodePresent(f), contract |-> Presence(f)] : f \in Deviations}]))
=============================================================================
