\* Reference instance (the engine vlib/specialize.py writes its cfg files at run time; this one is for running TLC by hand:
\*   tlc -config XoSpecialize_q.cfg XoSpecialize        model-level check  (profile "full4" of the quick tier)
SPECIFICATION Spec
CONSTANTS
  MaxLen = 4
  Ns = {0,1,2,3,4}
  MaxHalf = 1
  Blocks = {1,2,3}
  CtxSets = {{"cuda"}, {"cpu_serial","opencl"}, {"cpu_openmp"}}
  IncFa = {{"cuda","cpu_openmp"}}
  IncFb = {{"cuda","cpu_openmp"}, {"opencl","cpu_serial"}}
  IncFc = {{"opencl","cpu_serial"}}
  Kinds = {"plain"}
  Part = 0
  NParts = 1
INVARIANT RewriteMeetsContract
INVARIANT EnumeratedAreWellFormed
CHECK_DEADLOCK FALSE
