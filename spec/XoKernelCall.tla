---------------------------- MODULE XoKernelCall ----------------------------
(***************************************************************************)
(* Contract-level specification of property C17: what a kernel compiled    *)
(* through an xobjects CPU context receives when it is called from Python  *)
(* (xobjects/context_cpu.py KernelCpu.__call__ / to_function_arg,          *)
(* context.py KernelDispatcher; docs/architecture/contexts.rst "takes      *)
(* python scalar and np scalar" / "takes np.array, xo.Float64 arrays").    *)
(*                                                                         *)
(* State = what the caller of a kernel can rely on:                        *)
(*   gen[b]  storage generation of buffer b: growth REPLACES the native    *)
(*           storage, so every address handed out earlier is stale         *)
(*   cap[b]  capacity in bytes                                             *)
(*   top[b]  (generator only) next placement offset of the environment     *)
(*   objs    the xobjects created so far: buffer, byte offset, kind,       *)
(*           element type (numeric arrays), generation at creation         *)
(*   hist    the history (Allocate / Grow events) that led here            *)
(*   last    outcome of the last kernel call                               *)
(*                                                                         *)
(* A location is (space, buffer, generation, byte offset).  The contract   *)
(* is the decision table Decide(declared parameter, actual value) and the  *)
(* arity / keyword rules in Outcome.  Scalar payloads and C types are      *)
(* opaque: the model says "the exact value is delivered"; bit-exactness at *)
(* the type extremes is observed by the replay harness (Aux).              *)
(***************************************************************************)
EXTENDS Integers, Sequences, FiniteSets, TLC

CONSTANTS Bufs,            \* ids of growable xobjects buffers
          ObjKinds,        \* kinds of objects the environment creates
          ObjElems,        \* element types of the numeric arrays the environment creates
          ElemTypes,       \* scalar C types (abstract tags; the harness instantiates them with the 10 real ones)
          NpForms,         \* how a NumPy argument is cut out of its base array
          InitTops,        \* offset of the first object of a buffer (0 or not)
          InitCap, GrowBy, \* bytes
          MaxGen, MaxObjs, MaxHist,
          WithMix,         \* also explore the kernel that takes all ten scalar types by value at once
          CacheAtCreation  \* FALSE = the contract.  TRUE = a WRONG variant (location resolved when the object was
                           \* created) that the model checker must reject: shows DeliveredCurrent is not vacuous

VARIABLES gen, cap, top, objs, hist, last
vars == <<gen, cap, top, objs, hist, last>>

(* ---- layout facts of the documented format that the table needs ---- *)
NumKinds == {"sarr", "darr", "d2arr"}          \* T[n]   T[:]   T[:,:]   numeric arrays
RefKinds == {"struct", "dstruct", "uref"}      \* static struct, struct with a dynamic field, union reference
(* first element of a numeric array relative to its first byte: static shape: no header; dynamic: [size][one word *)
(* per dynamic dimension][nd stride words iff nd > 1]                                                            *)
DataOff(k) == CASE k = "darr" -> 16 [] k = "d2arr" -> 40 [] OTHER -> 0
(* bytes the generator reserves per object (the real objects are not larger; checked by the harness) *)
Size(k) == CASE k = "struct" -> 16 [] k = "dstruct" -> 56 [] k = "uref" -> 32
             [] k = "sarr" -> 24 [] k = "darr" -> 40 [] k = "d2arr" -> 72 [] OTHER -> 8
(* index (in elements, memory order) of the first element of a NumPy argument inside its base array:            *)
(* base 1-D: 6 elements; base 2-D: 3 x 4, C order ("2d") or Fortran order ("2dF")                                *)
FirstIdx(f) == CASE f = "full" -> 0 [] f = "tail1" -> 1 [] f = "tail2" -> 2 [] f = "step" -> 1   \* a[1::2]
                 [] f = "rev" -> 5                                                                 \* a[::-1]
                 [] f = "2d" -> 6 [] f = "2dF" -> 7                                                \* a2[1:, 2:]
                 [] OTHER -> 0

(* ---- declared parameters and actual values ---- *)
PSc(t)    == [d |-> "sc",  kind |-> "-", et |-> t]      \* xo.Arg(T)                scalar by value
PPtr(t)   == [d |-> "ptr", kind |-> "-", et |-> t]      \* xo.Arg(T, pointer=True)  pointer to scalar
PXo(k, t) == [d |-> "xo",  kind |-> k,   et |-> t]      \* xo.Arg(Class)            an xobject

AScalar(t) == [v |-> "scalar", et |-> t, form |-> "-", id |-> 0, first |-> 0]
ANp(u, f, n, fi) == [v |-> "np", et |-> u, form |-> f, id |-> n, first |-> fi]
AObj(i)    == [v |-> "obj", et |-> objs[i].et, form |-> objs[i].kind, id |-> i, first |-> 0]

NoLoc == [sp |-> "-", b |-> 0, g |-> 0, off |-> 0]
Val       == [r |-> "val",    why |-> "", loc |-> NoLoc]
Refuse(w) == [r |-> "refuse", why |-> w,  loc |-> NoLoc]
Unspec    == [r |-> "unspec", why |-> "", loc |-> NoLoc]
Loc(l)    == [r |-> "loc",    why |-> "", loc |-> l]

(* where object i is NOW: its buffer's current storage generation, its offset *)
ObjLoc(i, d) == [sp |-> "buf", b |-> objs[i].buf,
                 g |-> IF CacheAtCreation THEN objs[i].cgen ELSE gen[objs[i].buf],
                 off |-> objs[i].off + d]
NpLoc(a) == [sp |-> "np", b |-> a.id, g |-> 0, off |-> a.first]

(***************************************************************************)
(* THE DECISION TABLE  (declared parameter, actual value) -> delivered     *)
(***************************************************************************)
Decide(p, a) ==
  CASE p.d = "sc" /\ a.v = "scalar" /\ a.et = p.et -> Val                       \* exact value of the declared C type
    [] p.d = "ptr" /\ a.v = "np" ->                                             \* NumPy array / slice
         IF a.et = p.et THEN Loc(NpLoc(a)) ELSE Refuse("wrong-dtype")           \*   -> its first element
    [] p.d = "ptr" /\ a.v = "obj" /\ a.form \in NumKinds ->                     \* xobject numeric array
         IF a.et = p.et THEN Loc(ObjLoc(a.id, DataOff(a.form)))                 \*   -> its first ELEMENT, current generation
         ELSE Refuse("wrong-dtype")
    [] p.d = "xo" /\ a.v = "obj" /\ a.form = p.kind /\ a.et = p.et ->           \* xobject of the declared class
         Loc(ObjLoc(a.id, 0))                                                   \*   -> its first BYTE, current generation
    [] OTHER -> Unspec                                                          \* the property is silent

Shapes == {"kw", "positional", "missing", "extra", "unknown"}

(* a call case: kernel with parameters ps, called in a given shape with actual values as *)
Case(sh, ps, as) == [shape |-> sh, ps |-> ps, as |-> as]
Decisions(c) == [j \in 1..Len(c.ps) |-> Decide(c.ps[j], c.as[j])]
Specified(c) == \A j \in 1..Len(c.ps) : Decisions(c)[j].r # "unspec"

Outcome(c) ==
  IF c.shape # "kw" THEN [status |-> "refused", why |-> c.shape, del |-> <<>>]  \* only named arguments, all of them, no others
  ELSE IF \E j \in 1..Len(c.ps) : Decisions(c)[j].r = "refuse"
       THEN [status |-> "refused", why |-> "wrong-dtype", del |-> <<>>]
       ELSE [status |-> "ok", why |-> "", del |-> [j \in 1..Len(c.ps) |-> Decisions(c)[j].loc]]

(* ---- the call cases the bounded model explores in a state ---- *)
ObjIds == 1..Len(objs)
XoEt(i) == IF objs[i].kind \in NumKinds THEN objs[i].et ELSE "-"
(* one-parameter kernels *)
ScCases  == {Case("kw", <<PSc(t)>>, <<AScalar(t)>>) : t \in ElemTypes}
NpCases  == {Case("kw", <<PPtr(t)>>, <<ANp(u, f, 1, FirstIdx(f))>>) :
               t \in ElemTypes, u \in ElemTypes, f \in NpForms}
PtrObjCases == {Case("kw", <<PPtr(t)>>, <<AObj(i)>>) : t \in ElemTypes, i \in {j \in ObjIds : objs[j].kind \in NumKinds}}
XoCases  == {Case("kw", <<PXo(objs[i].kind, XoEt(i))>>, <<AObj(i)>>) : i \in ObjIds}
(* two-parameter kernels: several objects (of one buffer or of two) in one call, and a NumPy array next to an object *)
Entries  == {<<PXo(objs[i].kind, XoEt(i)), AObj(i)>> : i \in {j \in ObjIds : objs[j].kind \in RefKinds}}
            \cup {<<PPtr(t), AObj(i)>> : t \in ElemTypes, i \in {j \in ObjIds : objs[j].kind \in NumKinds}}
            \cup {<<PPtr(t), ANp(t, "tail1", 1, FirstIdx("tail1"))>> : t \in ObjElems}
Second(a) == IF a.v = "np" THEN [a EXCEPT !.id = 2] ELSE a          \* two NumPy arguments are two arrays
PairCases == {Case("kw", <<e1[1], e2[1]>>, <<e1[2], Second(e2[2])>>) : e1 \in Entries, e2 \in Entries}
(* one kernel with a parameter of every scalar type: every value must arrive in ITS parameter *)
AllScalars == <<"Int8", "UInt8", "Int16", "UInt16", "Int32", "UInt32", "Int64", "UInt64", "Float32", "Float64">>
MixCases == IF WithMix THEN {Case("kw", [j \in 1..Len(AllScalars) |-> PSc(AllScalars[j])],
                                        [j \in 1..Len(AllScalars) |-> AScalar(AllScalars[j])])}
            ELSE {}
Deliverable == {c \in ScCases \cup NpCases \cup PtrObjCases \cup XoCases : Outcome(c).status = "ok"}
(* every call that would be served is also tried in every malformed shape *)
ShapeCases == {Case(sh, c.ps, c.as) : sh \in Shapes \ {"kw"},
                 c \in {x \in Deliverable : x.as[1].v # "np" \/ x.as[1].form = "full"}}
Cases == {c \in ScCases \cup NpCases \cup PtrObjCases \cup XoCases \cup PairCases \cup MixCases \cup ShapeCases : Specified(c)}

(* ---- the machine ---- *)
NoCall == [status |-> "none", why |-> "", del |-> <<>>]

Init ==
  /\ gen = [b \in Bufs |-> 0]
  /\ cap = [b \in Bufs |-> InitCap]
  /\ \E t \in InitTops : top = [b \in Bufs |-> t]
  /\ objs = <<>> /\ hist = <<>> /\ last = NoCall

(* an object of kind k is created in buffer b at the next free offset *)
Allocate(b, k, t) ==
  /\ Len(objs) < MaxObjs /\ Len(hist) < MaxHist
  /\ top[b] + Size(k) <= cap[b]
  /\ objs' = Append(objs, [buf |-> b, off |-> top[b], kind |-> k, et |-> t, cgen |-> gen[b]])
  /\ top' = [top EXCEPT ![b] = top[b] + Size(k)]
  /\ hist' = Append(hist, [op |-> "alloc", b |-> b, k |-> k, et |-> t, off |-> top[b]])
  /\ last' = NoCall
  /\ UNCHANGED <<gen, cap>>

(* growth: capacity increases, the storage is REPLACED (new generation), objects keep their offsets *)
Grow(b) ==
  /\ gen[b] < MaxGen /\ Len(hist) < MaxHist
  /\ cap' = [cap EXCEPT ![b] = cap[b] + GrowBy]
  /\ gen' = [gen EXCEPT ![b] = gen[b] + 1]
  /\ hist' = Append(hist, [op |-> "grow", b |-> b, k |-> "-", et |-> "-", off |-> 0])
  /\ last' = NoCall
  /\ UNCHANGED <<top, objs>>

(* a kernel call: served or refused; it never changes buffers or objects *)
Call(c) ==
  /\ last' = Outcome(c)
  /\ UNCHANGED <<gen, cap, top, objs, hist>>

Next ==
  \/ \E b \in Bufs, k \in ObjKinds : \E t \in (IF k \in NumKinds THEN ObjElems ELSE {"-"}) : Allocate(b, k, t)
  \/ \E b \in Bufs : Grow(b)
  \/ \E c \in Cases : Call(c)

Spec == Init /\ [][Next]_vars

(************************** properties: C17 **************************)
(* every location a served call delivers lies in the CURRENT storage generation of the buffer that holds the   *)
(* object, at the object's offset (first byte) or at its first element, inside the capacity                   *)
LocCurrent(l) ==
  l.sp = "buf" => /\ l.g = gen[l.b]
                  /\ l.off < cap[l.b]
                  /\ \E i \in ObjIds : objs[i].buf = l.b /\ l.off \in {objs[i].off, objs[i].off + DataOff(objs[i].kind)}
DeliveredCurrent ==
  \A c \in Cases : Outcome(c).status = "ok" => \A j \in 1..Len(Outcome(c).del) : LocCurrent(Outcome(c).del[j])
LastCurrent == last.status = "ok" => \A j \in 1..Len(last.del) : LocCurrent(last.del[j])
(* a pointer parameter receives the first ELEMENT, an xobject parameter the first BYTE *)
ElementVsByte ==
  \A c \in Cases : Outcome(c).status = "ok" =>
     \A j \in 1..Len(c.ps) : c.as[j].v = "obj" =>
        Outcome(c).del[j].off = objs[c.as[j].id].off + (IF c.ps[j].d = "ptr" THEN DataOff(objs[c.as[j].id].kind) ELSE 0)
(* malformed calls and wrong element types are refused, everything else that is specified is served *)
RefusedExactly ==
  \A c \in Cases : (Outcome(c).status = "refused") <=>
     (c.shape # "kw" \/ \E j \in 1..Len(c.ps) : c.ps[j].d = "ptr" /\ c.as[j].et # c.ps[j].et)
(* a call (served or refused) changes nothing *)
CallChangesNothing == [][last' # NoCall => UNCHANGED <<gen, cap, top, objs>>]_vars
(* environment sanity: objects in bounds and disjoint, so that locations identify objects *)
Placement ==
  /\ \A i \in ObjIds : objs[i].off + Size(objs[i].kind) <= cap[objs[i].buf] /\ objs[i].cgen <= gen[objs[i].buf]
  /\ \A i, j \in ObjIds : (i # j /\ objs[i].buf = objs[j].buf) =>
        (objs[i].off + Size(objs[i].kind) <= objs[j].off \/ objs[j].off + Size(objs[j].kind) <= objs[i].off)
(* vacuity guards, checked with their negation as "invariants" expected to FAIL in the self-test *)
SomeStale == \E i \in ObjIds : objs[i].cgen < gen[objs[i].buf]
NoStale == ~SomeStale
=============================================================================
