-------------------------- MODULE XoKernelCallGen --------------------------
(* Generator instance of XoKernelCall: explores every history (Allocate / Grow) within the bounds and exports, once *)
(* per reachable state, the history and EVERY call case of that state with the outcome the contract prescribes      *)
(* (the location oracle).  The replay harness rebuilds the history on the real library and performs every call.     *)
(* The export is a side effect of the "invariant" Export, which TLC evaluates exactly once per distinct state       *)
(* (run with -workers 1).                                                                                           *)
EXTENDS XoKernelCall, Json

GNext ==
  \/ \E b \in Bufs, k \in ObjKinds : \E t \in (IF k \in NumKinds THEN ObjElems ELSE {"-"}) : Allocate(b, k, t)
  \/ \E b \in Bufs : Grow(b)
GSpec == Init /\ [][GNext]_vars

P3(p) == <<p.d, p.kind, p.et>>
A5(a) == <<a.v, a.et, a.form, a.id, a.first>>
L4(l) == <<l.sp, l.b, l.g, l.off>>
(* compact form of one case and its prescribed outcome: [shape, params, actuals, status, why, delivered] *)
Row(c) == LET o == Outcome(c) IN
  <<c.shape, [j \in 1..Len(c.ps) |-> P3(c.ps[j])], [j \in 1..Len(c.as) |-> A5(c.as[j])],
    o.status, o.why, [j \in 1..Len(o.del) |-> L4(o.del[j])]>>
Export == PrintT(ToJson([icap |-> InitCap, growby |-> GrowBy, hist |-> [i \in 1..Len(hist) |-> <<hist[i].op, hist[i].b, hist[i].k, hist[i].et, hist[i].off>>],
                         cases |-> {Row(c) : c \in Cases}]))
=============================================================================
