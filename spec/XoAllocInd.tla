---------------------------- MODULE XoAllocInd ----------------------------
EXTENDS Integers, FiniteSets, Apalache
(* Interval form of the allocator contract XoAlloc (free = set of maximal runs, live = set of regions) for an UNBOUNDED
   argument with Apalache: IndInit => IndInv and IndInv /\ Next => IndInv' for unbounded integer capacity, request sizes and
   growth amounts, alignments {1,2,4,8} and at most K free and K live intervals in the pre-state.  It says the DESIGN of a
   first-fit, coalescing allocator is safe for every capacity; the code is bound to that design by vlib/alloc.py. *)
VARIABLES
  \* @type: Int;
  cap,
  \* @type: Set({s: Int, e: Int});
  free,
  \* @type: Set({s: Int, e: Int, a: Int});
  live

K == 4
Aligns == {1, 2, 4, 8}

\* @type: (Int, Int) => Int;
AlignUp(x, a) == ((x + a - 1) \div a) * a

\* @type: ({s: Int, e: Int}, Int, Int) => Bool;
Fits(c, size, a) == AlignUp(c.s, a) + size <= c.e

IndInv ==
  /\ cap >= 0
  /\ \A c \in free : 0 <= c.s /\ c.s < c.e /\ c.e <= cap
  /\ \A r \in live : 0 <= r.s /\ r.s < r.e /\ r.e <= cap /\ r.a \in Aligns /\ r.s % r.a = 0
  /\ \A c, d \in free : c = d \/ c.e < d.s \/ d.e < c.s              \* disjoint and coalesced (never touching)
  /\ \A r, q \in live : r = q \/ r.e <= q.s \/ q.e <= r.s             \* live disjoint
  /\ \A c \in free : \A r \in live : c.e <= r.s \/ r.e <= c.s         \* free/live disjoint

IndInit ==
  /\ cap = Gen(1)
  /\ free = Gen(K)
  /\ live = Gen(K)
  /\ IndInv

Init == cap = 0 /\ free = {} /\ live = {}

AllocFit(size, a) ==
  \E c \in free :
    /\ Fits(c, size, a)
    /\ \A d \in free : Fits(d, size, a) => c.s <= d.s
    /\ LET off == AlignUp(c.s, a) IN
       /\ live' = live \cup {[s |-> off, e |-> off + size, a |-> a]}
       /\ free' = IF off + size = c.e THEN free \ {c}
                  ELSE (free \ {c}) \cup {[s |-> off + size, e |-> c.e]}
       /\ UNCHANGED cap

Grow(n) ==
  /\ n > 0
  /\ cap' = cap + n
  /\ free' = IF \E c \in free : c.e = cap
             THEN {IF c.e = cap THEN [s |-> c.s, e |-> cap + n] ELSE c : c \in free}
             ELSE free \cup {[s |-> cap, e |-> cap + n]}
  /\ UNCHANGED live

FreeR(r) ==
  /\ r \in live
  /\ LET ns == IF \E l \in free : l.e = r.s THEN (CHOOSE l \in free : l.e = r.s).s ELSE r.s
         ne == IF \E n \in free : n.s = r.e THEN (CHOOSE n \in free : n.s = r.e).e ELSE r.e
     IN free' = {c \in free : c.e # r.s /\ c.s # r.e} \cup {[s |-> ns, e |-> ne]}
  /\ live' = live \ {r}
  /\ UNCHANGED cap

Next ==
  \/ \E size \in 1..1000000 : \E a \in Aligns : AllocFit(size, a)
  \/ \E n \in 1..1000000 : Grow(n)
  \/ \E r \in live : FreeR(r)
=============================================================================
