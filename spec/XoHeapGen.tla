------------------------------ MODULE XoHeapGen ------------------------------
(***************************************************************************)
(* Contract-level model of the REFERENCE GRAPH of the abstract heap        *)
(* (XoHeap), small enough for TLC to enumerate EVERY history over the      *)
(* events of properties C08 / C09 / C10:                                   *)
(*   construct, bind-to-existing, bind-to-value, bind-to-foreign-object,   *)
(*   bind-to-null, write-through-reference, write-through-original,        *)
(*   grow, copy (same buffer / other buffer), set a plain field.           *)
(* Type family (mirrored by vlib/heapgen.py):                              *)
(*   Leaf   = Struct{Int64, Float64[:]}                                    *)
(*   Holder = Struct{Int8, r: Ref[Leaf], u: UnionRef[Leaf, Float64[2]][2], String} *)
(* State: objs (sequence of [kind, b]), slot (binding of every reference   *)
(* slot of every holder: 0 = null, else the index of the object it         *)
(* denotes), hist (the events so far).  Values are not modelled here: the  *)
(* replay gives every write a fresh value and XoHeapTrace (with Decode on  *)
(* the real bytes) judges each step; this module supplies the histories    *)
(* and the reference-graph oracle (which object every slot must denote).   *)
(* Invariants: references never leave their buffer; an object created by   *)
(* binding plain data or a foreign object is denoted by no other slot at   *)
(* the moment it is created (independence); copies into another buffer     *)
(* share nothing with the source.                                          *)
(***************************************************************************)
EXTENDS Integers, Sequences, FiniteSets, TLC, Json

CONSTANTS MaxLen, MaxObj, Export
Bufs == {1, 2}
Slots == <<"r", "u1", "u2">>
SlotSet == {"r", "u1", "u2"}

VARIABLES objs, slot, hist
vars == <<objs, slot, hist>>

N == Len(objs)
Leaves(b) == {i \in 1..N : objs[i].kind = "leaf" /\ objs[i].b = b}
Holders == {i \in 1..N : objs[i].kind = "holder"}
NoSlots == [s \in SlotSet |-> 0]

Init == objs = <<>> /\ slot = <<>> /\ hist = <<>>

AddObj(kind, b) == Append(objs, [kind |-> kind, b |-> b])
Log(ev) == hist' = Append(hist, ev)

NewLeaf(b) ==
  /\ N < MaxObj
  /\ objs' = AddObj("leaf", b) /\ slot' = Append(slot, NoSlots)
  /\ Log([op |-> "newleaf", b |-> b])

(* a holder is constructed with its r slot bound in any of the four ways and its union slots null *)
NewHolder(b, c, o) ==
  /\ N + (IF c \in {"new", "foreign"} THEN 2 ELSE 1) <= MaxObj
  /\ c \in {"null", "alias", "new", "foreign"}
  /\ (c = "alias") => o \in Leaves(b)
  /\ (c = "foreign") => o \in Leaves(3 - b)
  /\ (c \in {"null", "new"}) => o = 0
  /\ LET h == N + 1 IN
     IF c \in {"new", "foreign"}
     THEN /\ objs' = Append(AddObj("holder", b), [kind |-> "leaf", b |-> b])
          /\ slot' = Append(Append(slot, [NoSlots EXCEPT !["r"] = h + 1]), NoSlots)
     ELSE /\ objs' = AddObj("holder", b)
          /\ slot' = Append(slot, [NoSlots EXCEPT !["r"] = IF c = "alias" THEN o ELSE 0])
  /\ Log([op |-> "newholder", b |-> b, c |-> c, o |-> o])

Bind(h, s, c, o) ==
  /\ h \in Holders /\ s \in SlotSet
  /\ c \in {"null", "alias", "new", "foreign"}
  /\ (c = "alias") => o \in Leaves(objs[h].b)
  /\ (c = "foreign") => o \in Leaves(3 - objs[h].b)
  /\ (c \in {"null", "new"}) => o = 0
  /\ (c \in {"new", "foreign"}) => N < MaxObj
  /\ IF c \in {"new", "foreign"}
     THEN /\ objs' = AddObj("leaf", objs[h].b)
          /\ slot' = Append([slot EXCEPT ![h][s] = N + 1], NoSlots)
     ELSE /\ objs' = objs
          /\ slot' = [slot EXCEPT ![h][s] = IF c = "alias" THEN o ELSE 0]
  /\ Log([op |-> "bind", h |-> h, s |-> s, c |-> c, o |-> o])

WriteRef(h, s) == /\ h \in Holders /\ slot[h][s] # 0
                  /\ Log([op |-> "writeref", h |-> h, s |-> s]) /\ UNCHANGED <<objs, slot>>
WriteOrig(o) == /\ o \in 1..N /\ objs[o].kind = "leaf"
                /\ Log([op |-> "writeorig", o |-> o]) /\ UNCHANGED <<objs, slot>>
SetPlain(h) == /\ h \in Holders
               /\ Log([op |-> "setplain", h |-> h]) /\ UNCHANGED <<objs, slot>>
Grow(b) == /\ \E i \in 1..N : objs[i].b = b
           /\ Log([op |-> "grow", b |-> b]) /\ UNCHANGED <<objs, slot>>

(* copy-construction of a holder: same buffer keeps the referents, another buffer duplicates each of them *)
CopyHolder(h, b2) ==
  /\ h \in Holders
  /\ LET same == objs[h].b = b2
         bound == {s \in SlotSet : slot[h][s] # 0}
         ord == [s \in SlotSet |-> Cardinality({q \in bound : (q = "r" /\ s # "r") \/ (q = "u1" /\ s = "u2")})]   \* r, u1, u2 order
     IN /\ N + 1 + (IF same THEN 0 ELSE Cardinality(bound)) <= MaxObj
        /\ IF same
           THEN /\ objs' = AddObj("holder", b2)
                /\ slot' = Append(slot, slot[h])
           ELSE LET k == Cardinality(bound)
                    newobjs == [i \in 1..k |-> [kind |-> "leaf", b |-> b2]]
                IN /\ objs' = AddObj("holder", b2) \o newobjs
                   /\ slot' = Append(slot, [s \in SlotSet |-> IF s \in bound THEN N + 1 + ord[s] + 1 ELSE 0]) \o [i \in 1..k |-> NoSlots]
  /\ Log([op |-> "copy", o |-> h, b |-> b2])
CopyLeaf(o, b2) ==
  /\ o \in 1..N /\ objs[o].kind = "leaf" /\ N < MaxObj
  /\ objs' = AddObj("leaf", b2) /\ slot' = Append(slot, NoSlots)
  /\ Log([op |-> "copy", o |-> o, b |-> b2])

Next ==
  /\ Len(hist) < MaxLen
  /\ \/ \E b \in Bufs : NewLeaf(b)
     \/ \E b \in Bufs, c \in {"null", "alias", "new", "foreign"}, o \in 0..N : NewHolder(b, c, o)
     \/ \E h \in Holders, s \in SlotSet, c \in {"null", "alias", "new", "foreign"}, o \in 0..N : Bind(h, s, c, o)
     \/ \E h \in Holders, s \in SlotSet : WriteRef(h, s)
     \/ \E o \in 1..N : WriteOrig(o)
     \/ \E h \in Holders : SetPlain(h)
     \/ \E b \in Bufs : Grow(b)
     \/ \E h \in Holders, b \in Bufs : CopyHolder(h, b)
     \/ \E o \in 1..N, b \in Bufs : CopyLeaf(o, b)
Spec == Init /\ [][Next]_vars

(* ------------------------------ contract-level invariants of the reference graph ------------------------------ *)
RefsStayInBuffer == \A h \in Holders : \A s \in SlotSet : slot[h][s] # 0 => (slot[h][s] \in 1..N /\ objs[slot[h][s]].b = objs[h].b /\ objs[slot[h][s]].kind = "leaf")
(* the object created by the last bind-to-value / bind-to-foreign / other-buffer copy is denoted by exactly one slot *)
FreshIsIndependent ==
  (hist # <<>> /\ hist[Len(hist)].op = "bind" /\ hist[Len(hist)].c \in {"new", "foreign"}) =>
     Cardinality({<<h, s>> \in Holders \X SlotSet : slot[h][s] = N}) = 1
CopySharesNothingAcrossBuffers ==
  \A h1, h2 \in Holders : objs[h1].b # objs[h2].b => \A s1, s2 \in SlotSet : slot[h1][s1] = 0 \/ slot[h1][s1] # slot[h2][s2]

(* export: every maximal history with the reference graph it must end in *)
Exported == (Export /\ Len(hist) = MaxLen) => PrintT(ToJson([hist |-> hist, objs |-> objs, slot |-> slot]))
=============================================================================
