--------------------------- MODULE XoKernelRedecl ---------------------------
(***************************************************************************)
(* C17, the history dimension "which declaration does a call use":         *)
(* a context's kernel table is filled by add_kernels(); adding a kernel    *)
(* under a name that exists REPLACES the earlier kernel (the way a kernel  *)
(* is rebuilt after its source or signature changed).  A call through      *)
(* either access path                                                      *)
(*     ctx.kernels.<name>(...)      (dispatcher)                           *)
(*     ctx.kernels["<name>"](...)   (the kernel object)                    *)
(* must convert its arguments by, and run the function of, the declaration *)
(* added LAST under that name - whatever was declared, looked up or called *)
(* before.                                                                 *)
(*                                                                         *)
(* State: decl[n] = the signature currently declared for name n (0 = not   *)
(* declared), hist = the events.  Signatures are small numbers; the replay *)
(* (vlib/kernelredecl.py) realises each as a C function with its own       *)
(* parameter types and a result that identifies both the function and how  *)
(* the argument was converted.                                             *)
(* Every reachable history is exported with the signature each call must   *)
(* have used.                                                              *)
(***************************************************************************)
EXTENDS Integers, Sequences, TLC, Json

CONSTANTS MaxLen, Names, Sigs, Export

VARIABLES decl, hist
vars == <<decl, hist>>

Init == decl = [n \in Names |-> 0] /\ hist = <<>>

Declare(n, s) == /\ s # decl[n]                                    \* a different declaration under the same (or a new) name
                 /\ decl' = [decl EXCEPT ![n] = s]
                 /\ hist' = Append(hist, [op |-> "declare", n |-> n, s |-> s])
(* several names declared by ONE add_kernels call *)
DeclareAll(s) == /\ \E n \in Names : decl[n] # s
                 /\ decl' = [n \in Names |-> s]
                 /\ hist' = Append(hist, [op |-> "declareall", n |-> "", s |-> s])
Call(n, path) == /\ decl[n] # 0
                 /\ hist' = Append(hist, [op |-> "call", n |-> n, path |-> path, uses |-> decl[n]])
                 /\ UNCHANGED decl
Lookup(n) == /\ decl[n] # 0                                        \* the dispatcher is fetched and kept, not called
             /\ hist' = Append(hist, [op |-> "lookup", n |-> n])
             /\ UNCHANGED decl
(* a call through a dispatcher fetched EARLIER (possibly before the latest declaration) *)
CallKept(n) == /\ decl[n] # 0
               /\ \E i \in 1..Len(hist) : hist[i].op = "lookup" /\ hist[i].n = n
               /\ hist' = Append(hist, [op |-> "callkept", n |-> n, uses |-> decl[n]])
               /\ UNCHANGED decl

Next == /\ Len(hist) < MaxLen
        /\ \/ \E n \in Names, s \in Sigs : Declare(n, s)
           \/ \E s \in Sigs : DeclareAll(s)
           \/ \E n \in Names, p \in {"attr", "item"} : Call(n, p)
           \/ \E n \in Names : Lookup(n)
           \/ \E n \in Names : CallKept(n)
Spec == Init /\ [][Next]_vars

(* contract: every recorded call uses the declaration that is current at that point of the history *)
RECURSIVE DeclAt(_, _)
DeclAt(h, n) == IF h = <<>> THEN 0
                ELSE LET e == h[Len(h)] IN
                     IF e.op = "declare" /\ e.n = n THEN e.s
                     ELSE IF e.op = "declareall" THEN e.s
                     ELSE DeclAt(SubSeq(h, 1, Len(h) - 1), n)
CallsUseLatest == \A i \in 1..Len(hist) : hist[i].op \in {"call", "callkept"} => hist[i].uses = DeclAt(SubSeq(hist, 1, i - 1), hist[i].n)

Exported == (Export /\ hist # <<>> /\ hist[Len(hist)].op \in {"call", "callkept"}) => PrintT(ToJson([hist |-> hist]))
=============================================================================
