------------------------------ MODULE XoAlloc ------------------------------
(***************************************************************************)
(* Contract-level specification of an xobjects buffer allocator            *)
(* (xobjects/context.py: XBuffer.allocate / free / grow).                  *)
(*                                                                         *)
(* State = what a user of the buffer can rely on:                          *)
(*   cap    current capacity in bytes                                      *)
(*   free   the free bytes, held in canonical form as the set of MAXIMAL   *)
(*          runs [s,e) (pairwise disjoint and never touching)              *)
(*   live   regions handed out and not yet given back: [s, e, a]           *)
(*   lost   bytes skipped by alignment rounding (never handed out again)   *)
(*   data   for every live region (keyed by its start) the token its owner  *)
(*          stored there                                                    *)
(*                                                                         *)
(* Properties C04 and C12 are stated below as invariants / action          *)
(* properties of this module.  XoAllocImpl.tla refines it.                 *)
(***************************************************************************)
EXTENDS Integers, Sequences, FiniteSets, TLC

CONSTANTS MaxCap,      \* state constraint for bounded model checking
          InitCap,     \* initial capacity (>= 0)
          Sizes,       \* request sizes explored
          Aligns,      \* alignments explored (1 = packed)
          GrowAmounts, \* growth amounts the environment may choose for an explicit grow()
          Tokens       \* what owners store in their regions

VARIABLES cap, free, live, lost, data

vars == <<cap, free, live, lost, data>>

AlignUp(x, a) == ((x + a - 1) \div a) * a
Run(c) == c.s .. (c.e - 1)
Bytes(S) == UNION {Run(c) : c \in S}
Min(S) == CHOOSE x \in S : \A y \in S : x <= y

(* a run can serve (size, a) iff the aligned start plus size stays inside *)
Fits(c, size, a) == AlignUp(c.s, a) + size <= c.e
Fitting(F, size, a) == {c \in F : Fits(c, size, a)}
(* first fit: the LOWEST-ADDRESSED free run that can hold the request *)
FirstFitRun(F, size, a) == CHOOSE c \in Fitting(F, size, a) : \A d \in Fitting(F, size, a) : c.s <= d.s
FirstFitOffset(F, size, a) == AlignUp(FirstFitRun(F, size, a).s, a)

(* free set after enlarging the buffer from c0 to c1 > c0: new bytes are free and coalesce with a run ending at c0 *)
GrownFree(F, c0, c1) ==
  IF \E c \in F : c.e = c0
  THEN {IF c.e = c0 THEN [s |-> c.s, e |-> c1] ELSE c : c \in F}
  ELSE F \cup {[s |-> c0, e |-> c1]}

(* free set after serving (size,a) from run c at offset off: the part before off is lost, [off,off+size) live, rest stays free *)
FreeAfterAlloc(F, c, off, size) ==
  IF off + size = c.e THEN F \ {c} ELSE (F \ {c}) \cup {[s |-> off + size, e |-> c.e]}

(* free set after giving back [s,e): coalesce with touching neighbours *)
FreeAfterFree(F, s, e) ==
  LET ns == IF \E l \in F : l.e = s THEN (CHOOSE l \in F : l.e = s).s ELSE s
      ne == IF \E n \in F : n.s = e THEN (CHOOSE n \in F : n.s = e).e ELSE e
  IN {c \in F : c.e # s /\ c.s # e} \cup {[s |-> ns, e |-> ne]}

Init ==
  /\ cap = InitCap
  /\ free = IF InitCap > 0 THEN {[s |-> 0, e |-> InitCap]} ELSE {}
  /\ live = {} /\ lost = {} /\ data = [r \in {} |-> 0]

(***************************************************************************)
(* allocate(size, alignment a).  The buffer may be enlarged to newcap, but *)
(* ONLY when no free run can hold the request (GrowOnlyIfNeeded); the      *)
(* amount is left to the implementation.  The request is then served       *)
(* first-fit from the (possibly enlarged) free set.  size = 0 requests     *)
(* are only required to return an in-bounds aligned offset and leave the   *)
(* accounting alone (the contract does not say where).                     *)
(***************************************************************************)
Allocate(size, a, newcap, tok) ==
  /\ size > 0
  /\ newcap >= cap
  /\ (newcap > cap) => Fitting(free, size, a) = {}            \* grow only if needed
  /\ LET F1 == IF newcap > cap THEN GrownFree(free, cap, newcap) ELSE free IN
     /\ Fitting(F1, size, a) # {}                                \* the request is served
     /\ LET c == FirstFitRun(F1, size, a)
            off == AlignUp(c.s, a)
            r == [s |-> off, e |-> off + size, a |-> a]
        IN /\ free' = FreeAfterAlloc(F1, c, off, size)
           /\ lost' = lost \cup (c.s .. (off - 1))
           /\ live' = live \cup {r}
           /\ data' = [x \in DOMAIN data \cup {off} |-> IF x = off THEN tok ELSE data[x]]
  /\ cap' = newcap

Free(r) ==
  /\ r \in live
  /\ free' = FreeAfterFree(free, r.s, r.e)
  /\ live' = live \ {r}
  /\ data' = [x \in DOMAIN data \ {r.s} |-> data[x]]
  /\ UNCHANGED <<cap, lost>>

Grow(n) ==
  /\ n > 0
  /\ cap' = cap + n
  /\ free' = GrownFree(free, cap, cap + n)
  /\ UNCHANGED <<live, lost, data>>

Next ==
  \/ \E size \in Sizes, a \in Aligns, nc \in cap..MaxCap, tok \in Tokens : Allocate(size, a, nc, tok)
  \/ \E r \in live : Free(r)
  \/ \E n \in GrowAmounts : cap + n <= MaxCap /\ Grow(n)

Spec == Init /\ [][Next]_vars

(************************** properties: C04 **************************)
LiveBytes == UNION {Run(r) : r \in live}
FreeBytes == Bytes(free)
Disjoint == \A r, q \in live : r # q => Run(r) \cap Run(q) = {}
InBounds == \A r \in live : 0 <= r.s /\ r.e <= cap
Aligned == \A r \in live : r.s % r.a = 0
DataKept == DOMAIN data = {r.s : r \in live}
(* bytes of a live region are never changed by a later request *)
DataPreserved == [][\A r \in live : r \in live' => data'[r.s] = data[r.s]]_vars

(************************** properties: C12 **************************)
CanonicalFree == /\ \A c \in free : 0 <= c.s /\ c.s < c.e /\ c.e <= cap
                 /\ \A c, d \in free : c = d \/ c.e < d.s \/ d.e < c.s
Accounting == /\ FreeBytes \cup LiveBytes \cup lost = 0 .. (cap - 1)
              /\ FreeBytes \cap LiveBytes = {} /\ FreeBytes \cap lost = {} /\ LiveBytes \cap lost = {}
GetFree == Cardinality(FreeBytes)
CapMonotone == [][cap' >= cap]_vars
FreeAlwaysEnabled == \A r \in live : ENABLED Free(r)
(* a request is always served when the environment may grow enough *)
AllocAlwaysEnabled == \A size \in Sizes, a \in Aligns :
                        (cap + size + a <= MaxCap) => ENABLED (\E nc \in cap..MaxCap, tok \in Tokens : Allocate(size, a, nc, tok))
(* freed neighbours can serve one larger request: after Free the free set is canonical, which is CanonicalFree *)
=============================================================================
