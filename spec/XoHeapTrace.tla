---------------------------- MODULE XoHeapTrace ----------------------------
(***************************************************************************)
(* Trace validation of recorded executions of the REAL typed layer of      *)
(* xobjects against the abstract heap XoHeap, with XoLayout!Decode /WF     *)
(* evaluated by TLC on the real buffer bytes as refinement mapping.        *)
(*                                                                         *)
(* Input (env TRACE_FILE): a sequence of histories [nbuf, steps].  Every   *)
(* step is logged at the return of a public operation (also on the error   *)
(* path) with: op and its arguments, cap (capacity of every buffer),       *)
(* memd (runs <<b, start, bytes>> covering every byte that changed and     *)
(* every byte added by growth), alloc / free (regions <<b, start, size>>   *)
(* handed out / given back by the buffers' allocate/free during the step), *)
(* reads (the value of heap objects as read back through the library's     *)
(* own accessors by a named route), exc.                                   *)
(* Each step computes the abstract post-state with the XoHeap operators,   *)
(* binds mem' from the log and evaluates the clauses below; the verdict    *)
(* names every clause that fails at the FIRST failing step (the history is *)
(* abandoned there: the abstract state can no longer be trusted).          *)
(* Clause prefixes (the harness maps (op, prefix) to the owning property): *)
(*   fmt:  bytes do not follow the documented format        (C05)          *)
(*   nest: part outside its parent / siblings overlap       (C03)          *)
(*   size: reported size / allocated extent                 (C03)          *)
(*   frame: bytes changed outside what the operation may touch (C03, C10)  *)
(*   decode: value decoded from the bytes differs           (C05 / C09 / C20)*)
(*   ref:  reference semantics                              (C08 / C09)    *)
(*   set:  assignment semantics                             (C10)          *)
(*   err:  operation that cannot be honoured                (C11)          *)
(*   read: value read through the library differs           (C01 / C06 / ..)*)
(***************************************************************************)
EXTENDS XoHeap, Json, IOUtils, TLCExt

Hist == JsonDeserialize(IOEnv.TRACE_FILE)

VARIABLES tid, l, mem, reg, heap, done
tvars == <<tid, l, mem, reg, heap, done>>

Steps(t) == Hist[t].steps
NB(t) == Hist[t].nbuf

RECURSIVE Join(_)
Join(s) == IF s = <<>> THEN "" ELSE IF Len(s) = 1 THEN s[1] ELSE s[1] \o ";" \o Join(Tail(s))
NonEmpty(s) == SelectSeq(s, LAMBDA x : x # "")

(* ------------------------------ memory, registry ------------------------------ *)
(* mem' is built as CONCRETE sequences (splicing run by run): a function constructor [x \in .. |-> ..] would stay *)
(* lazy in TLC and be re-evaluated on every byte access                                                            *)
RECURSIVE ApplyRuns(_, _, _, _)
ApplyRuns(m, e, b, r) ==
  IF r > Len(e.memd) THEN m
  ELSE IF e.memd[r][1] # b THEN ApplyRuns(m, e, b, r + 1)
  ELSE LET st == e.memd[r][2]
           bytes == e.memd[r][3]
           grown == IF st + Len(bytes) > Len(m) THEN m \o [i \in 1..(st + Len(bytes) - Len(m)) |-> -1] ELSE m
       IN ApplyRuns(SubSeq(grown, 1, st) \o bytes \o SubSeq(grown, st + Len(bytes) + 1, Len(grown)), e, b, r + 1)
NewMem(m, e, b) == LET x == ApplyRuns(m[b], e, b, 1)
                   IN IF Len(x) < e.cap[b] THEN x \o [i \in 1..(e.cap[b] - Len(x)) |-> -1] ELSE x
RECURSIVE BuildMem(_, _, _)
BuildMem(m, e, k) == IF k = 0 THEN <<>> ELSE Append(BuildMem(m, e, k - 1), NewMem(m, e, k))
ApplyMem(m, e) == BuildMem(m, e, Len(m))
(* positions of EXISTING bytes that changed *)
Chg(m, e) == UNION {{<<e.memd[r][1], x>> : x \in {y \in e.memd[r][2]..(e.memd[r][2] + Len(e.memd[r][3]) - 1) : y < Len(m[e.memd[r][1]])}} : r \in 1..Len(e.memd)}
Regions(rs) == UNION {{<<rs[i][1], x>> : x \in rs[i][2]..(rs[i][2] + rs[i][3] - 1)} : i \in 1..Len(rs)}
RegSet(rs, b) == {<<rs[i][2], rs[i][3]>> : i \in {j \in 1..Len(rs) : rs[j][1] = b}}
ApplyReg(rg, e) == [b \in 1..Len(rg) |-> (rg[b] \cup RegSet(e.alloc, b)) \ RegSet(e.free, b)]
ExtentOf(m, o) == LET sz == SizeAt(o.t, m[o.b], o.a) IN {<<o.b, x>> : x \in o.a..(o.a + sz - 1)}

(* ------------------------------ reads through the library ------------------------------ *)
(* stale: objects <<b, a>> whose layout was just redistributed by an in-place update made through ANOTHER handle: what a   *)
(* retained constructor handle (which caches the offsets of its dynamic parts) then reads wrongly is one named clause.        *)
ReadClausesS(hp, m, e, stale) ==
  NonEmpty([i \in 1..Len(e.reads) |->
     LET r == e.reads[i] IN
     IF ~InHeap(hp, r.b, r.a) THEN "read:" \o r.route \o ":unknown-object"
     ELSE IF Cardinality({x \in hp : x.b = r.b /\ x.a = r.a}) > 1
     THEN "alloc:two-objects-at-one-address"        \* (storage of a live object was handed out again: the read-back has no single type)
     ELSE LET o == HeapAt(hp, r.b, r.a) IN
          IF <<r.b, r.a>> \in stale /\ r.route \in {"ctor", "hybrid"} /\ (r.exc # "" \/ r.v # o.v)
          THEN "stale:retained-handle-after-redistributing-update-through-another-view"
          ELSE IF r.exc # "" THEN "read:" \o r.route \o ":raised:" \o r.exc
          ELSE IF Mask(o.t, r.v) # Mask(o.t, o.v) THEN "read:" \o r.route \o ":value@" \o Where(o.t, Mask(o.t, o.v), Mask(o.t, r.v))
          ELSE IF r.v # o.v THEN "read:" \o r.route \o ":ref"
          ELSE IF r.size >= 0 /\ r.size # SizeAt(o.t, m[o.b], o.a) THEN "read:" \o r.route \o ":size"
          ELSE IF o.t.k = "arr" /\ r.strides # <<>> /\ NItems(o.v.sh) > 0 /\ r.strides # Strides(o.t, o.v.sh, ItemW(o.t)) THEN "read:" \o r.route \o ":strides"
          ELSE ""])
ReadClauses(hp, m, e) == ReadClausesS(hp, m, e, {})

(* ------------------------------ construct (and copy) ------------------------------ *)
NewObjects(b, t, inp, m, a) ==
  {[b |-> b, a |-> a, t |-> t, v |-> Resolve(t, inp, m[b], a)]} \cup
  {[b |-> b, a |-> n.a, t |-> n.t, v |-> Resolve(n.t, n.inp, m[b], n.a)] : n \in News(t, inp, m[b], a)}

NewTargetClauses(b, news, m, e) ==      \* clauses about the referents an operation creates
  LET mb == m[b]
      wfs == {WF(n.t, mb, n.a) : n \in news} \ {""}
  IN IF wfs # {} THEN <<"ref:new-target-" \o (CHOOSE x \in wfs : TRUE)>>
     ELSE NonEmpty(<<
       IF \E n \in news : <<n.a, SizeAt(n.t, mb, n.a)>> \notin RegSet(e.alloc, b) THEN "ref:new-target-not-a-fresh-allocation" ELSE "",
       IF \E n \in news : Decode(n.t, mb, n.a) # Resolve(n.t, n.inp, mb, n.a) THEN "ref:new-target-value" ELSE "",
       IF Cardinality({n.a : n \in news}) # Cardinality(news) THEN "ref:new-targets-share-storage" ELSE "" >>)

ConstructClauses(pfx, b, a, t, inp, e, m1) ==
  LET mb == m1[b]
      wf == WF(t, mb, a)
  IN IF wf # "" THEN <<wf>>
     ELSE LET news == News(t, inp, mb, a)
              nt == NewTargetClauses(b, news, m1, e)
              dec == Decode(t, mb, a)
              exp == Resolve(t, inp, mb, a)
          IN NonEmpty(<<
               IF ~(Chg(mem, e) \subseteq Regions(e.alloc)) THEN "frame:construct-wrote-outside-reserved" ELSE "",
               IF <<a, SizeAt(t, mb, a)>> \notin RegSet(e.alloc, b) THEN "size:extent-is-not-the-allocated-region" ELSE "",
               IF e.size >= 0 /\ e.size # SizeAt(t, mb, a) THEN "size:reported-size" ELSE "",
               IF Mask(t, dec) # Mask(t, exp) THEN pfx \o "decode:value@" \o Where(t, Mask(t, exp), Mask(t, dec)) ELSE IF dec # exp THEN pfx \o "ref:word" ELSE "",
               IF news # {} /\ \E n \in news : n.a = a THEN "ref:new-targets-share-storage" ELSE "" >>) \o nt

(* ------------------------------ all objects an operation touched still decode to their value ------------------------------ *)
Touched(m0, m1, e, o) == \E p \in Chg(m0, e) : p[1] = o.b /\ p[2] >= o.a /\ p[2] < o.a + (IF SizeAt(o.t, m0[o.b], o.a) = Bad THEN 0 ELSE SizeAt(o.t, m0[o.b], o.a))
ObjClause(m1, o) == LET wf == WF(o.t, m1[o.b], o.a) IN
                    IF wf # "" THEN wf ELSE IF Decode(o.t, m1[o.b], o.a) # o.v THEN "changed" ELSE ""

(* ------------------------------ one step ------------------------------ *)
(* returns [cl |-> sequence of failing clauses, hp |-> heap'] *)
StepResult(e, m1, rg1) ==
  CASE e.op \in {"noise", "grow"} ->
         LET bad == {o \in heap : Touched(mem, m1, e, o) /\ ObjClause(m1, o) # ""} IN
         [cl |-> NonEmpty(<<IF ~(Chg(mem, e) \subseteq Regions(e.alloc)) THEN "frame:" \o e.op \o "-changed-bytes" ELSE "",
                            IF bad # {} THEN e.op \o ":object-" \o ObjClause(m1, CHOOSE o \in bad : TRUE) ELSE "">>) \o ReadClauses(heap, m1, e),
          hp |-> heap]
    [] e.op = "new" /\ InHeap(heap, e.b, e.a) ->        \* the library placed the object on top of a live one: nothing else can be judged
         [cl |-> <<"alloc:object-placed-on-a-live-object">>, hp |-> heap]
    [] e.op = "new" ->
         LET val == Norm(heap, e.t, e.val)
             cl == ConstructClauses("", e.b, e.a, e.t, val, e, m1)
             hp == heap \cup NewObjects(e.b, e.t, val, m1, e.a)
             \* a referent "created" at the address of an object that already exists (of another type): nothing can be read back
             \* consistently; the construction clauses say what went wrong
             clash == \E x \in hp, y \in hp : x.b = y.b /\ x.a = y.a /\ x # y
         IN [cl |-> IF clash THEN (IF cl # <<>> THEN cl ELSE <<"ref:new-target-on-a-live-object">>)
                    ELSE IF cl # <<>> THEN cl \o ReadClauses(hp, m1, e)
                    ELSE NonEmpty(<<IF ~RefsResolve(hp) THEN "ref:dangling" ELSE "">>) \o ReadClauses(hp, m1, e),
             hp |-> IF clash THEN heap ELSE hp]
    [] e.op = "copy" /\ e.exc = "" /\ InHeap(heap, e.b, e.a) ->
         [cl |-> <<"alloc:object-placed-on-a-live-object">>, hp |-> heap]
    [] e.op = "copy" ->
         LET src0 == HeapAt(heap, e.src[1], e.src[2])
             \* the source may be a nested compound part of a heap object (a view): spath is the local path to it
             sp == IF "spath" \in DOMAIN e THEN e.spath ELSE <<>>
             src == [b |-> src0.b, a |-> Nav(src0.t, mem[src0.b], src0.a, sp).a, t |-> ElemType(src0.t, sp), v |-> GetAt(src0.t, src0.v, sp)]
             inp == AsCopyInput(heap, src.t, src.v, src.b, src.b = e.b)
             cl == ConstructClauses("copy-", e.b, e.a, src.t, inp, e, m1)
             hp == heap \cup NewObjects(e.b, src.t, inp, m1, e.a)
         IN [cl |-> IF e.exc # "" THEN <<"copy-raised">>
                    ELSE IF cl # <<>> THEN cl
                    ELSE NonEmpty(<<IF ~RefsResolve(hp) THEN "ref:dangling" ELSE "",
                                    IF ExtentOf(m1, [b |-> e.b, a |-> e.a, t |-> src.t]) \cap ExtentOf(m1, src) # {} THEN "copy-overlaps-source" ELSE "">>)
                         \o ReadClauses(hp, m1, e),
             hp |-> hp]
    [] e.op = "set" ->
         LET own == Owner(heap, e.b, e.a, e.path)
             o == HeapAt(heap, e.b, own.a)
             lp == own.lp
             el == ElemType(o.t, lp)
             m0 == mem[e.b]
             mb == m1[e.b]
             ea == Nav(o.t, m0, o.a, lp).a
             esz == SizeAt(el, m0, ea)
             elext == {<<e.b, x>> : x \in ea..(ea + esz - 1)}
             ch == Chg(mem, e)
             val == IF "from" \in DOMAIN e       \* the assigned value is an existing object of the element's type (any buffer)
                    THEN LET src == HeapAt(heap, e.from[1], e.from[2]) IN AsCopyInput(heap, src.t, src.v, src.b, src.b = e.b)
                    ELSE Norm(heap, el, e.val)
             news == News(el, val, mb, ea)
             nv == Resolve(el, val, mb, ea)
             o1 == [o EXCEPT !.v = SetAt(o.t, o.v, lp, nv)]
             hp == (heap \ {o}) \cup {o1} \cup {[b |-> e.b, a |-> n.a, t |-> n.t, v |-> Resolve(n.t, n.inp, mb, n.a)] : n \in news}
             wfo == WF(o.t, mb, o.a)
         IN [cl |->
              IF e.exc # "" THEN <<"set:raised">>
              ELSE IF wfo # "" THEN NonEmpty(<<IF ~(ch \subseteq (ExtentOf(mem, o) \cup Regions(e.alloc))) THEN "frame:set-wrote-outside-object" ELSE "">>) \o <<"set:" \o wfo>>
              ELSE LET nt == NewTargetClauses(e.b, news, m1, e)
                       \* bytes changed INSIDE the object but outside the element are judged by their effect (values, sizes, shapes and
                       \* references of every other part, below): padding that belongs to no part may be rewritten
                       fr == IF ~(ch \subseteq (ExtentOf(mem, o) \cup Regions(e.alloc))) THEN "frame:set-wrote-outside-object" ELSE ""
                       deco == Decode(o.t, mb, o.a)
                       got == GetAt(o.t, deco, lp)
                       others == {p \in heap \ {o} : Touched(mem, m1, e, p) /\ ObjClause(m1, p) # ""}
                   IN NonEmpty(<<
                        fr,
                        IF Mask(el, got) # Mask(el, nv) THEN "set:element-value@" \o Where(el, Mask(el, nv), Mask(el, got)) ELSE IF got # nv THEN "ref:word" ELSE "",
                        IF got = nv /\ deco # o1.v THEN "set:other-element-changed" ELSE "",
                        \* the assigned element keeps its stored size and shape (what lies INSIDE a compound value that was assigned
                        \* as a whole belongs to the new value: item sizes may be distributed differently)
                        IF TopSkel(el, mb, ea) # TopSkel(el, m0, ea) THEN (IF el.k = "str" THEN "set:string-box-size-changed" ELSE "set:size-or-shape-changed") ELSE "",
                        IF others # {} THEN "set:other-object-changed" ELSE "",
                        IF ~RefsResolve(hp) THEN "ref:dangling" ELSE "">>) \o nt
                      \o ReadClausesS(hp, m1, e, IF lp = <<>> /\ e.path = <<>> /\ e.route # "ctor" /\ Skel(o.t, mb, o.a) # Skel(o.t, m0, o.a) THEN {<<e.b, o.a>>} ELSE {}),
             hp |-> hp]
    [] e.op = "err" ->
         LET bad == {o \in heap : Touched(mem, m1, e, o) /\ ObjClause(m1, o) # ""}
             \* what the refused (or wrongly accepted) operation left behind is no longer a well-formed object: the format / nesting
             \* clause is named as well (it belongs to the properties about the format and the extents, not only to C11)
             wfs == {WF(o.t, m1[o.b], o.a) : o \in {p \in heap : Touched(mem, m1, e, p)}} \ {""}
         IN
         [cl |-> NonEmpty(<<IF e.exc = "" THEN "err:not-raised" ELSE "",
                            IF bad # {} THEN "err:value-of-existing-object-changed" ELSE "",
                            IF wfs # {} THEN CHOOSE x \in wfs : TRUE ELSE "">>) \o ReadClauses(heap, m1, e),
          hp |-> heap]

(* ------------------------------ pickle (C20) ------------------------------ *)
(* group: <<ob, oa, nb, na>> old object -> unpickled twin.  The twin relation is extended along references    *)
(* (old referent -> the address the twin's reference decodes to); nothing is assumed about where the copies    *)
(* land, only that the relation is a bijection on objects and that values are equal.                           *)
PStep(m1, x) ==
  LET o == HeapAt(heap, x.ob, x.oa)
      d == Decode(o.t, m1[x.nb], x.na)
  IN {[ob |-> x.ob, oa |-> p[1].at, nb |-> x.nb, na |-> p[2].at, t |-> TargetType(p[3], p[1].tid)] :
        p \in {q \in RefPairs(o.t, o.v, d) : ~q[1].null /\ ~q[2].null /\ q[1].tid = q[2].tid}}
RECURSIVE PClosure(_, _, _)
PClosure(m1, S, n) ==
  IF n = 0 THEN S
  ELSE LET ok == {x \in S : InHeap(heap, x.ob, x.oa) /\ WF(x.t, m1[x.nb], x.na) = ""}
           S2 == S \cup UNION {PStep(m1, x) : x \in ok}
       IN IF S2 = S THEN S ELSE PClosure(m1, S2, n - 1)
PickleResult(e, m1) ==
  LET G == {[ob |-> e.group[i][1], oa |-> e.group[i][2], nb |-> e.group[i][3], na |-> e.group[i][4],
             t |-> HeapAt(heap, e.group[i][1], e.group[i][2]).t] : i \in 1..Len(e.group)}
      C == PClosure(m1, G, 8)
      wfs == {WF(x.t, m1[x.nb], x.na) : x \in C} \ {""}
      twin(x) == Decode(x.t, m1[x.nb], x.na)
      orig(x) == HeapAt(heap, x.ob, x.oa)
  IN [cl |-> IF e.exc # "" THEN <<"pickle:raised">>
             ELSE IF \E x \in G : Len(mem[x.nb]) # 0 THEN <<"pickle:not-a-fresh-buffer">>
             ELSE IF wfs # {} THEN <<"pickle:" \o (CHOOSE w \in wfs : TRUE)>>
             ELSE NonEmpty(<<
               IF \E x \in C : Mask(x.t, twin(x)) # Mask(x.t, orig(x).v)
                 THEN LET x == CHOOSE x \in C : Mask(x.t, twin(x)) # Mask(x.t, orig(x).v) IN "pickle:value@" \o Where(x.t, Mask(x.t, orig(x).v), Mask(x.t, twin(x))) ELSE "",
               IF \E x \in C : \E p \in RefPairs(x.t, orig(x).v, twin(x)) : p[1].null # p[2].null \/ p[1].tid # p[2].tid THEN "pickle:ref" ELSE "",
               IF \E x, y \in C : x.ob = y.ob /\ x.oa = y.oa /\ ~(x.nb = y.nb /\ x.na = y.na) THEN "pickle:sharing-lost" ELSE "",
               IF \E x, y \in C : x.nb = y.nb /\ x.na = y.na /\ ~(x.ob = y.ob /\ x.oa = y.oa) THEN "pickle:objects-merged" ELSE "",
               IF \E x, y \in G : (x.ob = y.ob) # (x.nb = y.nb) THEN "pickle:buffer-sharing" ELSE "" >>),
      hp |-> heap \cup {[b |-> x.nb, a |-> x.na, t |-> x.t, v |-> twin(x)] : x \in {y \in C : WF(y.t, m1[y.nb], y.na) = ""}}]
PickleReg(e) == [b \in 1..Len(reg) |->
                   IF \E i \in 1..Len(e.group) : e.group[i][3] = b
                   THEN reg[e.group[CHOOSE i \in 1..Len(e.group) : e.group[i][3] = b][1]] ELSE reg[b]]

(* every region handed out by allocate is disjoint from every region that is live *)
AllocClauses(e) ==
  NonEmpty(<<IF \E i \in 1..Len(e.alloc) : e.alloc[i][3] > 0 /\
                 \E r \in (reg[e.alloc[i][1]] \ RegSet(e.free, e.alloc[i][1])) :
                    r[2] > 0 /\ Overl(e.alloc[i][2], e.alloc[i][2] + e.alloc[i][3], r[1], r[1] + r[2])
             THEN "alloc:overlaps-live-region" ELSE "">>)

(* storage of a live object is never given back to the allocator (it would be handed out again on top of the object) *)
FreeClauses(e, hp, m1) ==
  NonEmpty(<<IF \E i \in 1..Len(e.free) : e.free[i][3] > 0 /\
                 \E o \in hp : o.b = e.free[i][1] /\ SizeAt(o.t, m1[o.b], o.a) # Bad /\
                    Overl(e.free[i][2], e.free[i][2] + e.free[i][3], o.a, o.a + SizeAt(o.t, m1[o.b], o.a))
             THEN "free:live-object-freed" ELSE "">>)

TraceInit ==
  /\ tid \in 1..Len(Hist)
  /\ l = 1 /\ done = FALSE
  /\ mem = [b \in 1..NB(tid) |-> <<>>]
  /\ reg = [b \in 1..NB(tid) |-> {}]
  /\ heap = {}

TraceStep ==
  /\ ~done /\ l <= Len(Steps(tid))
  /\ LET e == Steps(tid)[l]
         m1 == ApplyMem(mem, e)
         rg1 == IF e.op = "pickle" THEN PickleReg(e) ELSE ApplyReg(reg, e)
         res0 == IF e.op = "pickle" THEN PickleResult(e, m1) ELSE StepResult(e, m1, rg1)
         res == [cl |-> AllocClauses(e) \o FreeClauses(e, res0.hp, m1) \o res0.cl \o (IF e.op = "pickle" THEN ReadClauses(res0.hp, m1, e) ELSE <<>>), hp |-> res0.hp]
     IN /\ mem' = m1 /\ reg' = rg1 /\ heap' = res.hp
        /\ IF res.cl # <<>>
           THEN /\ PrintT(<<"VERDICT", tid, l, Join(res.cl)>>) /\ done' = TRUE /\ l' = l
           ELSE /\ done' = FALSE /\ l' = l + 1
  /\ UNCHANGED tid

TraceDone ==
  /\ ~done /\ l = Len(Steps(tid)) + 1
  /\ PrintT(<<"VERDICT", tid, l, "">>)
  /\ done' = TRUE /\ UNCHANGED <<tid, l, mem, reg, heap>>

TraceNext == TraceStep \/ TraceDone
TraceSpec == TraceInit /\ [][TraceNext]_tvars
=============================================================================
