----------------------------- MODULE XoSortTrace -----------------------------
(***************************************************************************)
(* Validation of REAL xobjects behaviour against the CONTRACT of XoSort    *)
(* (PART 1 of XoSort.tla; the implementation-shaped model plays no role    *)
(* here, ANY valid order is accepted).                                     *)
(* Input: JSON file (env TRACE_FILE), a sequence of records, one per case: *)
(*   n      number of classes of the case (classes are 1..n)               *)
(*   deps   per class the dependency entries [target, kind] the real class *)
(*          was BUILT with (kind in DepKinds: field / item / ref / member  *)
(*          / declared)                                                    *)
(*   api    per class 1 iff the real object has _gen_c_api                 *)
(*   roots  the list handed to the library                                 *)
(*   k,res  outcome of the real xo.context.sort_classes(roots): "ok" and   *)
(*          the returned classes (0 = an object that is no class of the    *)
(*          case), or "error" (it raised)                                  *)
(*   sk,ev  outcome of the real source assembly for the same roots         *)
(*          (ContextCpu.build_kernels(..., compile=False)): "ok" and the   *)
(*          events read off the assembled source in textual order,         *)
(*          [0, c] = the typedef of class c is emitted here, [1, c] = the  *)
(*          type name of class c is used here; "error" = it raised;        *)
(*          "none" = not recorded                                          *)
(* Output: one line <<"VERDICT", tid, sort clause, witness class, source   *)
(*         clause, witness class>> per record ("" = the contract holds).   *)
(***************************************************************************)
EXTENDS Integers, Sequences, FiniteSets, TLC, Json, IOUtils

(* the contract operators of XoSort; its model constants and variables are not used *)
S == INSTANCE XoSort WITH N <- 0, MaxDeps <- 0, DepMode <- "lists", SelfDeps <- FALSE, MaxRoots <- 0, DupRoots <- FALSE, ApiAll <- FALSE, Shape <- "any",
                          SplitModes <- {}, Fixed <- TRUE, NParts <- 1, Part <- 0, case <- 0, st <- 0

Cases == JsonDeserialize(IOEnv.TRACE_FILE)

VARIABLES tid, done
tvars == <<tid, done>>

D(t) == [c \in 1..t.n |-> [x \in 1..Len(t.deps[c]) |-> t.deps[c][x][1]]]
A(t) == [c \in 1..t.n |-> t.api[c] = 1]
WellFormed(t) == /\ Len(t.deps) = t.n /\ Len(t.api) = t.n
                 /\ \A c \in 1..t.n : \A x \in 1..Len(t.deps[c]) : t.deps[c][x][1] \in 1..t.n /\ t.deps[c][x][2] \in S!DepKinds
                 /\ \A x \in 1..Len(t.roots) : t.roots[x] \in 1..t.n

SortClause(t) == S!Clause(D(t), A(t), t.roots, [k |-> t.k, res |-> t.res])
SortWitness(t) == S!Witness(D(t), A(t), t.roots, [k |-> t.k, res |-> t.res])

(* the assembled source: every wanted API defined exactly once, nothing else of the case defined, no use before the definition *)
Defs(t, c) == {x \in 1..Len(t.ev) : t.ev[x][1] = 0 /\ t.ev[x][2] = c}
UsedEarly(t) == {x \in 1..Len(t.ev) : t.ev[x][1] = 1 /\ ~\E y \in 1..(x - 1) : t.ev[y][1] = 0 /\ t.ev[y][2] = t.ev[x][2]}
SrcClause(t) ==
  LET want == S!Wanted(D(t), A(t), t.roots) IN
  IF t.sk = "none" THEN ""
  ELSE IF S!Cyclic(D(t), t.roots) THEN (IF t.sk = "ok" THEN "cycle-produced-source" ELSE "")
  ELSE IF t.sk # "ok" THEN "error-on-acyclic-graph"
  ELSE IF \E c \in want : Cardinality(Defs(t, c)) > 1 THEN "emitted-twice"
  ELSE IF \E c \in want : Defs(t, c) = {} THEN "not-emitted"
  ELSE IF \E c \in (1..t.n) \ want : Defs(t, c) # {} THEN "emitted-unneeded"
  ELSE IF UsedEarly(t) # {} THEN "used-before-emitted"
  ELSE ""
SrcWitness(t) ==
  LET want == S!Wanted(D(t), A(t), t.roots)
      cl == SrcClause(t) IN
  CASE cl = "emitted-twice" -> CHOOSE c \in want : Cardinality(Defs(t, c)) > 1
    [] cl = "not-emitted" -> CHOOSE c \in want : Defs(t, c) = {}
    [] cl = "emitted-unneeded" -> CHOOSE c \in (1..t.n) \ want : Defs(t, c) # {}
    [] cl = "used-before-emitted" -> t.ev[CHOOSE x \in UsedEarly(t) : TRUE][2]
    [] OTHER -> 0

TraceInit == tid \in 1..Len(Cases) /\ done = FALSE
TraceNext ==
  /\ ~done /\ done' = TRUE /\ UNCHANGED tid
  /\ LET t == Cases[tid] IN
     IF WellFormed(t) THEN PrintT(<<"VERDICT", tid, SortClause(t), SortWitness(t), SrcClause(t), SrcWitness(t)>>)
     ELSE PrintT(<<"VERDICT", tid, "malformed-record", 0, "malformed-record", 0>>)
TraceSpec == TraceInit /\ [][TraceNext]_tvars
=============================================================================
