------------------------------- MODULE XoPlace -------------------------------
(***************************************************************************)
(* Where a constructor puts a new object: the decision table behind        *)
(*   T(value, _context = c, _buffer = b, _offset = o)                      *)
(* (xobjects/typeutils.py: allocate_on_buffer / get_a_buffer), as the      *)
(* documentation and properties C01 / C11 state it:                        *)
(*   no buffer:  an explicit offset cannot be honoured (C11: "an explicit  *)
(*               offset without a buffer"); otherwise the object goes into *)
(*               a FRESH buffer of the given (or the default) context      *)
(*   buffer:     a context other than the buffer's cannot be honoured      *)
(*               (C11: "a buffer that belongs to a different context");    *)
(*               otherwise the object goes into THAT buffer: at the        *)
(*               requested offset (no allocation), or at an allocated      *)
(*               offset that is aligned (default, "aligned") or the lowest *)
(*               free byte that fits ("packed")                            *)
(* An operation that cannot be honoured raises and changes nothing.        *)
(*                                                                         *)
(* Arguments: ctx \in {"none","own","other"} (own = the context of the     *)
(* given buffer, or - without a buffer - simply "a context"),              *)
(* buf \in {"none","given"}, off \in {"none","aligned","packed","int"}.    *)
(*                                                                         *)
(* TLC enumerates the table (Cases; the model-level statement is that the  *)
(* table is total and that the two refusals are exactly the combinations   *)
(* the property names) and validates recorded real constructions (env      *)
(* TRACE_FILE) against it: record = the arguments plus what was observed   *)
(*   raised, where ("given" | "fresh" | "existing" | "-"), fctx (context   *)
(*   of a fresh buffer: "own" | "other" | "unknown"), offok (requested     *)
(*   offset / alignment / lowest fitting byte respected), allocs (calls of *)
(*   allocate on the given buffer), newbufs, changed (bytes of             *)
(*   pre-existing buffers that differ outside the new object), readback    *)
(*   (the new object reads back the value it was built from)               *)
(***************************************************************************)
EXTENDS Integers, Sequences, TLC, Json, IOUtils, TLCExt

Ctxs == {"none", "own", "other"}
Bufs == {"none", "given"}
Offs == {"none", "aligned", "packed", "int"}
Cases == [ctx : Ctxs, buf : Bufs, off : Offs]

Expected(c) == IF c.buf = "none" THEN (IF c.off # "none" THEN "error" ELSE "fresh")
               ELSE IF c.ctx = "other" THEN "error" ELSE "given"

(* model level: total, and the refusals are exactly the two named misuses *)
TableIsTotal == \A c \in Cases : Expected(c) \in {"error", "fresh", "given"}
RefusalsAreTheNamedOnes ==
  \A c \in Cases : Expected(c) = "error" <=> ((c.buf = "none" /\ c.off # "none") \/ (c.buf = "given" /\ c.ctx = "other"))

Clause(r) ==
  LET e == Expected(r) IN
  IF e = "error"
  THEN IF ~r.raised THEN "place:err:not-refused:" \o (IF r.buf = "none" THEN "offset-without-buffer" ELSE "buffer-of-another-context") \o ":offset-" \o r.off
       ELSE IF r.changed > 0 \/ r.allocs > 0 \/ r.newbufs > 0 THEN "place:err:refused-with-side-effects" ELSE ""
  ELSE IF r.raised THEN "place:ok:refused-although-valid:" \o r.ctx \o "/" \o r.buf \o "/" \o r.off
  ELSE IF e = "fresh"
       THEN IF r.where # "fresh" THEN "place:ok:not-a-fresh-buffer"
            ELSE IF r.ctx # "none" /\ r.fctx # r.ctx THEN "place:ok:fresh-buffer-of-another-context"
            ELSE IF r.changed > 0 THEN "place:ok:other-bytes-changed"
            ELSE IF ~r.readback THEN "place:ok:value" ELSE ""
  ELSE IF r.where # "given" THEN "place:ok:not-in-the-given-buffer"
       ELSE IF ~r.offok THEN "place:ok:offset-" \o r.off
       ELSE IF r.allocs # (IF r.off = "int" THEN 0 ELSE 1) THEN "place:ok:allocation-count"
       ELSE IF r.changed > 0 THEN "place:ok:other-bytes-changed"
       ELSE IF ~r.readback THEN "place:ok:value" ELSE ""

Recs == IF "TRACE_FILE" \in DOMAIN IOEnv THEN JsonDeserialize(IOEnv.TRACE_FILE) ELSE <<>>
VARIABLES tid, done
vars == <<tid, done>>
Init == tid \in 0..Len(Recs) /\ done = FALSE
Next == /\ ~done /\ done' = TRUE /\ UNCHANGED tid
        /\ IF tid = 0 THEN PrintT(<<"CASES", ToJson(Cases)>>) ELSE PrintT(<<"VERDICT", tid, Clause(Recs[tid])>>)
Spec == Init /\ [][Next]_vars
=============================================================================
