----------------------------- MODULE XoSpecialize -----------------------------
(***************************************************************************)
(* C16 - vectorised kernel blocks run once per index on every target.      *)
(*                                                                         *)
(* An abstract KERNEL SOURCE is a sequence of lines over the annotation    *)
(* vocabulary of xobjects/specialize_source.py:                            *)
(*   [k |-> "plain"]                 an unannotated statement               *)
(*   [k |-> "mem"]                   a statement whose text carries the     *)
(*                                   /*gpuglmem*/ and /*restrict*/          *)
(*                                   placeholders                           *)
(*   [k |-> "fun"]                   a statement calling a helper that is   *)
(*                                   declared with /*gpufun*/               *)
(*   [k |-> "vec", h |-> H]          //vectorize_over <var> <bound>         *)
(*                                   H = 0: the bound is n, the kernel's    *)
(*                                   n_threads (= launch size); H = 1: the  *)
(*                                   bound is n \div 2, a second variable   *)
(*                                   of the kernel: a block may cover FEWER *)
(*                                   indices than work-items are launched   *)
(*   [k |-> "end"]                   //end_vectorize                        *)
(*   [k |-> "only", c |-> C]         statement //only_for_context C         *)
(*   [k |-> "inc", f |-> F, c |-> C] //include_file F for_context C         *)
(* The kernel header (always present, not enumerated) carries /*gpukern*/, *)
(* /*gpuglmem*/ and /*restrict*/.                                          *)
(*                                                                         *)
(* Statement identity: the statement at source position p has id 10*p, the *)
(* j-th line of the file included at position p has id 10*p+j.  The loop   *)
(* variable of a block is named after the id of its vectorize_over line,   *)
(* so all blocks of one kernel use DIFFERENT variables (usage rule, see     *)
(* vlib/specialize.py: reuse of a loop variable is not promised by C16).   *)
(*                                                                         *)
(* Part A  CONTRACT: what C16 promises about the multiset of executions    *)
(*         (statement id, index) of one kernel call, judged on canonical   *)
(*         run-length encoded counts.                                      *)
(* Part B  IMPLEMENTATION-SHAPED model Rewrite(src, target): the two-pass  *)
(*         line machine of specialize_source as it is in the repository,   *)
(*         and an interpreter of the abstract C it produces under the      *)
(*         launch geometry of the three contexts.                          *)
(* Part C  the model-level theorem TLC checks: for every well-formed       *)
(*         source, target, n and CUDA block size the execution of          *)
(*         Rewrite(src, target) satisfies the contract.                    *)
(***************************************************************************)
EXTENDS Integers, Sequences, FiniteSets, TLC

Targets == {"cpu_serial", "cpu_openmp", "opencl", "cuda"}
IsCpu(t) == t \in {"cpu_serial", "cpu_openmp"}
StmtKinds == {"plain", "mem", "fun", "only"}
None == 0 - 1                      \* "no loop variable": statements outside every block record index -1
Undef == 0 - 2                     \* value of a declared but unassigned variable

Max(S) == CHOOSE x \in S : \A y \in S : y <= x
Range(s) == {s[i] : i \in 1..Len(s)}
Concat(ss) == LET RECURSIVE C(_)
                  C(i) == IF i > Len(ss) THEN <<>> ELSE ss[i] \o C(i + 1)
              IN C(1)

(* The file bodies every model instance knows.  An include line names a BODY here; on disk the engine      *)
(* resolves include NAMES to these bodies through the folder a kernel is built from, so that within one    *)
(* process the same name denotes different bodies for different kernels: the rewriting of a source is a    *)
(* function of (source, files found now), not of earlier calls.                                            *)
FileNames == {"fa", "fb", "fc"}
FileBody(f) == CASE f = "fa" -> <<[k |-> "plain"]>>
                 [] f = "fb" -> <<[k |-> "vec", h |-> 0], [k |-> "plain"], [k |-> "end"]>>
                 [] f = "fc" -> <<[k |-> "plain"], [k |-> "only", c |-> {"opencl", "cpu_openmp"}]>>
HasBlock(f) == f = "fb"

(* the bound a vectorize_over line with selector h names, for a kernel launched over n *)
Lim(n, h) == IF h = 1 THEN n \div 2 ELSE n

(* ------------------------------------------------------------------------ *)
(* Part A: contract                                                          *)
(* ------------------------------------------------------------------------ *)
Tagged(ln, id) == [l |-> ln, id |-> id]

(* the source a target sees: included files are spliced exactly for the contexts they name *)
CSpliceWith(src, Inc(_)) ==
  Concat([p \in 1..Len(src) |->
            IF src[p].k = "inc"
            THEN IF Inc(src[p].c)
                 THEN [j \in 1..Len(FileBody(src[p].f)) |-> Tagged(FileBody(src[p].f)[j], 10 * p + j)]
                 ELSE <<>>
            ELSE <<Tagged(src[p], 10 * p)>>])
CSplice(src, t) == LET In(c) == t \in c IN CSpliceWith(src, In)
USplice(src) == LET In(c) == TRUE IN CSpliceWith(src, In)        \* every include expanded: all statements there are

(* position of the vectorize_over line whose block contains position i of a tagged sequence, 0 outside blocks *)
EnclPos(sq, i) ==
  LET opens == {j \in 1..(i - 1) : sq[j].l.k = "vec" /\ \A m \in (j + 1)..(i - 1) : sq[m].l.k # "end"}
  IN IF opens = {} THEN 0 ELSE Max(opens)
(* id of that line (None outside blocks), and the bound selector of that block *)
Encl(sq, i) == IF EnclPos(sq, i) = 0 THEN None ELSE sq[EnclPos(sq, i)].id
EnclH(sq, i) == sq[EnclPos(sq, i)].l.h

Balanced(sq) ==
  /\ \A i \in 1..Len(sq) : /\ sq[i].l.k = "vec" => Encl(sq, i) = None
                           /\ sq[i].l.k = "end" => Encl(sq, i) # None
  /\ Encl(sq, Len(sq) + 1) = None

WellFormed(src) ==
  /\ \A t \in Targets : Balanced(CSplice(src, t))
  /\ Balanced(USplice(src))

StmtIds(src) == {it.id : it \in {x \in Range(USplice(src)) : x.l.k \in StmtKinds}}
(* the loop variable a statement's text refers to (None = outside every block); the same on every target *)
VarOf(src, id) == LET u == USplice(src)
                      i == CHOOSE i \in 1..Len(u) : u[i].id = id
                  IN Encl(u, i)

(* what the contract says about one statement on one target:                                   *)
(*   "blk"  active inside a vectorised block whose bound is n, the launch size                  *)
(*                                            -> exactly once for every index 0..n-1           *)
(*   "blkh" active inside a vectorised block whose bound L = n \div 2 is smaller than the launch *)
(*          size: CPU targets and CUDA ("guarded by the bound") -> exactly once for every index *)
(*          0..L-1; OpenCL ("once per work-item", no guard promised) -> once for each of the n  *)
(*          work-items, indices 0..n-1.  Whatever other blocks of the kernel do: the clause of  *)
(*          a statement depends on its OWN block only.                                         *)
(*   "free" active outside every block        -> passes through unchanged; once per call on CPU *)
(*          (C16 says nothing about how often unvectorised code runs on a GPU)                 *)
(*   "off"  restricted to other contexts / in a file not included here -> never                *)
ClassOf(src, t, id) ==
  LET s == CSplice(src, t)
      at == {i \in 1..Len(s) : s[i].id = id}
  IN IF at = {} THEN "off"
     ELSE LET i == CHOOSE i \in at : TRUE IN
          IF s[i].l.k = "only" /\ t \notin s[i].l.c THEN "off"
          ELSE IF Encl(s, i) = None THEN "free"
          ELSE IF EnclH(s, i) = 1 THEN "blkh" ELSE "blk"

(* Observed executions of ONE statement in one kernel call as canonical runs <<lo, hi, c>>:     *)
(* the statement ran c > 0 times with every index in lo..hi, runs are maximal and disjoint,    *)
(* every index not covered was never seen.                                                     *)
OncePerIndex(L) == IF L > 0 THEN {<<0, L - 1, 1>>} ELSE {}
StmtClause(cls, t, n, runs) ==
  CASE cls = "blk"  -> IF runs = OncePerIndex(n) THEN "" ELSE "block-not-once-per-index"
    [] cls = "blkh" -> IF t = "opencl"
                       THEN (IF runs = OncePerIndex(n) THEN "" ELSE "short-block-not-once-per-work-item")
                       ELSE (IF runs = OncePerIndex(Lim(n, 1)) THEN "" ELSE "short-block-not-once-per-index")
    [] cls = "off"  -> IF runs = {} THEN "" ELSE "inactive-line-executed"
    [] cls = "free" -> IF IsCpu(t) /\ runs # {<<None, None, 1>>} THEN "unannotated-line-not-once-on-cpu" ELSE ""

(* qualifier words the language of each target needs at the three places the placeholders stand for;  *)
(* facts about C99 / OpenCL C / CUDA C, not read from the implementation.  W = set of words observed. *)
KernOK(t, W)  == CASE IsCpu(t) -> W = {} [] t = "opencl" -> W \in {{"__kernel"}, {"kernel"}} [] t = "cuda" -> W = {"__global__"}
MemOK(t, W)   == CASE t = "opencl" -> W \in {{"__global"}, {"global"}} [] OTHER -> W = {}
RestrOK(t, W) == CASE IsCpu(t) -> W \subseteq {"restrict", "__restrict", "__restrict__"}
                   [] t = "opencl" -> W \subseteq {"restrict"} [] t = "cuda" -> W \subseteq {"__restrict__"}
FunOK(t, W)   == CASE IsCpu(t) -> W \subseteq {"static", "inline"} [] t = "opencl" -> W \subseteq {"static", "inline"}
                   [] t = "cuda" -> "__device__" \in W /\ W \subseteq {"__device__", "__host__", "inline", "static", "__forceinline__"}
QualClause(t, q) ==
  IF ~KernOK(t, q.kern) THEN "qualifier-gpukern"
  ELSE IF ~MemOK(t, q.mem) THEN "qualifier-gpuglmem"
  ELSE IF ~RestrOK(t, q.restr) THEN "qualifier-restrict"
  ELSE IF ~FunOK(t, q.fun) THEN "qualifier-gpufun" ELSE ""

(* "all unannotated source text passes through unchanged":                                      *)
(* inp = source lines as [a |-> 1 if the line carries an annotation or placeholder else 0,       *)
(* t |-> token of its exact text], out = tokens of the produced lines.  Plain lines appear in   *)
(* order, exactly as written; consecutive plain lines stay adjacent; produced lines that are    *)
(* not plain lines may only stand where an annotated line stood.                                *)
RECURSIVE PP(_, _, _, _, _)
PP(inp, out, i, j, gap) ==
  IF i > Len(inp) THEN (gap \/ j > Len(out))
  ELSE IF inp[i].a = 1 THEN PP(inp, out, i + 1, j, TRUE)
  ELSE IF ~gap THEN j <= Len(out) /\ out[j] = inp[i].t /\ PP(inp, out, i + 1, j + 1, FALSE)
  ELSE \E j2 \in j..Len(out) : out[j2] = inp[i].t /\ PP(inp, out, i + 1, j2 + 1, FALSE)
PlainPreserved(inp, out) == PP(inp, out, 1, 1, FALSE)

(* ------------------------------------------------------------------------ *)
(* Part B: the rewriter as implemented, and the abstract C it emits          *)
(* ------------------------------------------------------------------------ *)
(* first pass: include splicing (specialize_source.py, first loop).  An include line is dropped *)
(* for contexts it does not name; otherwise "from file"/"end file" comment lines surround the   *)
(* file's lines, which therefore go through the second pass like any other line.                *)
Cmt == [l |-> [k |-> "cmt"], id |-> None]
Pass1(src, t) ==
  Concat([p \in 1..Len(src) |->
            IF src[p].k = "inc"
            THEN IF t \in src[p].c
                 THEN <<Cmt>> \o [j \in 1..Len(FileBody(src[p].f)) |-> Tagged(FileBody(src[p].f)[j], 10 * p + j)] \o <<Cmt>>
                 ELSE <<>>
            ELSE <<Tagged(src[p], 10 * p)>>])

(* abstract C lines:  [o |-> "stmt", id, v]  statement recording (id, value of v)               *)
(*                    [o |-> "off", id]      commented-out statement     [o |-> "cmt"] comment   *)
(*                    [o |-> "for", v, h]    for (int v=0; v<LIM; v++){       LIM = Lim(n, h)    *)
(*                    [o |-> "decl", v]      int v;                                              *)
(*                    [o |-> "gid", v]       v=get_global_id(0);                                 *)
(*                    [o |-> "tid", v]       v=blockDim.x*blockIdx.x+threadIdx.x;                *)
(*                    [o |-> "guard", v, h]  if (v<LIM){          [o |-> "close"]  }             *)
VecLines(t, v, h) ==
  CASE IsCpu(t)     -> <<[o |-> "for", v |-> v, h |-> h]>>
    [] t = "opencl" -> <<[o |-> "decl", v |-> v], [o |-> "gid", v |-> v]>>
    [] t = "cuda"   -> <<[o |-> "decl", v |-> v], [o |-> "tid", v |-> v], [o |-> "guard", v |-> v, h |-> h]>>
EndLines(t) == IF t = "opencl" THEN <<[o |-> "cmt"]>> ELSE <<[o |-> "close"]>>

(* second pass: one line at a time with the inside_vect_block flag (which, as implemented, only *)
(* guards against nesting and would drive indentation; it does not change what is emitted)      *)
RECURSIVE Pass2(_, _, _, _, _)
Pass2(src, t, ls, i, inside) ==
  IF i > Len(ls) THEN <<>>
  ELSE LET ln == ls[i].l
           id == ls[i].id IN
    IF ln.k = "vec" THEN VecLines(t, id, ln.h) \o Pass2(src, t, ls, i + 1, TRUE)
    ELSE IF ln.k = "end" THEN EndLines(t) \o Pass2(src, t, ls, i + 1, FALSE)
    ELSE IF ln.k = "cmt" THEN <<[o |-> "cmt"]>> \o Pass2(src, t, ls, i + 1, inside)
    ELSE IF ln.k = "only" /\ t \notin ln.c THEN <<[o |-> "off", id |-> id]>> \o Pass2(src, t, ls, i + 1, inside)
    ELSE <<[o |-> "stmt", id |-> id, v |-> VarOf(src, id)]>> \o Pass2(src, t, ls, i + 1, inside)

Rewrite(src, t) == Pass2(src, t, Pass1(src, t), 1, FALSE)

(* placeholder substitution tables (words only; blanks are irrelevant) *)
Quals(t) ==
  [kern  |-> CASE IsCpu(t) -> {} [] t = "opencl" -> {"__kernel"} [] t = "cuda" -> {"__global__"},
   fun   |-> CASE IsCpu(t) -> {"static", "inline"} [] t = "opencl" -> {} [] t = "cuda" -> {"__device__"},
   mem   |-> IF t = "opencl" THEN {"__global"} ELSE {},
   restr |-> IF IsCpu(t) THEN {"restrict"} ELSE {}]

(* ---- interpreter of the abstract C for one thread ---- *)
IsOpen(L) == L.o \in {"for", "guard"}
RECURSIVE MatchClose(_, _, _)
MatchClose(prog, pc, depth) ==          \* position of the "close" matching an open construct entered before pc
  IF pc > Len(prog) THEN Len(prog) + 1
  ELSE IF prog[pc].o = "close" THEN (IF depth = 0 THEN pc ELSE MatchClose(prog, pc + 1, depth - 1))
  ELSE IF IsOpen(prog[pc]) THEN MatchClose(prog, pc + 1, depth + 1)
  ELSE MatchClose(prog, pc + 1, depth)

Val(env, v) == IF v = None THEN None ELSE IF v \in DOMAIN env THEN env[v] ELSE Undef
Bind(env, v, x) == [w \in (DOMAIN env) \cup {v} |-> IF w = v THEN x ELSE env[w]]

RECURSIVE Step(_, _, _, _, _, _, _)
(* th = [gid, bdim, bidx, tidx]; stack = frames [o, v, pc]; ex = executions so far *)
Step(prog, n, th, pc, stack, env, ex) ==
  IF pc > Len(prog) THEN ex
  ELSE LET L == prog[pc] IN
    CASE L.o = "stmt"  -> Step(prog, n, th, pc + 1, stack, env, Append(ex, <<L.id, Val(env, L.v)>>))
      [] L.o = "decl"  -> Step(prog, n, th, pc + 1, stack, Bind(env, L.v, Undef), ex)
      [] L.o = "gid"   -> Step(prog, n, th, pc + 1, stack, Bind(env, L.v, th.gid), ex)
      [] L.o = "tid"   -> Step(prog, n, th, pc + 1, stack, Bind(env, L.v, th.bdim * th.bidx + th.tidx), ex)
      [] L.o = "for"   -> IF 0 < Lim(n, L.h)
                          THEN Step(prog, n, th, pc + 1, <<[o |-> "for", v |-> L.v, h |-> L.h, pc |-> pc]>> \o stack, Bind(env, L.v, 0), ex)
                          ELSE Step(prog, n, th, MatchClose(prog, pc + 1, 0) + 1, stack, env, ex)
      [] L.o = "guard" -> IF Val(env, L.v) < Lim(n, L.h)
                          THEN Step(prog, n, th, pc + 1, <<[o |-> "guard", v |-> L.v, h |-> L.h, pc |-> pc]>> \o stack, env, ex)
                          ELSE Step(prog, n, th, MatchClose(prog, pc + 1, 0) + 1, stack, env, ex)
      [] L.o = "close" -> IF stack = <<>> THEN ex          \* closes the kernel body: the thread returns
                          ELSE LET f == Head(stack) IN
                            IF f.o = "for" /\ env[f.v] + 1 < Lim(n, f.h)
                            THEN Step(prog, n, th, f.pc + 1, stack, Bind(env, f.v, env[f.v] + 1), ex)
                            ELSE Step(prog, n, th, pc + 1, Tail(stack), env, ex)
      [] OTHER         -> Step(prog, n, th, pc + 1, stack, env, ex)

Thread(prog, n, th) == Step(prog, n, th, 1, <<>>, <<>>, <<>>)

(* launch geometry of the contexts: KernelCpu calls the function once; KernelPyopencl enqueues  *)
(* global size n_threads; KernelCupy launches ceil(n_threads/block) blocks of block threads     *)
CeilDiv(a, b) == (a + b - 1) \div b
Launch(prog, t, n, b) ==
  CASE IsCpu(t)     -> Thread(prog, n, [gid |-> Undef, bdim |-> 0, bidx |-> 0, tidx |-> 0])
    [] t = "opencl" -> Concat([g \in 1..n |-> Thread(prog, n, [gid |-> g - 1, bdim |-> 0, bidx |-> 0, tidx |-> 0])])
    [] t = "cuda"   -> Concat([k \in 1..(CeilDiv(n, b) * b) |->
                                 Thread(prog, n, [gid |-> Undef, bdim |-> b, bidx |-> (k - 1) \div b, tidx |-> (k - 1) % b])])

(* executions -> canonical runs of one statement, indices looked at: lo..hi *)
RunsOf(ex, id, lo, hi) ==
  LET cnt == [i \in (lo - 1)..(hi + 1) |-> IF i < lo \/ i > hi THEN 0 - 1 ELSE Cardinality({k \in 1..Len(ex) : ex[k] = <<id, i>>})]
      starts == {a \in lo..hi : cnt[a] > 0 /\ cnt[a - 1] # cnt[a]}
      EndOf(a) == CHOOSE b \in a..hi : cnt[b + 1] # cnt[a] /\ \A i \in a..b : cnt[i] = cnt[a]
  IN {<<a, EndOf(a), cnt[a]>> : a \in starts}

(* ------------------------------------------------------------------------ *)
(* Part C: model-level check and enumeration of sources                      *)
(* ------------------------------------------------------------------------ *)
CONSTANTS MaxLen,        \* longest source enumerated
          Ns,            \* launch sizes n (bound of a block: n or n \div 2)
          MaxHalf,       \* at most this many blocks of one source have the smaller bound n \div 2
          Blocks,        \* CUDA block sizes
          CtxSets,       \* context sets used on only_for_context lines
          IncFa, IncFb, IncFc,   \* context sets used on include_file lines of file fa / fb / fc ({} = file not used)
          Kinds,         \* subset of {"plain","mem","fun"}: statement kinds enumerated
          Part, NParts   \* partition of the enumeration by the first line (parallel exports)

VARIABLE src

InBlockAtEnd(s) == Encl(USplice(s), Len(USplice(s)) + 1) # None
NHalf(s) == Cardinality({p \in 1..Len(s) : s[p].k = "vec" /\ s[p].h = 1})
Alphabet(s) ==
  LET inb == InBlockAtEnd(s) IN
  [k : Kinds] \cup [k : {"only"}, c : CtxSets]
  \cup (IF inb THEN {[k |-> "end"]}
       ELSE {[k |-> "vec", h |-> 0]} \cup (IF NHalf(s) < MaxHalf THEN {[k |-> "vec", h |-> 1]} ELSE {}))
  \cup {x \in [k : {"inc"}, f : {"fa"}, c : IncFa] \cup [k : {"inc"}, f : {"fb"}, c : IncFb] \cup [k : {"inc"}, f : {"fc"}, c : IncFc] :
          inb => ~HasBlock(x.f)}

(* a fixed order of the alphabet, only to split the enumeration into NParts independent runs *)
RECURSIVE SetToSeq(_)
SetToSeq(S) == IF S = {} THEN <<>> ELSE LET x == CHOOSE x \in S : TRUE IN <<x>> \o SetToSeq(S \ {x})
FirstLines == LET a == SetToSeq(Alphabet(<<>>)) IN {a[i] : i \in {j \in 1..Len(a) : j % NParts = Part}}

Complete(s) == ~InBlockAtEnd(s)

Init == src = <<>>
Next == /\ Len(src) < MaxLen
        /\ \E ln \in (IF src = <<>> THEN FirstLines ELSE Alphabet(src)) : src' = Append(src, ln)
Spec == Init /\ [][Next]_src

IdxLo == None
IdxHi(n, b) == CeilDiv(n, b) * b + 1

CheckExec(ids, cls, t, n, b, ex) ==
  /\ \A id \in ids : StmtClause(cls[id], t, n, RunsOf(ex, id, IdxLo, IdxHi(n, b))) = ""
  /\ \A k \in 1..Len(ex) : ex[k][1] \in ids /\ ex[k][2] >= IdxLo /\ ex[k][2] <= IdxHi(n, b)

CheckTarget(s, t) ==
  LET prog == Rewrite(s, t)
      ids == StmtIds(s)
      cls == [id \in ids |-> ClassOf(s, t, id)]
  IN /\ QualClause(t, Quals(t)) = ""
     /\ \A n \in Ns : \A b \in (IF t = "cuda" THEN Blocks ELSE {1}) : CheckExec(ids, cls, t, n, b, Launch(prog, t, n, b))

(* THE model-level result: the rewriter as implemented satisfies C16 within the bounds *)
RewriteMeetsContract ==
  (Complete(src) /\ WellFormed(src)) => \A t \in Targets : CheckTarget(src, t)

(* enumerated sources are well formed on every target (no vacuity through WellFormed) *)
EnumeratedAreWellFormed == Complete(src) => WellFormed(src)

(* "All targets compute the same result" is a corollary: the runs of a statement that is "blk" on two   *)
(* targets are both equal to the one value StmtClause accepts (for "blkh": on the CPU targets and CUDA; *)
(* an OpenCL kernel whose block is shorter than the launch has no guard promised by C16).             *)
=============================================================================
