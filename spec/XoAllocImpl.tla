---------------------------- MODULE XoAllocImpl ----------------------------
(***************************************************************************)
(* Implementation-shaped model of XBuffer (xobjects/context.py):           *)
(*   chunks   the free list as the code keeps it: a SEQUENCE of [s,e)      *)
(*   allocate scans the sequence in order, rounds chunk.start up, moves    *)
(*            chunk.start to the new end, removes the chunk when emptied;  *)
(*            when nothing fits it grows by one of three amounts and       *)
(*            RETRIES (one model step per grow, pc = "retry")              *)
(*   grow     extends the last chunk if it ends at capacity else appends   *)
(*   free     "append if beyond the last start else insert before the      *)
(*            first not-smaller start", then one left-to-right merge pass  *)
(*            where touching counts as overlapping                         *)
(* One action per critical section of the code.  The module is checked to  *)
(* refine XoAlloc under  free = runs of the chunk sequence.                *)
(* FreeGuard models whether free() copes with an empty chunk list (the     *)
(* pinned tree indexed chunks[-1] unconditionally).                        *)
(***************************************************************************)
EXTENDS Integers, Sequences, FiniteSets, TLC

CONSTANTS MaxCap, InitCap, Sizes, Aligns, GrowStep, GrowAmounts, Tokens   \* GrowStep = 0 means "unset"

VARIABLES chunks, cap, live, lost, data, pc, req,
          pre    \* snapshot of the abstract state taken when a request arrives (refinement mapping only)

vars == <<chunks, cap, live, lost, data, pc, req, pre>>

AlignUp(x, a) == ((x + a - 1) \div a) * a
Fits(c, size, a) == AlignUp(c.s, a) + size <= c.e        \* chunk.end >= newend
FitIdx(size, a) == {i \in 1..Len(chunks) : Fits(chunks[i], size, a)}
FirstIdx(size, a) == CHOOSE i \in FitIdx(size, a) : \A j \in FitIdx(size, a) : i <= j
RemoveAt(s, i) == SubSeq(s, 1, i - 1) \o SubSeq(s, i + 1, Len(s))

NonEmpty(i) == chunks[i].s < chunks[i].e
FreeRuns == {chunks[i] : i \in {j \in 1..Len(chunks) : NonEmpty(j)}}
Snapshot == [cap |-> cap, free |-> FreeRuns, live |-> live, lost |-> lost, data |-> data, chunks |-> chunks]

Init == /\ chunks = <<[s |-> 0, e |-> InitCap]>>      \* note: an empty chunk when InitCap = 0, as in the code
        /\ cap = InitCap /\ live = {} /\ lost = {} /\ data = [x \in {} |-> 0]
        /\ pc = "idle" /\ req = [size |-> 0, a |-> 1, tok |-> 0]
        /\ pre = Snapshot

GrowChunks(n) ==
  IF Len(chunks) = 0 \/ chunks[Len(chunks)].e # cap
  THEN Append(chunks, [s |-> cap, e |-> cap + n])
  ELSE [chunks EXCEPT ![Len(chunks)].e = cap + n]

(* a request arrives *)
Call(size, a, tok) ==
  /\ pc = "idle"
  /\ pc' = "scan" /\ req' = [size |-> size, a |-> a, tok |-> tok] /\ pre' = Snapshot
  /\ UNCHANGED <<chunks, cap, live, lost, data>>

(* the scan finds a chunk: serve *)
ScanFit ==
  /\ pc = "scan" /\ FitIdx(req.size, req.a) # {}
  /\ LET i == FirstIdx(req.size, req.a)
         c == chunks[i]
         off == AlignUp(c.s, req.a)
         ne == off + req.size
     IN /\ chunks' = IF ne = c.e THEN RemoveAt(chunks, i) ELSE [chunks EXCEPT ![i].s = ne]
        /\ live' = live \cup {[s |-> off, e |-> ne, a |-> req.a]}
        /\ data' = [x \in DOMAIN data \cup {off} |-> IF x = off THEN req.tok ELSE data[x]]
        /\ lost' = lost \cup (c.s .. (off - 1))
  /\ pc' = "idle"
  /\ UNCHANGED <<cap, req, pre>>

(* the scan fails: grow by the code's three-way policy, then retry *)
GrowAmount == LET sizepa == req.size + req.a - 1 IN
              IF sizepa > cap THEN sizepa
              ELSE IF GrowStep # 0 THEN GrowStep * ((sizepa + GrowStep - 1) \div GrowStep)   \* smallest sufficient multiple
              ELSE cap
ScanGrow ==
  /\ pc = "scan" /\ FitIdx(req.size, req.a) = {}
  /\ cap + GrowAmount <= MaxCap
  /\ chunks' = GrowChunks(GrowAmount)
  /\ cap' = cap + GrowAmount
  /\ UNCHANGED <<live, lost, data, pc, req, pre>>      \* pc stays "scan": the retry

ExplicitGrow(n) ==
  /\ pc = "idle" /\ cap + n <= MaxCap
  /\ chunks' = GrowChunks(n) /\ cap' = cap + n
  /\ UNCHANGED <<live, lost, data, pc, req, pre>>

Overlaps(p, h) == h.e >= p.s /\ h.s <= p.e
RECURSIVE Merge(_, _)
Merge(acc, rest) ==
  IF rest = <<>> THEN acc
  ELSE LET p == acc[Len(acc)]
           h == Head(rest)
       IN IF Overlaps(p, h)
          THEN Merge([acc EXCEPT ![Len(acc)] = [s |-> IF p.s < h.s THEN p.s ELSE h.s,
                                                e |-> IF p.e > h.e THEN p.e ELSE h.e]], Tail(rest))
          ELSE Merge(Append(acc, h), Tail(rest))
InsertSorted(cs, n) ==
  IF Len(cs) = 0 \/ n.s > cs[Len(cs)].s THEN Append(cs, n)
  ELSE LET i == CHOOSE k \in 1..Len(cs) : n.s <= cs[k].s /\ \A j \in 1..(k - 1) : ~(n.s <= cs[j].s)
       IN SubSeq(cs, 1, i - 1) \o <<n>> \o SubSeq(cs, i, Len(cs))

FreeR(r) ==
  /\ pc = "idle" /\ r \in live
  /\ LET ins == InsertSorted(chunks, [s |-> r.s, e |-> r.e])
     IN chunks' = Merge(<<Head(ins)>>, Tail(ins))
  /\ live' = live \ {r}
  /\ data' = [x \in DOMAIN data \ {r.s} |-> data[x]]
  /\ UNCHANGED <<cap, lost, pc, req, pre>>

Next == \/ \E size \in Sizes, a \in Aligns, tok \in Tokens : Call(size, a, tok)
        \/ ScanFit \/ ScanGrow
        \/ \E r \in live : FreeR(r)
        \/ \E n \in GrowAmounts : ExplicitGrow(n)

Spec == Init /\ [][Next]_vars
FairSpec == Spec /\ WF_vars(ScanFit) /\ WF_vars(ScanGrow)

(************************ implementation invariants ************************)
SortedCoalesced == \A i \in 1..(Len(chunks) - 1) : chunks[i].e < chunks[i + 1].s
NoEmptyChunk == \A i \in 1..Len(chunks) : NonEmpty(i) \/ (cap = 0 /\ Len(chunks) = 1)
(* every request terminates: the retry loop makes progress (checked under FairSpec) *)
Terminates == (pc = "scan") ~> (pc = "idle" \/ (FitIdx(req.size, req.a) = {} /\ cap + GrowAmount > MaxCap))   \* ... or hits the model bound

(********************** refinement mapping to XoAlloc **********************)
(* While a request is in progress (Call, ScanGrow*, ScanFit) the abstract  *)
(* state stays frozen at the snapshot taken by Call; ScanFit then performs *)
(* ONE abstract Allocate(size, a, newcap) step.  So the contract's         *)
(* GrowOnlyIfNeeded / FirstFit clauses are checked over the whole request. *)
Abs == IF pc = "idle" THEN Snapshot ELSE pre
A == INSTANCE XoAlloc WITH cap <- Abs.cap, free <- Abs.free, live <- Abs.live, lost <- Abs.lost,
                           data <- Abs.data
Refines == A!Spec
AbsInv == A!CanonicalFree /\ A!Accounting /\ A!Disjoint /\ A!InBounds /\ A!Aligned /\ A!DataKept
GetFree == LET RECURSIVE S(_)
               S(i) == IF i = 0 THEN 0 ELSE S(i - 1) + (chunks[i].e - chunks[i].s)
           IN S(Len(chunks))
GetFreeMatches == (pc = "idle") => GetFree = A!GetFree
View == <<chunks, cap, {<<r.s, r.e, r.a>> : r \in live}, lost, pc, req, IF pc = "idle" THEN <<>> ELSE <<pre.cap, pre.chunks>>>>
=============================================================================
