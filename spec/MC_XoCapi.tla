----------------------------- MODULE MC_XoCapi -----------------------------
(***************************************************************************)
(* Bounded instance of the refinement XoCapi!Gen => XoLayout!Nav over a    *)
(* TLC-enumerated type grammar (the grammar of MC_XoEncode) and export of  *)
(* the program table (type path -> program) of every enumerated type for   *)
(* the instruction-by-instruction comparison with the programs parsed from *)
(* the real generator output.  Images are the ones the documented format   *)
(* prescribes (XoEncode!Encode of a canonical value) with one referent     *)
(* attached behind the object for every plain reference, so that paths     *)
(* through references are executed too.                                    *)
(***************************************************************************)
EXTENDS XoCapi, Json

CONSTANTS Depth, MaxFields, MaxNd, StaticDims, DynExt, Widths, Parts, Part, Export
Dims == {-1} \cup StaticDims
VARIABLES cty, cext, fin
vars == <<cty, cext, fin>>

Perms(n) == {p \in [1..n -> 0..(n - 1)] : \A i, j \in 1..n : i # j => p[i] # p[j]}
RefTarget == [k |-> "struct", f |-> <<[k |-> "sc", w |-> 8], [k |-> "str"]>>]
Leaf == {[k |-> "sc", w |-> w] : w \in Widths} \cup {[k |-> "str"]}
        \cup {[k |-> "ref", to |-> RefTarget],
              [k |-> "uref", of |-> <<[k |-> "struct", f |-> <<[k |-> "sc", w |-> 8]>>], [k |-> "arr", it |-> [k |-> "sc", w |-> 8], sh |-> <<2>>, ord |-> <<0>>]>>]}
Structs(T, nf) == {[k |-> "struct", f |-> fs] : fs \in UNION {[1..n -> T] : n \in 1..nf}}
Arrays(T, nd) == {[k |-> "arr", it |-> it, sh |-> sh, ord |-> p] : it \in T, sh \in UNION {[1..n -> Dims] : n \in 1..nd}, p \in UNION {Perms(n) : n \in 1..nd}}
RECURSIVE Types(_)
Types(d) == IF d = 0 THEN Leaf
            ELSE LET T == Types(d - 1) IN T \cup Structs(T, MaxFields) \cup {a \in Arrays(T, MaxNd) : Len(a.sh) = Len(a.ord)}
Top == LET s == SetToSeq({t \in Types(Depth) : t.k \in {"struct", "arr"}}) IN {s[i] : i \in {j \in 1..Len(s) : j % Parts = Part}}

Table(ty) == UNION {AccOf(ty, p) : p \in TypePaths(ty)}

Init == cty \in Top /\ cext \in DynExt /\ fin = FALSE
Next == /\ ~fin /\ fin' = TRUE /\ UNCHANGED <<cty, cext>>
        /\ (Export /\ cext = CHOOSE e \in DynExt : TRUE) => PrintT(ToJson([t |-> cty, progs |-> SetToSeq(Table(cty))]))
Spec == Init /\ [][Next]_vars
GeneratorRefinesFormat == Refines(cty, Image(cty, cext), 0) /\ AccRefines(cty, Image(cty, cext), 0)
ProgramsWellScoped == \A e \in Table(cty) : WellScoped(e.ops, Len(Idxs(e.p)))
=============================================================================
