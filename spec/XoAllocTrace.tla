---------------------------- MODULE XoAllocTrace ----------------------------
(***************************************************************************)
(* Trace validation of REAL XBuffer executions against the contract        *)
(* XoAlloc.  Input: a JSON file (env TRACE_FILE) holding a sequence of     *)
(* traces; every trace has an initial observation and a sequence of        *)
(* events recorded at the return of allocate / free / grow (also on the    *)
(* error path).  Every event logs the full observable post-state, so each  *)
(* step binds the primed variables from the log and then evaluates the     *)
(* contract action as a predicate; the named clauses say WHICH conjunct    *)
(* of the action (or which invariant) the real step broke.                 *)
(* A failing step never stops the trace: the state is re-synchronised to   *)
(* the observation and the first failing clause per property is kept.      *)
(***************************************************************************)
EXTENDS XoAlloc, Json, IOUtils, TLCExt

Traces == JsonDeserialize(IOEnv.TRACE_FILE)

VARIABLES tid, l, f04, f12     \* trace id, position, first failing clause for C04 / C12 ("" = none)
tvars == <<vars, tid, l, f04, f12>>

ToRuns(rs) == {[s |-> rs[i][1], e |-> rs[i][2]] : i \in {j \in 1..Len(rs) : rs[j][1] < rs[j][2]}}
ToLive(ls) == {[s |-> ls[i][1], e |-> ls[i][2], a |-> ls[i][3]] : i \in 1..Len(ls)}
ToData(ds) == [x \in {ds[i][1] : i \in 1..Len(ds)} |-> (CHOOSE i \in 1..Len(ds) : ds[i][1] = x) ]
DataOf(ds) == [x \in {ds[i][1] : i \in 1..Len(ds)} |-> ds[CHOOSE i \in 1..Len(ds) : ds[i][1] = x][2]]
SumRuns(F) == LET RECURSIVE S(_)
                  S(T) == IF T = {} THEN 0 ELSE LET c == CHOOSE c \in T : TRUE IN (c.e - c.s) + S(T \ {c})
              IN S(F)
Ev(t) == Traces[t].ev

TraceInit ==
  /\ tid \in 1..Len(Traces)
  /\ l = 1 /\ f04 = "" /\ f12 = ""
  /\ cap = Traces[tid].init.cap
  /\ free = ToRuns(Traces[tid].init.runs)
  /\ live = ToLive(Traces[tid].init.live)
  /\ data = DataOf(Traces[tid].init.data)
  /\ lost = (0 .. (Traces[tid].init.cap - 1)) \ (Bytes(ToRuns(Traces[tid].init.runs)) \cup UNION {Run(r) : r \in ToLive(Traces[tid].init.live)})

(* observation -> primed variables *)
Bind(e) ==
  /\ cap' = e.cap
  /\ free' = ToRuns(e.runs)
  /\ live' = ToLive(e.live)
  /\ data' = DataOf(e.data)         \* what the harness READ BACK from every live region after the step
  /\ lost' = (0 .. (e.cap - 1)) \ (Bytes(ToRuns(e.runs)) \cup UNION {Run(r) : r \in ToLive(e.live)})

Overl(s1, e1, s2, e2) == s1 < e2 /\ s2 < e1

(* ---- C04 clauses: say nothing about WHICH free space is used ---- *)
C04Alloc(e) ==
  IF e.exc # "" THEN ""                                  \* no region was handed out
  ELSE IF e.ret % e.a # 0 THEN "misaligned"
  ELSE IF e.ret < 0 \/ e.ret + e.size > e.cap THEN "out-of-bounds"
  ELSE IF \E r \in live : e.size > 0 /\ Overl(e.ret, e.ret + e.size, r.s, r.e) THEN "overlaps-live"
  ELSE ""
C04Data(e) ==   \* every region that was live before and still is reads back the token stored in it
  IF \E r \in live : r \in ToLive(e.live) /\ r.e > r.s /\ DataOf(e.data)[r.s] # data[r.s] THEN "data-lost" ELSE ""

(* ---- C12 clauses: the conjuncts of XoAlloc!Allocate / Free / Grow ---- *)
C12Alloc(e) ==
  IF e.exc # "" THEN "allocate-raised"
  ELSE IF e.cap < cap THEN "capacity-shrank"
  ELSE IF e.size = 0 THEN                                \* only: accounting stays sound, nothing live or lost becomes free
       (IF ~(Bytes(ToRuns(e.runs)) \subseteq (FreeBytes \cup (cap .. (e.cap - 1)))) THEN "size0-frees-bytes" ELSE "")
  ELSE IF e.cap > cap /\ Fitting(free, e.size, e.a) # {} THEN "grew-although-fit"
  ELSE LET F1 == IF e.cap > cap THEN GrownFree(free, cap, e.cap) ELSE free IN
       IF Fitting(F1, e.size, e.a) = {} THEN "returned-without-space"
       ELSE IF e.ret # FirstFitOffset(F1, e.size, e.a) THEN "not-first-fit"
       ELSE IF ToRuns(e.runs) # FreeAfterAlloc(F1, FirstFitRun(F1, e.size, e.a), e.ret, e.size) THEN "free-set-after-allocate"
       ELSE IF e.getfree # SumRuns(ToRuns(e.runs)) THEN "get_free"
       ELSE ""
C12Free(e) ==
  IF e.exc # "" THEN "free-raised"
  ELSE IF e.cap # cap THEN "capacity-changed-by-free"
  ELSE IF e.e = e.s THEN ""
  ELSE IF ToRuns(e.runs) # FreeAfterFree(free, e.s, e.e) THEN "free-set-after-free"
  ELSE IF e.getfree # SumRuns(ToRuns(e.runs)) THEN "get_free"
  ELSE ""
C12Grow(e) ==
  IF e.exc # "" THEN "grow-raised"
  ELSE IF e.cap # cap + e.n THEN "capacity-after-grow"
  ELSE IF ToRuns(e.runs) # GrownFree(free, cap, cap + e.n) THEN "free-set-after-grow"
  ELSE IF e.getfree # SumRuns(ToRuns(e.runs)) THEN "get_free"
  ELSE ""

(* the contract action itself, evaluated as a predicate on (state, bound state') *)
ActionHolds(e) ==
  CASE e.op = "alloc" -> e.exc = "" /\ (e.size = 0 \/ Allocate(e.size, e.a, e.cap, e.tok))
    [] e.op = "free"  -> e.exc = "" /\ (e.e = e.s \/ Free([s |-> e.s, e |-> e.e, a |-> e.a]))
    [] e.op = "grow"  -> e.exc = "" /\ Grow(e.n)

Clause04(e) == CASE e.op = "alloc" -> (IF C04Alloc(e) # "" THEN C04Alloc(e) ELSE C04Data(e))
                 [] OTHER -> C04Data(e)
Clause12(e) == CASE e.op = "alloc" -> C12Alloc(e) [] e.op = "free" -> C12Free(e) [] e.op = "grow" -> C12Grow(e)

TraceStep ==
  /\ l <= Len(Ev(tid))
  /\ LET e == Ev(tid)[l] IN
     /\ Bind(e)
     /\ f04' = IF f04 # "" THEN f04
               ELSE IF Clause04(e) # "" THEN ToString(l) \o ":" \o Clause04(e)
               ELSE IF ~(Disjoint' /\ InBounds' /\ Aligned') THEN ToString(l) \o ":invariant" ELSE ""
     /\ f12' = IF f12 # "" THEN f12
               ELSE IF Clause12(e) # "" THEN ToString(l) \o ":" \o Clause12(e)
               ELSE IF Clause04(e) = "" /\ ~ActionHolds(e) THEN ToString(l) \o ":action-rejected"
               ELSE IF ~(CanonicalFree' /\ Accounting') THEN ToString(l) \o ":free-not-canonical" ELSE ""
  /\ l' = l + 1 /\ UNCHANGED tid

(* total verdict, one line per trace *)
TraceDone ==
  /\ l = Len(Ev(tid)) + 1
  /\ PrintT(<<"VERDICT", tid, f04, f12>>)
  /\ l' = l + 1 /\ UNCHANGED <<vars, tid, f04, f12>>

TraceNext == TraceStep \/ TraceDone
TraceSpec == TraceInit /\ [][TraceNext]_tvars
=============================================================================
