----------------------------- MODULE XoBytesGen -----------------------------
(***************************************************************************)
(* Exports behaviours of XoBytes for replay into the real buffers.          *)
(*  GSpec: exhaustive - every transition of every sequence of <= MaxSteps   *)
(*         primitives is printed as one self-contained JSON line: the       *)
(*         commands from the initial state, each with the observable state  *)
(*         after it.  -workers 1.                                           *)
(*  SSpec: for `tlc -simulate`: the whole behaviour (command + post-state   *)
(*         per step) is printed once, when it is MaxSteps long.             *)
(* update_from_nplike is exported once per (off, dest width, count): the    *)
(* source width / layout / dtype kind do not influence the contract and are *)
(* enumerated by the replay harness.                                        *)
(***************************************************************************)
EXTENDS XoBytes, Json
CONSTANTS CapA, CapB
McCaps == {c \in CapA \X CapB : c[1] <= c[2]}      \* (a,b) and (b,a) differ only by the roles of the two real buffers

VARIABLES hist      \* sequence of [cmd, post] records
gvars == <<vars, hist>>

Cmd(op, b, off, n) == [op |-> op, b |-> b, off |-> off, n |-> n, st |-> 0, src |-> "", soff |-> 0, w |-> 0, cnt |-> 0, k |-> 0, kind |-> "", len |-> 0]
Proj == [mem |-> mem', bufA |-> buf'["A"], bufB |-> buf'["B"],
         copies |-> [i \in DOMAIN copies' |-> [st |-> copies'[i].st, kind |-> copies'[i].kind]],
         views |-> [i \in DOMAIN views' |-> [b |-> views'[i].b, st |-> views'[i].st, off |-> views'[i].off, n |-> views'[i].n, w |-> views'[i].w,
                                             cur |-> IF views'[i].st = buf'[views'[i].b] THEN 1 ELSE 0]],
         last |-> last']
Rec(c) == hist' = Append(hist, [cmd |-> c, post |-> Proj])

Step ==
  \/ \E b \in Bufs : \E off \in Offs(b) : \E n \in 0..(Cap(b) - off) :
       UpdateFromBuffer(b, off, Fresh(step, n)) /\ Rec(Cmd("ufb", b, off, n))
  \/ \E b \in Bufs, st \in NativeStores : \E off \in Offs(b) : \E n \in 0..(Cap(b) - off) : \E soff \in 0..(Len(mem[st]) - n) :
       UpdateFromNative(b, off, st, soff, n) /\ Rec([Cmd("ufn", b, off, n) EXCEPT !.st = st, !.soff = soff])
  \/ \E b \in Bufs, st \in NativeStores : \E soff \in Offs(b) : \E n \in 0..(Cap(b) - soff) : \E doff \in 0..(Len(mem[st]) - n) :
       CopyToNative(b, st, doff, soff, n) /\ Rec([Cmd("ctn", b, doff, n) EXCEPT !.st = st, !.soff = soff])
  \/ \E b \in Bufs, len \in NativeLens : \E soff \in Offs(b) : \E n \in 0..(Cap(b) - soff) : \E doff \in 0..(len - n) :
       CopyToFresh(b, len, doff, soff, n, Fill(len)) /\ Rec([Cmd("ctf", b, doff, n) EXCEPT !.soff = soff, !.len = len])
  \/ \E b \in Bufs : \E off \in Offs(b) : \E n \in 0..(Cap(b) - off) :
       \/ ToNative(b, off, n) /\ Rec(Cmd("ton", b, off, n))
       \/ ToBytearray(b, off, n) /\ Rec(Cmd("tob", b, off, n))
       \/ \E k \in {"copy", "view"} : ToPointerArg(b, off, n, k) /\ Rec([Cmd("tpa", b, off, n) EXCEPT !.kind = k])
  \/ \E b \in Bufs, w \in Widths : \E off \in Offs(b) : \E cnt \in 0..((Cap(b) - off) \div w) :
       ToNplike(b, off, w, cnt) /\ Rec([Cmd("tnp", b, off, w * cnt) EXCEPT !.w = w, !.cnt = cnt])
  \/ \E b \in Bufs, wd \in Widths : \E off \in Offs(b) : \E cnt \in 0..((Cap(b) - off) \div wd) :
       UpdateFromNplike(b, off, wd, wd, cnt, "C", Fresh(step, wd * cnt)) /\ Rec([Cmd("unp", b, off, wd * cnt) EXCEPT !.w = wd, !.cnt = cnt])
  \/ \E b \in Bufs, src \in Bufs : \E off \in Offs(b) : \E n \in 0..(Cap(b) - off) : \E soff \in 0..(Cap(src) - n) :
       UpdateFromXbuffer(b, off, src, soff, n) /\ Rec([Cmd("ufx", b, off, n) EXCEPT !.src = src, !.soff = soff])
  \/ \E i \in DOMAIN views : \E k \in 0..((views[i].n \div views[i].w) - 1) :
       WriteView(i, k, Fresh(step, views[i].w)) /\ Rec([Cmd("wv", views[i].b, views[i].off + k * views[i].w, views[i].w) EXCEPT !.k = k, !.st = i])
  \/ \E i \in DOMAIN copies : \E pos \in 0..(Len(mem[copies[i].st]) - 1) :
       WriteCopy(i, pos, Fresh(step, 1)) /\ Rec([Cmd("wc", "", pos, 1) EXCEPT !.st = i])
  \/ \E b \in Bufs, n \in GrowAmounts : Cap(b) + n <= MaxCap /\ Grow(b, n, Fresh(step, n)) /\ Rec(Cmd("grow", b, Cap(b), n))

GInit == Init /\ hist = << >>
GNext == step < MaxSteps /\ Step /\ PrintT(ToJson([beh |-> hist']))
GSpec == GInit /\ [][GNext]_gvars

SNext == \/ step < MaxSteps /\ Step
         \/ step = MaxSteps /\ PrintT(ToJson([beh |-> hist])) /\ step' = step + 1 /\ UNCHANGED <<mem, buf, gen, copies, views, last, hist>>
SSpec == GInit /\ [][SNext]_gvars
=============================================================================
