\* bounded instance of XoSerial.tla as the quick tier runs it (vlib/serial.py writes the same text at run time, with INVARIANT Emit on XoSerialGen)
SPECIFICATION Spec
CONSTANTS MaxFields = 3 SeqUpTo = 2 CtxUpTo = 1
INVARIANT Satisfiable
INVARIANT RoundTrip
INVARIANT ElisionRespected
INVARIANT Exact
CHECK_DEADLOCK FALSE
