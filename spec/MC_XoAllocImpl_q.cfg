SPECIFICATION Spec
CONSTANTS MaxCap = 7  InitCap = 4  Sizes = {1,2,3}  Aligns = {1,2,4}  GrowStep = 0  GrowAmounts = {2}  Tokens = {7}
INVARIANT SortedCoalesced
INVARIANT NoEmptyChunk
INVARIANT AbsInv
INVARIANT GetFreeMatches
PROPERTY Refines
CHECK_DEADLOCK FALSE
