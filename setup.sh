#!/bin/bash
# offline setup: nothing is fetched; verify the tools the checks need and parse every specification
cd "$(dirname "$0")"
set -e
command -v java >/dev/null
test -f /opt/veriftools/tla/tla2tools.jar
/venv/bin/python -c "import numpy, cffi; import sys; sys.path.insert(0,'/repo'); import xobjects"
mkdir -p out evidence
cd spec
for f in *.tla; do
  case "$f" in *Trace*.tla) continue;; esac      # trace specs read an env-named input file at parse time of constants; parsed when used
  case "$f" in XoAllocInd.tla) continue;; esac   # Apalache module (EXTENDS Apalache): parsed by apalache-mc when the allocator checks run
  java -cp /opt/veriftools/tla/tla2tools.jar:/opt/veriftools/tla/CommunityModules-deps.jar tla2sany.SANY "$f" >/tmp/sany.$$ 2>&1 || { cat /tmp/sany.$$; rm -f /tmp/sany.$$; exit 1; }
done
rm -f /tmp/sany.$$
cd ..
echo setup ok
